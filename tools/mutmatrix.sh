#!/bin/bash
# Run the quick check of the targeted property against every seeded change (in scratch worktrees, never in /repo).
# usage: tools/mutmatrix.sh [ids...]   -> /tmp/mutmatrix/<id>.log ; summary on stdout
cd /verif
mkdir -p /tmp/mutmatrix
ids=${@:-$(ls -d seeded/*/ | xargs -n1 basename)}
run_one() {
  id=$1; lane=$2
  wt=/tmp/wt_mm_$lane
  [ -d $wt ] || git -C /repo worktree add --detach $wt HEAD >/dev/null 2>&1
  git -C $wt checkout -q -- . ; git -C $wt clean -qfd
  git -C $wt apply /verif/seeded/$id/patch.diff || { echo "$id APPLY-FAILED"; return; }
  prop=${id%%-*}
  TJV_REPO=$wt TJV_EVIDENCE_DIR=/tmp/mutmatrix/ev_$id ./check $prop --tier quick > /tmp/mutmatrix/$id.log 2>&1
  rc=$?
  git -C $wt checkout -q -- .
  nv=$(grep -c '^VIOLATION' /tmp/mutmatrix/$id.log)
  obl=$(grep '^VIOLATION' /tmp/mutmatrix/$id.log | grep -v 'replay=replays/C[0-9]*-C[0-9]*\.' | wc -l)
  echo "$id rc=$rc violations=$nv $(grep -c '^UNDECIDED' /tmp/mutmatrix/$id.log) undecided | $(grep '^VIOLATION' /tmp/mutmatrix/$id.log | sed 's/.*replay=replays\///' | tr '\n' ' ' | cut -c1-200)"
}
export -f run_one
echo $ids | tr ' ' '\n' | nl | while read n id; do echo "$id $((n % 4))"; done > /tmp/mutmatrix/jobs.txt
for lane in 0 1 2 3; do
  (grep " $lane\$" /tmp/mutmatrix/jobs.txt | while read id l; do run_one $id $l; done > /tmp/mutmatrix/lane_$lane.txt 2>&1) &
done
wait
cat /tmp/mutmatrix/lane_*.txt | sort
for lane in 0 1 2 3; do git -C /repo worktree remove --force /tmp/wt_mm_$lane 2>/dev/null; done
