#!/bin/bash
# verify one seeded change: $1 = source dir (/tmp/mut/C01/out/1), $2 = id (C01-1), $3 = scratch worktree
# result: /verif/seeded/<id>/{patch.diff,demo.py,meta.json(verified fields added)}
src=$1; id=$2; wt=$3
dst=/verif/seeded/$id
mkdir -p $dst
cp $src/patch.diff $src/demo.py $dst/ 2>/dev/null
cd $wt && git checkout -q -- . && git clean -qfd
export PYTHONPATH=$wt/src
/venv/bin/python $dst/demo.py >/dev/null 2>&1; clean_rc=$?
if ! git apply $dst/patch.diff 2>/dev/null; then echo "$id APPLY-FAILED"; git checkout -q -- .; exit 0; fi
/venv/bin/python -m pytest -q -p no:cacheprovider --timeout=900 -x >/tmp/seed_$id.log 2>&1; test_rc=$?
/venv/bin/python $dst/demo.py >/tmp/seed_demo_$id.log 2>&1; mut_rc=$?
git checkout -q -- . && git clean -qfd
python3 - <<PY
import json
m = json.load(open("$src/meta.json"))
m.update({"id": "$id", "verified_by_main": {"demo_rc_clean": $clean_rc, "pytest_rc_with_patch": $test_rc, "demo_rc_with_patch": $mut_rc,
          "ran": "git apply patch.diff in a scratch worktree of /repo HEAD; PYTHONPATH=<wt>/src /venv/bin/python -m pytest -q -x; demo.py before/after"}})
json.dump(m, open("$dst/meta.json", "w"), indent=1)
PY
echo "$id clean_demo=$clean_rc tests=$test_rc mutated_demo=$mut_rc"
