#!/bin/bash
# Run the deductive arm of ALL properties (and optionally the full quick check of the given properties) against every
# behaviour-preserving refactoring in /verif/seeded_benign — none of them may raise an alarm.
cd /verif; mkdir -p /tmp/benmatrix
ids=${@:-$(ls -d seeded_benign/*/ | xargs -n1 basename)}
run_one() { id=$1; lane=$2; wt=/tmp/wt_bm_$lane
  [ -d $wt ] || git -C /repo worktree add --detach $wt HEAD >/dev/null 2>&1
  git -C $wt checkout -q -- . ; git -C $wt clean -qfd
  git -C $wt apply /verif/seeded_benign/$id/patch.diff || { echo "$id APPLY-FAILED"; return; }
  TJV_REPO=$wt python3-vt tools/pyvc_all.py > /tmp/benmatrix/$id.log 2>/dev/null
  git -C $wt checkout -q -- .
  echo "$id refuted=$(grep -c ' REFUTED ' /tmp/benmatrix/$id.log) undecided=$(grep -c ' UNDECIDED ' /tmp/benmatrix/$id.log) $(tail -1 /tmp/benmatrix/$id.log)"
}
export -f run_one
echo $ids | tr ' ' '\n' | nl | while read n id; do echo "$id $((n % 4))"; done > /tmp/benmatrix/jobs.txt
for lane in 0 1 2 3; do (grep " $lane\$" /tmp/benmatrix/jobs.txt | while read id l; do run_one $id $l; done > /tmp/benmatrix/lane_$lane.txt 2>&1) & done
wait; cat /tmp/benmatrix/lane_*.txt | sort
for lane in 0 1 2 3; do git -C /repo worktree remove --force /tmp/wt_bm_$lane 2>/dev/null; done
