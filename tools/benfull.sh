#!/bin/bash
# Full quick check of ALL properties against every behaviour-preserving refactoring of seeded_benign/ (scratch worktrees).
# None may print a VIOLATION line.  usage: tools/benfull.sh [ids...]  -> /tmp/benfull/<id>.log ; summary on stdout
cd /verif; mkdir -p /tmp/benfull
ids=${@:-$(ls -d seeded_benign/*/ | xargs -n1 basename)}
run_one() { id=$1; lane=$2; wt=/tmp/wt_bf_$lane
  [ -d $wt ] || git -C /repo worktree add --detach $wt HEAD >/dev/null 2>&1
  git -C $wt checkout -q -- . ; git -C $wt clean -qfd
  git -C $wt apply /verif/seeded_benign/$id/patch.diff || { echo "$id APPLY-FAILED"; return; }
  TJV_REPO=$wt TJV_EVIDENCE_DIR=/tmp/benfull/ev_$id ./check all --tier quick > /tmp/benfull/$id.log 2>&1
  rc=$?
  git -C $wt checkout -q -- .
  echo "$id rc=$rc violations=$(grep -c '^VIOLATION' /tmp/benfull/$id.log) undecided=$(grep -c '^UNDECIDED' /tmp/benfull/$id.log) errors=$(grep -c 'CHECKER-ERROR' /tmp/benfull/$id.log) | $(grep '^VIOLATION' /tmp/benfull/$id.log | sed 's/.*replay=replays\///' | tr '\n' ' ' | cut -c1-300)"
}
export -f run_one
echo $ids | tr ' ' '\n' | nl | while read n id; do echo "$id $((n % 4))"; done > /tmp/benfull/jobs.txt
for lane in 0 1 2 3; do (grep " $lane\$" /tmp/benfull/jobs.txt | while read id l; do run_one $id $l; done > /tmp/benfull/lane_$lane.txt 2>&1) & done
wait; cat /tmp/benfull/lane_*.txt | sort
for lane in 0 1 2 3; do git -C /repo worktree remove --force /tmp/wt_bf_$lane 2>/dev/null; done
