#!/usr/bin/env python3
"""Generate /verif/MANIFEST.json from tjv/registry.py (run with python3-vt or any python3)."""
import json, os, sys
VERIF = os.path.dirname(os.path.dirname(os.path.abspath(__file__)))
sys.path.insert(0, VERIF)
from tjv import registry

BASELINE = json.load(open("/root/.vp/BASELINE.json"))["cmd"] if os.path.exists("/root/.vp/BASELINE.json") else \
    "cd /repo && /venv/bin/python -m pytest -ra -q -p no:cacheprovider --timeout=900 --continue-on-collection-errors"
props = [json.loads(l)["id"] for l in open(os.path.join(VERIF, "properties.jsonl"))]
checks, na = [], []
for pid in props:
    r = registry.REGISTRY.get(pid)
    if not r or not r.get("claimed"):
        na.append({"property_id": pid, "reason": (r or {}).get("na_reason", "check not built yet (see DESIGN.md)")})
        continue
    checks.append({
        "property_id": pid,
        "quick_cmd": f"./check {pid} --tier quick",
        "thorough_cmd": f"./check {pid} --tier thorough",
        "evidence_file": f"/verif/evidence/{pid}.json",
        "replay_cmd_template": "./check replay {path}",
        "engine": "tjv",
        "level_claimed": {"category": r["level"], "text": r["text"], "design_ref": r.get("design_ref", "")},
        "level_note": r["note"],
        "technique": r["technique"],
    })
man = {
    "version": 1,
    "setup_cmd": "./setup.sh",
    "hooks": {
        "guard": "TORCHJD_VERIF",
        "enable": "exported by ./check for its own processes; there are NO source hooks in /repo: contracts are sidecar "
                  "(tjv/contracts), the deductive arm only parses /repo/src, the run-time arm imports it unmodified",
        "baseline_off_cmd": BASELINE.replace("--junitxml=<file>", "").strip(),
        "source_commits": [],
        "add_only": True,
    },
    "engines": [
        {"name": "tjv", "path": "/verif/tjv", "serves_properties": [c["property_id"] for c in checks],
         "kind_free_text": "pyvc: sidecar contracts + VC generation from the Python AST of /repo/src discharged by z3 "
                           "(cvc5 cross-check in thorough); Lean 4 + Mathlib bridge lemmas; run-time contract "
                           "enforcement / replay arm under /venv/bin/python (bounded, never counted as proved)"},
    ],
    "checks": checks,
    "not_applicable": na,
    "notes": "Exit 0 = held on everything explored; undecided obligations are printed as UNDECIDED and recorded in the "
             "evidence. VERIF_SEED seeds every campaign. TJV_REPO=<dir> points the machinery at a scratch copy (self-test only).",
}
json.dump(man, open(os.path.join(VERIF, "MANIFEST.json"), "w"), indent=1)
print(f"MANIFEST.json: {len(checks)} checks, {len(na)} not_applicable")
