#!/usr/bin/env python3-vt
"""Deductive arm only, all properties, against $TJV_REPO (default /repo): prints every non-discharged obligation."""
import os, sys, time
sys.path.insert(0, os.path.dirname(os.path.dirname(os.path.abspath(__file__))))
from tjv.pyvc import run
repo = os.environ.get("TJV_REPO", "/repo")
props = sys.argv[1:] or [f"C{i:02d}" for i in range(1, 21)]
tot = dis = 0
for p in props:
    r = run.run_property(p, "quick", repo)
    for o in r.get("obligations", []):
        tot += 1
        dis += o["result"] == "discharged"
        if o["result"] != "discharged":
            print(f"{p} {o['result'].upper()} {o['name']} :: {(o.get('reason') or o.get('solver_output') or '')[:160]}")
print(f"TOTAL obligations={tot} discharged={dis}")
