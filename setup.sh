#!/bin/bash
# Offline setup: sanity-import the tool chains, build the Lean bridge library (if present).
set -e
cd "$(dirname "$0")"
python3-vt -c "import z3; print('z3', z3.get_version_string())"
/venv/bin/python -c "import torch, numpy, qpsolvers, cvxpy; print('torch', torch.__version__)"
mkdir -p evidence replays
if [ -f lean/lakefile.toml ] || [ -f lean/lakefile.lean ]; then
  (cd lean && ./build.sh) || { echo "lean build failed" >&2; exit 1; }
fi
echo setup-ok
