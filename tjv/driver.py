"""./check driver (runs under python3-vt).

    ./check C07 --tier quick|thorough      decide one property, write evidence/C07.json
    ./check replay <path>                  re-execute a replay file
    ./check selftest [ids...]              mutant corpus against a scratch copy (thorough tooling)
    ./check all --tier quick               every claimed property (convenience)

Exit codes: 0 = held on everything explored (undecided obligations are printed as UNDECIDED and recorded in
the evidence, never turned into a violation); 1 = VIOLATION line printed; 3 = checker problem.
"""
from __future__ import annotations

import argparse
import hashlib
import json
import os
import subprocess
import sys
import tempfile
import time
import traceback

VERIF = os.path.dirname(os.path.dirname(os.path.abspath(__file__)))
REPO = os.environ.get("TJV_REPO", "/repo")
VENV_PY = os.environ.get("TJV_VENV_PY", "/venv/bin/python")
PROPS = [f"C{i:02d}" for i in range(1, 21)]


def load_known_findings():
    p = os.path.join(VERIF, "known_findings.json")
    if not os.path.exists(p):
        return {"findings": [], "fixed": []}
    return json.load(open(p))


def run_rt(prop, tier, seed, focus=None, timeout=None):
    """Bounded arm under /venv/bin/python.  Returns dict or {'error': ...}."""
    with tempfile.NamedTemporaryFile(prefix=f"tjv_rt_{prop}_", suffix=".json", delete=False) as f:
        out = f.name
    cmd = [VENV_PY, "-m", "tjv.rt.harness", prop, "--tier", tier, "--seed", str(seed), "--out", out]
    if focus:
        cmd += ["--focus", json.dumps(focus)]
    env = dict(os.environ)
    env["PYTHONPATH"] = VERIF
    env["TORCHJD_VERIF"] = "1"
    env.setdefault("TJV_REPO", REPO)
    try:
        p = subprocess.run(cmd, cwd=VERIF, env=env, capture_output=True, text=True, timeout=timeout)
        if p.returncode != 0:
            return {"error": f"rt arm exit {p.returncode}: {p.stderr[-2000:]}"}
        return json.load(open(out))
    except subprocess.TimeoutExpired:
        return {"error": "rt arm timeout"}
    finally:
        try:
            os.unlink(out)
        except OSError:
            pass


def run_rt_case(prop, case):
    cmd = [VENV_PY, "-m", "tjv.rt.harness", prop, "--replay-case", json.dumps(case)]
    env = dict(os.environ)
    env["PYTHONPATH"] = VERIF
    env.setdefault("TJV_REPO", REPO)
    p = subprocess.run(cmd, cwd=VERIF, env=env, capture_output=True, text=True)
    if p.returncode != 0:
        return {"error": p.stderr[-2000:]}
    return json.loads(p.stdout)


def run_numreplay(call):
    """the REAL aggregator on a concrete input found by the numeric evaluation of a refuted algebraic obligation"""
    env = dict(os.environ)
    env["PYTHONPATH"] = VERIF
    env.setdefault("TJV_REPO", REPO)
    try:
        p = subprocess.run([VENV_PY, "-m", "tjv.rt.numreplay"], cwd=VERIF, env=env, input=json.dumps(call), capture_output=True, text=True, timeout=300)
        if p.returncode != 0:
            return {"error": p.stderr[-1000:]}
        return json.loads(p.stdout)
    except Exception as e:  # noqa: BLE001
        return {"error": f"{type(e).__name__}: {e}"}


def numeric_verdict(nv):
    """-> ('violation', observed) | ('not-reproduced', observed) | ('error', msg)"""
    import numpy as np
    from tjv.pyvc.numeval import close
    res = run_numreplay(nv["call"])
    if "error" in res:
        return "error", res["error"]
    if "raise" in res:
        return "violation", {"raises": res["raise"], "message": res.get("msg")}
    try:
        out = np.asarray(res["out"], dtype=np.float64)
        same = close(out, np.asarray(nv["expected"], dtype=np.float64), rtol=1e-5)
        for pz in res.get("perturbed", []):
            if isinstance(pz, dict) or not close(np.asarray(pz, dtype=np.float64), out, rtol=1e-4):
                # ill-conditioned input: the real output itself jumps under a 1e-10 perturbation - says nothing about the code
                return "not-reproduced", {"unstable_under_perturbation": True, "out": res["out"], "perturbed": pz}
    except Exception as e:  # noqa: BLE001
        return "error", f"{type(e).__name__}: {e}"
    return ("not-reproduced" if same else "violation"), res["out"]


def run_pyvc(prop, tier):
    """Deductive arm: obligations generated from the AST of the current tree.  Returns dict."""
    try:
        from tjv.pyvc import run as pyrun
    except Exception as e:  # engine import failure is a checker problem
        return {"error": f"pyvc import: {type(e).__name__}: {e}", "tb": traceback.format_exc()}
    try:
        return pyrun.run_property(prop, tier, REPO)
    except Exception as e:
        return {"error": f"pyvc crash: {type(e).__name__}: {e}", "tb": traceback.format_exc()}


def run_lean(prop, tier):
    try:
        from tjv import leanbridge
    except Exception as e:
        return {"theorems": [], "error": f"leanbridge import: {e}"}
    try:
        return leanbridge.check_property(prop, tier)
    except Exception as e:
        return {"theorems": [], "error": f"lean: {type(e).__name__}: {e}"}


def finding_matches(entry, prop, key, what=""):
    if entry.get("property") != prop:
        return False
    k = entry.get("key", "")
    return k == key or (k.endswith("*") and key.startswith(k[:-1]))


def write_replay(prop, name, payload):
    d = os.path.join(VERIF, "replays")
    os.makedirs(d, exist_ok=True)
    h = hashlib.sha256(json.dumps(payload, sort_keys=True, default=str).encode()).hexdigest()[:10]
    safe = name.replace("/", "_").replace(" ", "_")
    path = os.path.join(d, f"{prop}-{safe}-{h}.json")
    with open(path, "w") as f:
        json.dump(payload, f, indent=1, default=str)
    return os.path.relpath(path, VERIF)


def check_property(prop, tier, seed):
    from tjv import registry

    t0 = time.time()
    reg = registry.REGISTRY.get(prop, {})
    out_lines = []
    violations = []  # (replay path, suffix)
    known_lines = []
    undecided = []
    checker_errors = []
    kf = load_known_findings()

    # ---- deductive arm
    pv = run_pyvc(prop, tier) if reg.get("pyvc", False) else {"obligations": [], "skipped": True}
    if "error" in pv:
        checker_errors.append(pv["error"])
        pv.setdefault("obligations", [])
    obligations = pv.get("obligations", [])
    failed_obls = [o for o in obligations if o["result"] == "refuted"]
    undecided += [o for o in obligations if o["result"] not in ("discharged", "refuted")]

    # ---- Lean bridge lemmas
    ln = run_lean(prop, tier) if reg.get("lean") else {"theorems": []}
    if ln.get("error"):
        checker_errors.append(ln["error"])
    for th in ln.get("theorems", []):
        obligations.append({"name": "lean:" + th["name"], "function": th.get("file", ""), "backend": "lean4+mathlib",
                            "result": "discharged" if th["ok"] else "error", "ms": th.get("ms", 0), "kind": "L"})
        if not th["ok"]:
            checker_errors.append(f"Lean theorem {th['name']} not accepted: {th.get('msg', '')[:300]}")

    # ---- bounded arm
    rt = run_rt(prop, tier, seed) if reg.get("rt", True) else {"skipped": True}
    if "error" in rt:
        checker_errors.append(rt["error"])
    rt_failures = rt.get("failures", []) if isinstance(rt, dict) else []

    # ---- refuted obligations -> replay against the real code
    for o in failed_obls:
        key = o["name"]
        listed = [e for e in kf.get("findings", []) if finding_matches(e, prop, key)]
        if listed:
            known_lines.append(f"KNOWN-FINDING: property={prop} {listed[0].get('what', key)} (obligation {key})")
            continue
        nv = o.get("numeric") or {}
        if nv.get("status") == "candidate" and nv.get("call"):
            # the deductive arm's counter-model, made concrete under the standard interpretation: run the real code on it
            verdict, observed = numeric_verdict(nv)
            if verdict == "violation":
                payload = {"property": prop, "obligation": key, "function": o.get("function"), "solver": o.get("backend"),
                           "solver_output": o.get("solver_output", ""), "model": o.get("model"), "kind": "numeric",
                           "numeric_call": nv["call"], "expected": nv["expected"], "observed": observed,
                           "what": "the real aggregator's output on this input differs from the value of the specification term "
                                   "(standard interpretation of the spec operators, float64)"}
                path = write_replay(prop, key, payload)
                violations.append((path, ""))
                continue
            if verdict == "not-reproduced":
                o["result"] = "undecided"
                o["reason"] = ("numeric counter-example of the refuted obligation is NOT reproduced by the real code (real output = spec value, or "
                               "the real output is ill-conditioned at that input): undecided")
                undecided.append(o)
                continue
        # replay: first a failing case of the bounded arm with the same finding family, else a focused search
        repro = None
        fam = o.get("replay_keys", [])
        for f in rt_failures:
            if not fam or any(f.get("key", "").startswith(k) for k in fam):
                repro = f
                break
        if repro is None and reg.get("rt", True) and o.get("focus") is not None:
            rt2 = run_rt(prop, "thorough" if tier == "thorough" else "quick", seed + 1, focus=o.get("focus"))
            for f in rt2.get("failures", []) if isinstance(rt2, dict) else []:
                repro = f
                break
        payload = {"property": prop, "obligation": key, "function": o.get("function"), "file": o.get("file"),
                   "line": o.get("line"), "solver": o.get("backend"), "solver_output": o.get("solver_output", ""),
                   "model": o.get("model"), "kind": "obligation"}
        if repro is not None:
            payload.update({"concrete_case": repro.get("case"), "observed": repro.get("observed"),
                            "expected": repro.get("expected"), "what": repro.get("what"), "rt_key": repro.get("key")})
            path = write_replay(prop, key, payload)
            violations.append((path, ""))
        else:
            payload["note"] = "no failing concrete input found by the replay search; the obligation held on the unchanged tree"
            path = write_replay(prop, key, payload)
            violations.append((path, " no-failing-input-found"))

    # ---- bounded-arm failures not explained by a refuted obligation
    reported_keys = set()
    for f in rt_failures:
        key = f.get("key", "rt")
        listed = [e for e in kf.get("findings", []) if finding_matches(e, prop, key)]
        if listed:
            line = f"KNOWN-FINDING: property={prop} {listed[0].get('what', key)} (bounded arm, key {key})"
            if line not in known_lines:
                known_lines.append(line)
            continue
        if key in reported_keys:
            continue
        reported_keys.add(key)
        if any(key.startswith(k) for o in failed_obls for k in o.get("replay_keys", [])) and violations:
            continue  # already reported through its obligation
        payload = {"property": prop, "kind": "bounded", "rt_key": key, "what": f.get("what"),
                   "concrete_case": f.get("case"), "observed": f.get("observed"), "expected": f.get("expected")}
        path = write_replay(prop, key, payload)
        violations.append((path, ""))

    # ---- verdict lines
    for o in undecided:
        out_lines.append(f"UNDECIDED obligation={o['name']} reason={o.get('reason', o['result'])}")
    out_lines += known_lines
    for path, suffix in violations:
        out_lines.append(f"VIOLATION property={prop} replay={path}{suffix}")

    # ---- evidence
    n_obl = len(obligations)
    n_dis = sum(1 for o in obligations if o["result"] == "discharged")
    level = reg.get("level", "other")
    if level == "proof" and (n_obl == 0 or n_dis != n_obl):
        level = "other"
    cov = {
        "obligations": n_obl,
        "discharged": n_dis,
        "checker_cmd": f"./check {prop} --tier {tier}  (pyvc: AST of {REPO}/src -> z3 {pv.get('z3_version', '?')}"
                       + ("; cvc5 cross-check" if tier == "thorough" else "") + "; lean4+mathlib for bridge lemmas)",
        "trusted_base": sorted(set(pv.get("trusted_base", []) + reg.get("trusted_base", []))),
        "explanation": reg.get("explanation", "") + (" | UNDECIDED: " + ", ".join(o["name"] for o in undecided) if undecided else ""),
        "functions_under_contract": pv.get("functions", []),
        "functions_symbolically_executed": pv.get("functions_symbolically_executed", []),
        "known_findings_reproduced": list(known_lines),
        "obligation_results": [
            {k: o.get(k) for k in ("name", "function", "backend", "result", "ms", "kind")} for o in obligations
        ],
        "solver_ms_total": sum(o.get("ms", 0) or 0 for o in obligations),
        "vacuity": pv.get("vacuity", {}),
        "primitive_validation": pv.get("primitive_validation", {}),
        "dropped_by_extraction": pv.get("dropped", ""),
        "lean": ln,
        "bounded": {k: rt.get(k) for k in ("evaluations", "distinct", "distinct_nontrivial", "rule", "bounds",
                                             "exhaustive_parts", "n_failures", "n_crashes", "wall_s")} if isinstance(rt, dict) else {},
        "evaluations": rt.get("evaluations", 0) if isinstance(rt, dict) else 0,
        "distinct_nontrivial": rt.get("distinct_nontrivial", 0) if isinstance(rt, dict) else 0,
        "rule": (rt.get("rule", "") if isinstance(rt, dict) else ""),
        "samples": ([{"obligation": o["name"], "result": o["result"], "backend": o.get("backend")} for o in obligations[:3]]
                    + (rt.get("samples", []) if isinstance(rt, dict) else []))[:8],
        "known_findings_printed": known_lines,
        "checker_errors": checker_errors,
        "rt_crashes": rt.get("crashes", [])[:3] if isinstance(rt, dict) else [],
    }
    if not cov["samples"]:
        cov["samples"] = [{"note": "no case explored"}]
    ev = {
        "property_id": prop,
        "tier": tier,
        "seed": seed,
        "level": level,
        "coverage": cov,
        "assumptions": sorted(set(reg.get("assumptions", []) + pv.get("assumptions", []))),
        "wall_s": round(time.time() - t0, 2),
        "violations": len(violations),
    }
    evdir = os.environ.get("TJV_EVIDENCE_DIR", os.path.join(VERIF, "evidence"))  # redirected only by the mutant self-test
    os.makedirs(evdir, exist_ok=True)
    with open(os.path.join(evdir, f"{prop}.json"), "w") as f:
        json.dump(ev, f, indent=1, default=str)

    for line in out_lines:
        print(line)
    print(f"[{prop}] tier={tier} obligations={n_obl} discharged={n_dis} undecided={len(undecided)} "
          f"bounded_evaluations={cov['evaluations']} violations={len(violations)} wall={ev['wall_s']}s")
    if violations:
        return 1
    if checker_errors:
        for e in checker_errors:
            print(f"CHECKER-ERROR: {e}", file=sys.stderr)
        return 3
    return 0


def do_replay(path):
    p = path if os.path.isabs(path) else os.path.join(VERIF, path)
    payload = json.load(open(p))
    prop = payload["property"]
    print(f"replay of {payload.get('kind')} violation of {prop}: obligation={payload.get('obligation')} key={payload.get('rt_key')}")
    if payload.get("solver_output"):
        print("solver output:", str(payload["solver_output"])[:2000])
    if payload.get("kind") == "numeric":
        verdict, observed = numeric_verdict({"call": payload["numeric_call"], "expected": payload["expected"]})
        print(json.dumps({"verdict": verdict, "observed": observed, "expected": payload["expected"], "call": payload["numeric_call"]}, default=str)[:3000])
        if verdict == "violation":
            print(f"VIOLATION property={prop} replay={path}")
            return 1
        print("the recorded input no longer fails on the current tree" if verdict == "not-reproduced" else "replay error")
        return 0 if verdict == "not-reproduced" else 3
    case = payload.get("concrete_case")
    if case is None:
        print("no concrete failing input recorded (no-failing-input-found); nothing to execute")
        return 1
    res = run_rt_case(prop, case)
    print(json.dumps({k: res.get(k) for k in ("ok", "key", "what", "observed", "expected", "crash", "error")}, default=str)[:3000])
    if res.get("ok", True) is False:
        print(f"VIOLATION property={prop} replay={path}")
        return 1
    print("the recorded input no longer fails on the current tree")
    return 0


def main(argv=None):
    argv = list(sys.argv[1:] if argv is None else argv)
    if not argv:
        print(__doc__)
        return 3
    if argv[0] == "replay":
        return do_replay(argv[1])
    if argv[0] == "selftest":
        from tjv import selftest

        return selftest.main(argv[1:])
    ap = argparse.ArgumentParser()
    ap.add_argument("prop")
    ap.add_argument("--tier", default=os.environ.get("VERIF_TIER", "quick"), choices=["quick", "thorough"])
    a = ap.parse_args(argv)
    seed = int(os.environ.get("VERIF_SEED", "0") or 0)
    if a.prop == "all":
        rc = 0
        for p in PROPS:
            rc = max(rc, check_property(p, a.tier, seed))
        return rc
    if a.prop not in PROPS:
        print(f"unknown property {a.prop}", file=sys.stderr)
        return 3
    return check_property(a.prop, a.tier, seed)


if __name__ == "__main__":
    sys.exit(main())
