"""Run-time arm (runs under /venv/bin/python): executable renderings of the sidecar contracts,
independent oracles, bounded campaigns [B]/[E] and the replay engine.  Never counted as proved."""
