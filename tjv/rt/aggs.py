"""JSON-able aggregator specifications -> real torchjd aggregators, plus matrix generators."""
from __future__ import annotations

import math
import random

import torch


def make_agg(spec: dict, m: int, dtype=torch.float64):
    """Build the real aggregator for a matrix with m rows.  Returns None when the aggregator's
    documented row requirement cannot be met with m rows."""
    import torchjd.aggregation as A

    name = spec["name"]
    if name == "Constant":
        w = constant_weights(spec.get("kind", "distinct"), m, dtype, spec.get("wseed", 0))
        return A.Constant(w)
    if name == "Mean":
        return A.Mean()
    if name == "Sum":
        return A.Sum()
    if name == "UPGrad":
        pv = pref_vector(spec.get("pref"), m, dtype)
        return A.UPGrad(pref_vector=pv, norm_eps=spec.get("norm_eps", 1e-4), reg_eps=spec.get("reg_eps", 1e-4))
    if name == "DualProj":
        pv = pref_vector(spec.get("pref"), m, dtype)
        return A.DualProj(pref_vector=pv, norm_eps=spec.get("norm_eps", 1e-4), reg_eps=spec.get("reg_eps", 1e-4))
    if name == "Krum":
        f, k = spec.get("f", 0), spec.get("k", 1)
        if m < f + 3 or m < k:
            return None
        return A.Krum(n_byzantine=f, n_selected=k)
    if name == "TrimmedMean":
        b = spec.get("b", 1)
        if m < 2 * b + 1:
            return None
        return A.TrimmedMean(trim_number=b)
    if name == "MGDA":
        return A.MGDA(epsilon=spec.get("epsilon", 0.001), max_iters=spec.get("max_iters", 100))
    if name == "PCGrad":
        return A.PCGrad()
    if name == "Random":
        return A.Random()
    if name == "GradDrop":
        leak = spec.get("leak")
        if leak == "rand":
            g = torch.Generator().manual_seed(spec.get("wseed", 0))
            leak_t = torch.rand(m, generator=g, dtype=torch.float64).to(dtype)
            if spec.get("leak_dtype") == "other":
                # a leak vector configured in ANOTHER floating dtype than the matrices (e.g. built from numpy): values exactly
                # representable in both (multiples of 1/8), so that only the dtype of the result can be affected
                leak_t = (torch.round(leak_t.double() * 8) / 8).to(torch.float64 if dtype == torch.float32 else torch.float32)
        elif leak is None:
            leak_t = None
        else:
            leak_t = torch.tensor(leak, dtype=dtype)
        return A.GradDrop(leak=leak_t)
    if name == "IMTLG":
        return A.IMTLG()
    if name == "AlignedMTL":
        return A.AlignedMTL(pref_vector=pref_vector(spec.get("pref"), m, dtype))
    if name == "ConFIG":
        return A.ConFIG(pref_vector=pref_vector(spec.get("pref"), m, dtype))
    if name == "CAGrad":
        return A.CAGrad(c=spec.get("c", 0.5), norm_eps=spec.get("norm_eps", 1e-4))
    if name == "NashMTL":
        return A.NashMTL(n_tasks=m, update_weights_every=spec.get("every", 1), max_norm=spec.get("max_norm", 1.0))
    raise KeyError(name)


def constant_weights(kind: str, m: int, dtype, wseed: int = 0) -> torch.Tensor:
    if kind == "distinct":
        return torch.tensor([1.0 + 0.75 * i for i in range(m)], dtype=dtype)
    if kind == "signed":  # negative and zero entries included
        rng = random.Random(wseed)
        vals = [rng.choice([-2.0, -0.5, 0.0, 0.25, 1.0, 3.0]) for _ in range(m)]
        return torch.tensor(vals, dtype=dtype)
    if kind == "rand":
        rng = random.Random(wseed)
        return torch.tensor([rng.uniform(-2, 2) for _ in range(m)], dtype=dtype)
    raise KeyError(kind)


def pref_vector(kind, m: int, dtype):
    if kind is None:
        return None
    if kind == "distinct":
        return torch.tensor([0.5 + 0.5 * i for i in range(m)], dtype=dtype)
    if kind == "withzero":
        return torch.tensor([0.0 if i == 0 else 1.0 + i for i in range(m)], dtype=dtype)
    if isinstance(kind, (list, tuple)):
        return torch.tensor(list(kind), dtype=dtype)
    if isinstance(kind, dict) and kind.get("rand") is not None:
        rng = random.Random(kind["rand"])
        return torch.tensor([rng.uniform(0.1, 2.0) for _ in range(m)], dtype=dtype)
    raise KeyError(kind)


def permute_spec_vectors(spec: dict, perm: list[int], m: int, dtype):
    """Aggregator for the row-permuted matrix J[perm]: the configured vector is permuted alike."""
    import torchjd.aggregation as A

    name = spec["name"]
    base = make_agg(spec, m, dtype)
    if base is None:
        return None
    idx = torch.tensor(perm)
    if name == "Constant":
        return A.Constant(base.weighting.weights[idx])
    if name in ("UPGrad", "DualProj") and spec.get("pref") is not None:
        pv = pref_vector(spec.get("pref"), m, dtype)[idx]
        cls = getattr(A, name)
        return cls(pref_vector=pv, norm_eps=spec.get("norm_eps", 1e-4), reg_eps=spec.get("reg_eps", 1e-4))
    if name in ("AlignedMTL", "ConFIG") and spec.get("pref") is not None:
        pv = pref_vector(spec.get("pref"), m, dtype)[idx]
        return getattr(A, name)(pref_vector=pv)
    if name == "GradDrop" and spec.get("leak") is not None:
        return A.GradDrop(leak=base.leak[idx])
    return make_agg(spec, m, dtype)


# ----------------------------------------------------------------------------- matrices


def gen_matrix(spec: dict) -> torch.Tensor:
    """spec: {kind, m, n, seed, scale (float), dtype, rank?, smax? (target spectral norm)}  (always generated in
    float64 then cast)"""
    g = torch.Generator().manual_seed(spec["seed"])
    m, n = spec["m"], spec["n"]
    kind = spec.get("kind", "gauss")
    dt = torch.float64
    if kind == "longrow":
        # two short conflicting rows u + p v, u - q v and long rows L u roughly aligned with their sum: from the mean, the steepest
        # vertex of Frank-Wolfe is a short row with |g_t|^2 <= <g_alpha, g_t> (step size 1) that is NOT the min-norm point
        u = torch.randn(n, generator=g, dtype=dt)
        u = u / u.norm()
        v = torch.randn(n, generator=g, dtype=dt)
        v = v - (v @ u) * u
        v = v / v.norm()
        r = lambda a, b: float(torch.rand(1, generator=g, dtype=dt)) * (b - a) + a  # noqa: E731
        rows = [u + r(2.0, 4.0) * v, u - r(0.7, 1.3) * v]
        for _ in range(2, m):
            rows.append(r(5.0, 10.0) * u + r(-0.2, 0.2) * v)
        M = torch.stack(rows)[torch.randperm(m, generator=g)]
    elif kind == "outliers":
        # ordinary rows + `b` rows of huge positive and `b` rows of huge negative entries that partly cancel (Byzantine rows):
        # arithmetic that lets the trimmed entries take part (column sum minus extremes, ...) absorbs the kept values differently
        # in every row order
        b = spec.get("b", 1)
        big = spec.get("big", 1e20)
        M = torch.randn(m, n, generator=g, dtype=dt)
        pos = torch.randperm(m, generator=g)
        for j in range(b):
            M[pos[j]] = big * (1.0 + torch.rand(n, generator=g, dtype=dt))
            # (half of the time the negative row is the EXACT opposite: (x + B) - B = 0 but (B - B) + x = x)
            M[pos[b + j]] = -M[pos[j]] if spec["seed"] % 2 == 0 else -big * (1.0 + torch.rand(n, generator=g, dtype=dt))
    elif kind == "weakdir":
        # dominant rows aligned with one direction u, a TINY row that conflicts with them, and a weak (but non-null) second
        # direction v that carries the conflict: hiding v (a rank cut-off on squared singular values, ...) changes the answer
        u = torch.randn(n, generator=g, dtype=dt)
        u = u / u.norm()
        v = torch.randn(n, generator=g, dtype=dt)
        v = v - (v @ u) * u
        v = v / v.norm() if float(v.norm()) > 0 else v
        e = lambda: float(torch.rand(1, generator=g, dtype=dt)) * 0.009 + 0.001  # noqa: E731
        rows = [u + e() * v, -e() * 2.0 * u - e() * v]
        for i in range(2, m):
            rows.append((0.3 + 0.1 * i) * u + e() * v)
        M = torch.stack(rows[:m]) if m >= 2 else (u + e() * v).unsqueeze(0)
        M = M[torch.randperm(M.shape[0], generator=g)]
    elif kind == "offset":  # a large common component: rows = ratio * c + spread (norms >> mutual distances)
        dev = float(spec.get("spread", 1.0)) * torch.randn(m, n, generator=g, dtype=dt)
        if spec.get("hetero"):  # rows at clearly different distances from the common component: well separated Krum scores
            dev = dev * (1.0 + 0.6 * torch.arange(m, dtype=dt)).unsqueeze(1)
        if spec.get("tight"):
            # MANY rows: `tight` rows clearly closer to the common component than all the others (the selection of Krum is unambiguous
            # by a factor ~2 in the scores, however many distances each score sums), rows shuffled
            t = int(spec["tight"])
            f = torch.cat([1.0 + 0.3 * torch.arange(t, dtype=dt), 6.0 * (1.0 + 0.05 * torch.arange(m - t, dtype=dt))])
            dev = float(spec.get("spread", 1.0)) * torch.randn(m, n, generator=g, dtype=dt) * f.unsqueeze(1)
            dev = dev[torch.randperm(m, generator=g)]
        M = torch.randn(1, n, generator=g, dtype=dt) * float(spec.get("ratio", 1e4)) + dev
    elif kind == "gauss":
        M = torch.randn(m, n, generator=g, dtype=dt)
    elif kind == "lowrank":
        r = max(1, min(spec.get("rank", 1), m, n))
        M = torch.randn(m, r, generator=g, dtype=dt) @ torch.randn(r, n, generator=g, dtype=dt)
    elif kind == "antiparallel":
        M = torch.randn(m, n, generator=g, dtype=dt)
        if m >= 2:
            M[1] = -M[0] * (1.0 + 1e-3) + 1e-3 * torch.randn(n, generator=g, dtype=dt)
    elif kind == "duprows":
        M = torch.randn(m, n, generator=g, dtype=dt)
        if m >= 2:
            M[-1] = M[0]
    elif kind == "zerorow":
        M = torch.randn(m, n, generator=g, dtype=dt)
        M[m // 2] = 0.0
    elif kind == "zero":
        M = torch.zeros(m, n, dtype=dt)
    elif kind == "rowscales":  # row norms over many decades
        M = torch.randn(m, n, generator=g, dtype=dt)
        dec = spec.get("decades", 12)
        for i in range(m):
            M[i] *= 10.0 ** (-dec / 2 + dec * i / max(1, m - 1))
    elif kind == "stationary":  # there is v>0 with v^T M = 0
        M = torch.randn(m, n, generator=g, dtype=dt)
        v = torch.rand(m, generator=g, dtype=dt) + 0.1
        M = M - torch.outer(v, (v @ M)) / (v @ v)
    elif kind == "imbstationary":  # Pareto-stationary (v > 0, v^T M = 0) AND imbalanced: row norms log-uniform over
        # `decades` (default 1.5), so the uniform combination (the mean) is far from the min-norm point 0
        M = torch.randn(m, n, generator=g, dtype=dt)
        v = torch.rand(m, generator=g, dtype=dt) + 0.1
        M = M - torch.outer(v, (v @ M)) / (v @ v)
        d = 10.0 ** (spec.get("decades", 1.5) * torch.rand(m, generator=g, dtype=dt))
        M = d.unsqueeze(1) * M
    elif kind == "nonconflict":  # all pairwise inner products >= 0
        M = torch.rand(m, n, generator=g, dtype=dt) + 0.05
    elif kind == "ternary":
        code = spec["code"]
        vals = []
        for _ in range(m * n):
            vals.append([-1.0, 0.0, 1.0][code % 3])
            code //= 3
        M = torch.tensor(vals, dtype=dt).reshape(m, n)
    elif kind == "ints":  # small integers: with a power-of-two `scale`, J J^T is EXACT in any summation order
        M = torch.randint(-3, 4, (m, n), generator=g).to(dt)
    elif kind == "wellcond":  # full row rank, bounded condition number (m <= n)
        Q1, _ = torch.linalg.qr(torch.randn(m, m, generator=g, dtype=dt))
        Q2, _ = torch.linalg.qr(torch.randn(n, n, generator=g, dtype=dt))
        cond = spec.get("cond", 100.0)
        s = torch.logspace(0, -math.log10(cond), steps=m, dtype=dt) if m > 1 else torch.ones(1, dtype=dt)
        M = Q1 @ torch.diag(s) @ Q2[:m, :]
        if spec.get("dup"):  # + an EXACT copy of one row (two objectives with the same gradient), rows shuffled: rank m, m + 1 rows
            M = torch.cat([M, M[int(torch.randint(m, (1,), generator=g))].unsqueeze(0)])
            M = M[torch.randperm(m + 1, generator=g)]
    else:
        raise KeyError(kind)
    M = M * spec.get("scale", 1.0)
    if spec.get("smax") is not None:  # rescale so that the LARGEST SINGULAR VALUE is `smax` (zero matrices stay zero)
        s = float(torch.linalg.matrix_norm(M, ord=2)) if M.numel() else 0.0
        if s > 0.0:
            M = M * (spec["smax"] / s)
    return M.to(torch.float64 if spec.get("dtype", "float64") == "float64" else torch.float32)
