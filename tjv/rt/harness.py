"""Campaign harness for the run-time arm.

A campaign module ``tjv.rt.campaigns.<id>`` defines

    cases(tier: str, seed: int) -> iterable of JSON-able case dicts
    run_case(case: dict) -> dict    with keys
        ok: bool
        sig: str            signature used to count distinct cases
        nontrivial: bool    by the campaign's RULE
        (on failure) key: str  finding key,  what: str,  observed / expected: JSON-able
    RULE: str               how cases are generated and what makes one non-trivial
    BOUNDS: str             stated bounds of the campaign

``run_case`` must be deterministic in ``case`` — the replay engine just calls it again.
"""
from __future__ import annotations

import importlib
import json
import multiprocessing as mp
import os
import sys
import time
import traceback
import warnings

# The real code under check: $TJV_REPO/src (default /repo/src) is put FIRST on sys.path so that a scratch
# copy (mutant self-test) can be checked without touching /repo.
REPO = os.environ.get("TJV_REPO", "/repo")
sys.path.insert(0, os.path.join(REPO, "src"))


def _init_worker():
    import torch

    warnings.filterwarnings("ignore")
    torch.set_num_threads(1)
    os.environ.setdefault("OMP_NUM_THREADS", "1")


def _run_one(args):
    modname, case = args
    mod = importlib.import_module(modname)
    try:
        res = mod.run_case(case)
    except Exception as e:  # a crash of the harness/oracle itself is NOT a violation
        res = {"ok": True, "crash": f"{type(e).__name__}: {e}", "tb": traceback.format_exc()[-1500:],
               "sig": "crash", "nontrivial": False}
    res["case"] = case
    return res


def run_campaign(prop: str, tier: str, seed: int, focus: dict | None = None, max_cases: int | None = None,
                 procs: int | None = None) -> dict:
    modname = f"tjv.rt.campaigns.{prop}"
    mod = importlib.import_module(modname)
    t0 = time.time()
    cases = list(mod.cases(tier, seed) if focus is None else mod.cases(tier, seed, focus=focus))
    if max_cases is not None:
        cases = cases[:max_cases]
    procs = procs or int(os.environ.get("VERIF_PROCS", "16"))
    results = []
    if procs > 1 and len(cases) > 8:
        ctx = mp.get_context("fork")
        with ctx.Pool(procs, initializer=_init_worker) as pool:
            for r in pool.imap_unordered(_run_one, [(modname, c) for c in cases], chunksize=max(1, len(cases) // (procs * 8))):
                results.append(r)
    else:
        _init_worker()
        for c in cases:
            results.append(_run_one((modname, c)))
    sigs, failures, crashes, samples = set(), [], [], []
    nontriv = set()
    for r in results:
        sigs.add(r.get("sig", ""))
        if r.get("nontrivial"):
            nontriv.add(r.get("sig", ""))
        if "crash" in r:
            crashes.append({"case": r["case"], "crash": r["crash"], "tb": r.get("tb", "")})
        if not r.get("ok", True):
            failures.append(r)
    # deterministic sample selection
    results_sorted = sorted(results, key=lambda r: json.dumps(r["case"], sort_keys=True, default=str))
    for r in results_sorted[:: max(1, len(results_sorted) // 4)][:4]:
        samples.append({"case": r["case"], "ok": r.get("ok", True), "note": r.get("note", "")})
    return {
        "property": prop,
        "tier": tier,
        "seed": seed,
        "evaluations": len(results),
        "distinct": len(sigs),
        "distinct_nontrivial": len(nontriv),
        "rule": getattr(mod, "RULE", ""),
        "bounds": getattr(mod, "BOUNDS", ""),
        "exhaustive_parts": getattr(mod, "EXHAUSTIVE", ""),
        "failures": failures[:50],
        "n_failures": len(failures),
        "crashes": crashes[:10],
        "n_crashes": len(crashes),
        "samples": samples,
        "wall_s": round(time.time() - t0, 2),
    }


def replay_case(prop: str, case: dict) -> dict:
    _init_worker()
    return _run_one((f"tjv.rt.campaigns.{prop}", case))


def main(argv=None):
    import argparse

    ap = argparse.ArgumentParser()
    ap.add_argument("prop")
    ap.add_argument("--tier", default="quick")
    ap.add_argument("--seed", type=int, default=0)
    ap.add_argument("--out", default=None)
    ap.add_argument("--focus", default=None, help="JSON dict of hints from a counter-model")
    ap.add_argument("--replay-case", default=None, help="JSON case to re-run")
    ap.add_argument("--max-cases", type=int, default=None)
    a = ap.parse_args(argv)
    warnings.filterwarnings("ignore")
    if a.replay_case is not None:
        res = replay_case(a.prop, json.loads(a.replay_case))
    else:
        res = run_campaign(a.prop, a.tier, a.seed, focus=json.loads(a.focus) if a.focus else None,
                           max_cases=a.max_cases)
    txt = json.dumps(res, indent=1, default=str)
    if a.out:
        with open(a.out, "w") as f:
            f.write(txt)
    else:
        print(txt)
    return 0


if __name__ == "__main__":
    sys.exit(main())
