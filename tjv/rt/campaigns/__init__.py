"""Bounded campaigns, one module per property id."""
