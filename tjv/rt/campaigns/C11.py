"""C11 [B]: aggregators are total, pure, stateless and positively homogeneous — bounded campaign.

Executable rendering of the contracts C11.checks / C11.frame / C11.stateless / C11.rng / C11.type / C11.deg0 on the
real aggregator objects (every aggregator exported by torchjd.aggregation except NashMTL).

Clauses (failure keys):
  C11.finite   the call on a finite matrix meeting the row requirement raised, or returned nan/inf
  C11.shape    result shape != (n,)
  C11.dtype    result dtype != matrix dtype
  C11.reject   a tensor that is not 2-d / has nan or inf / has a contradicting row count was not rejected with
               ValueError (accepted, or another exception type), or the rejected call modified its input
  C11.pure     the input changed (bitwise compare with a clone, or ._version bumped)
  C11.history  used instance (after calls on other matrices, rejected calls, other seeds) != fresh instance, bitwise
  C11.seed     equal torch seeds gave different results, bitwise
  C11.deg0     A(tJ) != t A(J) beyond the rounding / conditioning tolerance derived below (includes the regression
               of the repaired IMTLG guard: IMTLG()(1e13 J) == 1e13 IMTLG()(J))
"""
from __future__ import annotations

import math
import random

import numpy as np
import torch

from tjv.rt.aggs import gen_matrix, make_agg
from ._agga import (cond_number, eps_of, fail, krum_scores, min_norm_enum, sigma_max, small, to64)

RULE = ("aggregator spec (25 configurations of the 15 aggregators, with pref/weight/leak vectors and non-default "
        "eps) x matrix family (gauss, lowrank, antiparallel, duprows, zerorow, zero, rowscales, stationary, "
        "nonconflict, ternary, wellcond) x shape x dtype x log-uniform scale incl. both ends of the stated range; "
        "four case kinds: total (finite/shape/dtype/pure/seed/history), reject (non-2-d, nan/inf, wrong row count), "
        "deg0 (A(tJ) vs tA(J), t general or a power of two), deg0 regressions. distinct = (kind, aggregator spec, "
        "matrix spec, t / defect); non-trivial = the matrix has a non-zero entry (total, deg0: and the reference "
        "output is non-zero) or the invalid input is a genuinely invalid tensor (reject)")
BOUNDS = ("m <= 9, n <= 11 (incl. m=1, n=1, m>n); scale 1e-12..1e15 (float32), 1e-100..1e100 (float64); "
          "t such that J and tJ both stay in the range; history of <= 3 earlier calls")
EXHAUSTIVE = ("thorough: every aggregator configuration x every shape class {1x1,1xn,mx1,m<n,m=n,m>n,9x11} x both "
              "dtypes x both range ends; every (configuration, defect kind) pair of the reject table")

AGGS = [
    {"name": "Mean"},
    {"name": "Sum"},
    {"name": "Constant", "kind": "distinct"},
    {"name": "Constant", "kind": "signed", "wseed": 5},
    {"name": "UPGrad"},
    {"name": "UPGrad", "pref": "distinct", "norm_eps": 1e-4, "reg_eps": 1e-2},
    {"name": "DualProj"},
    {"name": "DualProj", "pref": "withzero", "norm_eps": 1e-6, "reg_eps": 1e-3},
    {"name": "MGDA"},
    {"name": "MGDA", "epsilon": 0.0, "max_iters": 20},
    {"name": "PCGrad"},
    {"name": "Random"},
    {"name": "GradDrop"},
    {"name": "GradDrop", "leak": "rand", "wseed": 2},
    {"name": "GradDrop", "leak": "rand", "wseed": 5, "leak_dtype": "other"},
    {"name": "IMTLG"},
    {"name": "AlignedMTL"},
    {"name": "AlignedMTL", "pref": "distinct"},
    {"name": "ConFIG"},
    {"name": "ConFIG", "pref": "distinct"},
    {"name": "CAGrad", "c": 0.5},
    {"name": "CAGrad", "c": 1.5, "norm_eps": 1e-6},
    {"name": "Krum", "f": 0, "k": 1},
    {"name": "Krum", "f": 1, "k": 2},
    {"name": "TrimmedMean", "b": 1},
    {"name": "TrimmedMean", "b": 0},
]
KINDS = ["gauss", "lowrank", "antiparallel", "duprows", "zerorow", "zero", "rowscales", "stationary",
         "nonconflict", "ternary", "wellcond"]
SHAPES = [(1, 1), (1, 5), (4, 1), (2, 3), (3, 7), (4, 4), (5, 3), (9, 11), (9, 2), (6, 8), (3, 3), (2, 2), (7, 7)]
RANGE = {"float32": (-12.0, 15.0), "float64": (-100.0, 100.0)}
SLOW = {"CAGrad"}


def _min_rows(spec):
    if spec["name"] == "Krum":
        return max(spec.get("f", 0) + 3, spec.get("k", 1))
    if spec["name"] == "TrimmedMean":
        return 2 * spec.get("b", 1) + 1
    return 1


def _mat(rng, kind, m, n, dtype, logscale=None, decades=None):
    lo, hi = RANGE[dtype]
    spec = {"kind": kind, "m": m, "n": n, "seed": rng.randrange(10**6), "dtype": dtype}
    if kind == "wellcond" and m > n:
        spec["kind"] = "gauss"
    if kind == "lowrank":
        spec["rank"] = rng.randint(1, max(1, min(m, n) - 1))
    if kind == "ternary":
        spec["code"] = rng.randrange(3 ** (m * n))
    if spec["kind"] == "rowscales":
        dec = decades if decades is not None else rng.choice([2, 4, 8])
        spec["decades"] = dec
        lo, hi = lo + dec / 2, hi - dec / 2
    if logscale is None:
        logscale = rng.choice([lo, hi, 0.0, rng.uniform(lo, hi), rng.uniform(lo, hi)])
    logscale = min(max(logscale, lo), hi)
    spec["scale"] = 10.0 ** logscale
    return spec


def cases(tier, seed, focus=None):
    rng = random.Random(11000 + seed)
    out = []
    # ---- regressions of the repaired IMTLG guard (F4): t = 1e13 and the neighbouring decades
    for dtype in ("float64", "float32"):
        for kind, (m, n) in (("gauss", (3, 5)), ("wellcond", (4, 6)), ("gauss", (2, 2))):
            for t in (1e13, 1e12, 1e14):
                out.append({"kind": "deg0", "agg": {"name": "IMTLG"},
                            "mat": {"kind": kind, "m": m, "n": n, "seed": 7, "dtype": dtype, "scale": 1.0}, "t": t})
    out.append({"kind": "deg0", "agg": {"name": "IMTLG"},
                "mat": {"kind": "gauss", "m": 3, "n": 4, "seed": 1, "dtype": "float64", "scale": 1e50}, "t": 1e50})
    out.append({"kind": "deg0", "agg": {"name": "IMTLG"},
                "mat": {"kind": "gauss", "m": 3, "n": 4, "seed": 1, "dtype": "float64", "scale": 1e-90}, "t": 1e60})

    # ---- reject table: every configuration x every defect kind
    defects = ["dim0", "dim1", "dim3", "nan", "inf", "ninf", "rows"]
    for spec in AGGS:
        if spec["name"] == "ConFIG":
            continue  # not a weighted aggregator; the statement does not list it among the rejecting ones
        for d in defects:
            for dtype in (("float32", "float64") if tier == "thorough" else (rng.choice(["float32", "float64"]),)):
                reps = 3 if tier == "thorough" else 1
                for _ in range(reps):
                    m = rng.randint(max(2, _min_rows(spec)), 6)
                    out.append({"kind": "reject", "agg": spec, "defect": d, "m": m, "n": rng.randint(1, 5),
                                "dtype": dtype, "seed": rng.randrange(10**6)})

    # ---- total: finite / shape / dtype / pure / seed / history
    def total_case(spec, kind, m, n, dtype, logscale=None):
        m = max(m, _min_rows(spec))
        hist = []
        for _ in range(rng.randint(1, 3)):
            hk = rng.choice(KINDS)
            same_m = spec["name"] == "Constant" or spec.get("pref") or spec.get("leak")
            hm = m if (same_m or rng.random() < 0.5) else max(_min_rows(spec), rng.randint(1, 9))
            hist.append(_mat(rng, hk, hm, rng.randint(1, 11), rng.choice(["float32", "float64"])))
        return {"kind": "total", "agg": spec, "mat": _mat(rng, kind, m, n, dtype, logscale), "hist": hist,
                "bad_hist": rng.random() < 0.4, "seed": rng.randrange(10**6)}

    if tier == "thorough":
        for spec in AGGS:
            for (m, n) in [(1, 1), (1, 6), (5, 1), (3, 7), (4, 4), (6, 3), (9, 11)]:
                for dtype in ("float32", "float64"):
                    for end in RANGE[dtype]:
                        out.append(total_case(spec, rng.choice(["gauss", "duprows", "antiparallel"]), m, n, dtype, end))
    n_total = 700 if tier == "quick" else 20000
    for i in range(n_total):
        spec = AGGS[i % len(AGGS)]
        if spec["name"] in SLOW and tier == "quick" and i % 3:
            spec = rng.choice([a for a in AGGS if a["name"] not in SLOW])
        m, n = rng.choice(SHAPES) if rng.random() < 0.6 else (rng.randint(1, 9), rng.randint(1, 11))
        out.append(total_case(spec, rng.choice(KINDS), m, n, rng.choice(["float32", "float64"])))

    # ---- deg0: homogeneity
    n_deg = 800 if tier == "quick" else 30000
    PINV = ("IMTLG", "AlignedMTL", "ConFIG")
    for i in range(n_deg):
        spec = AGGS[i % len(AGGS)]
        if spec["name"] in SLOW and tier == "quick" and i % 3:
            spec = rng.choice([a for a in AGGS if a["name"] not in SLOW])
        name = spec["name"]
        dtype = rng.choice(["float32", "float64"])
        m, n = rng.choice(SHAPES) if rng.random() < 0.5 else (rng.randint(1, 9), rng.randint(1, 11))
        m = max(m, _min_rows(spec))
        kind = rng.choice(KINDS)
        lo, hi = RANGE[dtype]
        exact_only = False
        if name in PINV:
            if rng.random() < 0.7:  # numerically unambiguous rank: general t allowed
                kind = rng.choice(["wellcond", "gauss", "nonconflict"])
                m, n = min(m, n), max(m, n)
            else:  # any rank: only exact (power of two) scalings inside the window where LAPACK does not rescale
                exact_only = True
                dtype, lo, hi = "float64", -38.0, 38.0
        if name in ("UPGrad", "DualProj", "CAGrad"):
            lo = math.log10(spec.get("norm_eps", 1e-4)) + 0.3  # side condition s >= norm_eps on both sides
        if kind == "stationary" and m == 1:
            kind = "gauss"  # the projection leaves rounding noise only
        ls = rng.choice([lo, hi, rng.uniform(lo, hi), rng.uniform(lo, hi)])
        mat = _mat(rng, kind, m, n, dtype, ls)
        dec = mat.get("decades", 0) / 2
        ls = min(max(ls, lo + dec), hi - dec)
        mat["scale"] = 10.0 ** ls
        lt = rng.uniform(lo + dec - ls, hi - dec - ls)  # tJ stays in the stated range
        if name in ("UPGrad", "DualProj", "CAGrad") and rng.random() < 0.35:
            # put s(tJ) shortly above norm_eps (catches a raised / mis-plumbed normalisation threshold)
            ne = spec.get("norm_eps", 1e-4)
            mat["scale"] = 1.0
            mat["kind"] = rng.choice(["antiparallel", "gauss", "stationary"]) if m > 1 else "gauss"
            lt = math.log10(ne) + rng.uniform(0.5, 1.7)
        if exact_only or rng.random() < 0.4:
            t = {"pow2": int(round(lt / math.log10(2.0)))}
        else:
            t = 10.0 ** lt
        out.append({"kind": "deg0", "agg": spec, "mat": mat, "t": t, "seed": rng.randrange(10**6)})
    return out


# ------------------------------------------------------------------------------------------------ helpers


def _bits(t: torch.Tensor) -> torch.Tensor:
    return t.contiguous().view(torch.int64 if t.dtype == torch.float64 else torch.int32)


def _same_bits(a, b) -> bool:
    return a.shape == b.shape and a.dtype == b.dtype and bool(torch.equal(_bits(a), _bits(b)))


def _sig(case):
    c = {k: v for k, v in case.items() if k not in ("hist", "bad_hist")}
    return repr(sorted(c.items(), key=lambda kv: kv[0]))


def _call(agg, J, seed):
    torch.manual_seed(seed)
    return agg(J)


# ------------------------------------------------------------------------------------------------ total


def _run_total(case):
    spec, sig = case["agg"], _sig(case)
    J = gen_matrix(case["mat"])
    m, n = J.shape
    nontrivial = bool((J != 0).any())
    agg = make_agg(spec, m, J.dtype)
    if agg is None:
        return {"ok": True, "sig": sig, "nontrivial": False, "note": "row requirement not met"}
    J0, ver = J.clone(), J._version
    seed = case["seed"]
    try:
        r1 = _call(agg, J, seed)
    except Exception as e:  # totality is the property
        return fail("C11.finite", f"{spec['name']} raised {type(e).__name__}: {str(e)[:120]} on a finite matrix",
                    sig, nontrivial, observed="exception", expected="finite vector", matrix=small(J))
    if tuple(r1.shape) != (n,):
        return fail("C11.shape", f"{spec['name']}: result shape", sig, nontrivial, list(r1.shape), [n])
    if r1.dtype != J.dtype:
        return fail("C11.dtype", f"{spec['name']}: result dtype", sig, nontrivial, str(r1.dtype), str(J.dtype))
    if not bool(r1.isfinite().all()):
        return fail("C11.finite", f"{spec['name']}: non-finite entries in the result", sig, nontrivial,
                    small(r1), "finite", matrix=small(J))
    if not _same_bits(J, J0) or J._version != ver:
        return fail("C11.pure", f"{spec['name']}: input modified (bits equal: {_same_bits(J, J0)}, _version "
                    f"{ver}->{J._version})", sig, nontrivial, small(J), small(J0))
    r2 = _call(agg, J, seed)
    if not _same_bits(r1, r2):
        return fail("C11.seed", f"{spec['name']}: two calls under torch.manual_seed({seed}) differ", sig,
                    nontrivial, small(r2), small(r1))
    # history: a used instance (other matrices, other seeds, rejected calls) against the fresh result r1
    used = make_agg(spec, m, J.dtype)
    hseed = seed + 1
    for h in case["hist"]:
        H = gen_matrix(h)
        hseed += 1
        try:
            _call(used, H, hseed)
        except (ValueError, RuntimeError):
            pass  # e.g. row-count contradiction for this instance: a rejected call is part of the history
        other = make_agg(spec, H.shape[0], H.dtype)  # another instance of the same class in between
        if other is not None:
            try:
                _call(other, H, hseed)
            except Exception:
                pass  # totality on H is judged by H's own case
    if case.get("bad_hist"):
        B = J.clone()
        B[0, 0] = float("nan")
        for bad in (B, J[0], J.unsqueeze(0)):
            try:
                _call(used, bad, hseed)
            except Exception:
                pass
    r3 = _call(used, J, seed)
    if not _same_bits(r1, r3):
        return fail("C11.history", f"{spec['name']}: used instance differs from fresh instance on the same "
                    "matrix and seed", sig, nontrivial, small(r3), small(r1))
    if not _same_bits(J, J0) or J._version != ver:
        return fail("C11.pure", f"{spec['name']}: input modified by later calls", sig, nontrivial, small(J), small(J0))
    return {"ok": True, "sig": sig, "nontrivial": nontrivial}


# ------------------------------------------------------------------------------------------------ reject


def _run_reject(case):
    spec, sig, d = case["agg"], _sig(case), case["defect"]
    m, n = case["m"], case["n"]
    dtype = torch.float64 if case["dtype"] == "float64" else torch.float32
    g = torch.Generator().manual_seed(case["seed"])
    agg = make_agg(spec, m, dtype)
    name = spec["name"]
    J = torch.randn(m, n, generator=g, dtype=torch.float64).to(dtype)
    if d == "dim0":
        bad = J[0, 0].clone()
    elif d == "dim1":
        bad = J[:, 0].clone()
    elif d == "dim3":
        bad = torch.stack([J, J])
    elif d in ("nan", "inf", "ninf"):
        bad = J.clone()
        i, j = int(torch.randint(m, (1,), generator=g)), int(torch.randint(n, (1,), generator=g))
        bad[i, j] = {"nan": float("nan"), "inf": float("inf"), "ninf": float("-inf")}[d]
    else:  # rows: a row count contradicting the configured vector / minimum
        if name == "Constant" or spec.get("pref") or spec.get("leak"):
            m2 = m + 1 if case["seed"] % 2 else m - 1
        elif name in ("Krum", "TrimmedMean"):
            m2 = _min_rows(spec) - 1
            if name == "Krum" and spec.get("k", 1) > spec.get("f", 0) + 3:
                m2 = spec["k"] - 1
        else:
            return {"ok": True, "sig": sig, "nontrivial": False, "note": "no row requirement"}
        if m2 < 1:
            return {"ok": True, "sig": sig, "nontrivial": False, "note": "no smaller matrix"}
        bad = torch.randn(m2, n, generator=g, dtype=torch.float64).to(dtype)
    bad0, ver = bad.clone(), bad._version
    torch.manual_seed(case["seed"])
    try:
        r = agg(bad)
    except ValueError:
        same = bad.shape == bad0.shape and bool(torch.equal(torch.nan_to_num(bad, 7.0, 8.0, 9.0),
                                                            torch.nan_to_num(bad0, 7.0, 8.0, 9.0)))
        if not same or bad._version != ver:
            return fail("C11.reject", f"{name}: rejected call modified its input ({d})", sig, True)
        return {"ok": True, "sig": sig, "nontrivial": True}
    except Exception as e:
        return fail("C11.reject", f"{name}: invalid input ({d}, shape {list(bad.shape)}) raised "
                    f"{type(e).__name__} instead of ValueError: {str(e)[:100]}", sig, True,
                    type(e).__name__, "ValueError")
    return fail("C11.reject", f"{name}: invalid input ({d}, shape {list(bad.shape)}) accepted", sig, True,
                small(r), "ValueError")


# ------------------------------------------------------------------------------------------------ deg0


def _deg0_tolerance(spec, agg, J, tJ, t, pow2, seed, r64=None, rt64=None):
    """Absolute tolerance on max|A(tJ) - t A(J)| derived from rounding/conditioning; None = outside the clause
    (side condition of the statement, or numerically ambiguous discrete decision).  See the comments.
    r64 / rt64: the observed A(J) and A(tJ) as float64 arrays (needed for MGDA's sub-optimality bound).
    Also used with t = 1 by C10 (tJ = a row permutation of J evaluated by the permuted aggregator): every bound
    below only depends on row norms, singular values, |w|_1 and the Gramian's conditioning, which are permutation
    invariant, and re-ordering the rows re-orders the floating-point sums like a perturbation of relative size eps."""
    name = spec["name"]
    e = eps_of(J)
    m, n = J.shape
    J64, tJ64 = to64(J), to64(tJ)
    s = sigma_max(J64)
    rows = np.linalg.norm(tJ64, axis=1)
    R = float(rows.max())  # largest row norm of tJ
    S = t * s
    if hasattr(agg, "weighting") and name != "ConFIG":
        torch.manual_seed(seed)
        w = to64(agg.weighting(J))
        w1 = float(np.abs(w).sum())
    else:
        w, w1 = None, float(m)
    # combine step w @ J and the rounding of tJ itself: (m+2) roundings per entry, |sum| <= |w|_1 R
    base = 8.0 * (m + 2) * e * w1 * R
    if name in ("Mean", "Sum", "Constant", "Random"):
        return base  # weights do not depend on J
    if name in ("TrimmedMean", "GradDrop"):
        # sort/masks are scale free (GradDrop: P is a ratio, U is seeded); sums of <= m entries of magnitude <= max|tJ|
        return 8.0 * (m + 2) * e * float(np.abs(tJ64).max()) * m
    if name == "PCGrad":
        # every projection shrinks the current vector, so each |cw_k g_k| <= |g_i|; each of the <= m^2 updates
        # carries the rounding of an n-term dot product relative to those magnitudes
        return 32.0 * m * m * (n + 2) * e * R
    if name == "Krum":
        f, k = spec.get("f", 0), spec.get("k", 1)
        sc = np.sort(krum_scores(J64, f))
        if k < m and (sc[k] - sc[k - 1]) <= 1e3 * e * max(sc[-1], 1e-300) * (m + n):
            return None  # (near-)tie of the scores: the statement excludes ties
        return base
    if name == "MGDA":
        if pow2:
            return 4 * base  # scale-free comparisons: identical Frank-Wolfe path
        # general t: rounding may flip an argmin between (nearly) equal entries of G a, after which the paths
        # differ; both outputs are points x of the hull, and |x - x*|^2 <= |x|^2 - |x*|^2 =: h
        mn2, _ = min_norm_enum(tJ64)
        x1 = rt64
        x2 = r64 * t
        slack = 16.0 * m * n * e * S * S
        h1 = max(0.0, float(x1 @ x1) - mn2) + slack
        h2 = max(0.0, float(x2 @ x2) - mn2) + slack
        return math.sqrt(h1) + math.sqrt(h2) + base
    if name in ("UPGrad", "DualProj", "CAGrad"):
        ne = spec.get("norm_eps", 1e-4)
        if not (s >= ne * (1 + 1e-3) and S >= ne * (1 + 1e-3)):
            return None  # side condition of the statement (below norm_eps they average by design)
    if name in ("UPGrad", "DualProj"):
        # G and G' = G + dG, |dG| <= c max(m,n) eps (SVD + reconstruction of a matrix of norm 1, float64<->dtype
        # round trip).  Variational inequalities of the two minimisers give
        #   |J^T(w - w')|^2 / s^2 <= dw^T G dw <= |dG| |w'| |dw|  and  reg |dw|^2 <= dw^T G dw,
        # hence |J^T dw| <= s |dG| |w'| / sqrt(reg).  UPGrad: sum over the m projections, sum_i |w_i|_2 <= |w|_1
        # because every w_i >= u_i e_i >= 0.
        reg = spec.get("reg_eps", 1e-4)
        dG = 32.0 * max(m, n) * e
        return base + S * dG * w1 / math.sqrt(reg)
    if name == "CAGrad":
        # x = J^T 1/m + lam J^T w_opt with lam = sqrt_phi / gamma, gamma = |R^T w_opt| (normalised units), so
        # lam = sum(weights) - 1 is observable.  The second term has norm sqrt_phi S and direction d/gamma,
        # d = R^T w_opt; a perturbation dd of d turns the direction by <= 2|dd|/gamma.  dd comes from the rounding
        # of the normalised Gramian (|R^T w|^2 moves by |dG|, i.e. |R^T w| by up to sqrt|dG| where it is small) and
        # from the interior-point solver (gap/feasibility tolerance 1e-8 => sqrt(1e-8) on the minimiser; assumed,
        # CLARABEL's accuracy is a trusted primitive).  Where gamma is of the order of these the output is
        # numerically undetermined (min(2, .)), as is the branch gamma >= norm_eps.
        c = spec.get("c", 0.5)
        g0n = float(np.linalg.norm(J64.mean(axis=0))) / s
        sqrt_phi = c * g0n
        torch.manual_seed(seed)
        w_t = to64(agg.weighting(tJ))
        lam = max(float(w.sum()) - 1.0, float(w_t.sum()) - 1.0)
        dd = math.sqrt(32.0 * max(m, n) * e) + 1e-4
        zero_a, zero_b = not w.any(), not w_t.any()
        if zero_a != zero_b:
            gamma = sqrt_phi / lam if lam > 0 else 0.0
            if gamma <= 4.0 * (spec.get("norm_eps", 1e-4) + dd):
                return None  # rounding decides the branch gamma >= norm_eps
            return base
        if lam <= 0.0 or g0n == 0.0:
            return base + 8.0 * e * S  # both in the zero branch (or c = 0 / g0 = 0): plain mean or zero
        # sqrt_phi itself is computed from 1^T G 1 / m^2 = |g0|^2/s^2 (a cancellation when the rows nearly cancel):
        # an error dG on it moves sqrt_phi by c min(sqrt(dG), dG / |g0n|)
        dG = 32.0 * max(m, n) * e
        dphi = c * min(math.sqrt(dG), dG / g0n if g0n > 0 else np.inf)
        gamma = max(sqrt_phi - dphi, 0.0) / lam
        if gamma <= 2.0 * dd:
            # |R^T w_opt| is of the order of the perturbations of the normalised Gramian / of the solver tolerance: direction AND
            # length (lam = sqrt_phi / gamma) of the correction are numerically undetermined in this dtype (nearly cancelling
            # rows, weights in the thousands): outside the clause, like the ambiguous-rank cases of the pinv based aggregators
            return None
        turn = 2.0 if gamma <= 0 else min(2.0, 4.0 * dd / gamma)
        return base + S * ((sqrt_phi + dphi) * turn + dphi)
    if name in ("IMTLG", "AlignedMTL", "ConFIG"):
        if name == "ConFIG":
            norms = np.linalg.norm(J64, axis=1)
            nz = J64[norms > 0] / norms[norms > 0][:, None]
            kappa = cond_number(nz) if 0 < nz.shape[0] <= n else np.inf
        else:
            kappa = cond_number(J64) if m <= n else np.inf
        if not np.isfinite(kappa) or kappa > 1e3:
            # rank not numerically unambiguous: the pinv / eigh rank decisions are discontinuous there, so only
            # scalings that commute exactly with IEEE arithmetic are meaningful: t a power of two, no
            # under/overflow, and no rescaling inside LAPACK (xSTEQR/xBDSQR rescale every unreduced block whose norm
            # is below sqrt(safmin)/eps^2: 3e-123 in double, but 8e-6 in single, where the noise blocks of a
            # rank-deficient Gramian always are) => float64 only, Gramian within 1e-80..1e80
            lo_w, hi_w = 1e-40, 1e40
            a1, a2 = float(np.abs(J64).max()), float(np.abs(tJ64).max())
            if pow2 and J.dtype == torch.float64 and a1 > 0 and lo_w <= a1 <= hi_w and lo_w <= a2 <= hi_w:
                return 64.0 * base if name != "ConFIG" else 64.0 * 8.0 * (m + 2) * e * m * R
            return None
        if name == "ConFIG":
            # |A(J)| <= sum_i |g_i| <= m R; the direction pinv(units) w has relative condition <= cond(units)^2
            return 16.0 * max(m, n) * (kappa**2 + m) * e * m * R
        # relative perturbation of pinv(G) d resp. of G^(-1/2): cond(G) = cond(J)^2 times the rounding of G
        return base + 16.0 * max(m, n) * kappa**2 * e * max(w1, 1.0) * R
    raise KeyError(name)


def _run_deg0(case):
    spec, sig = case["agg"], _sig(case)
    J = gen_matrix(case["mat"])
    m, n = J.shape
    agg = make_agg(spec, m, J.dtype)
    if agg is None:
        return {"ok": True, "sig": sig, "nontrivial": False, "note": "row requirement not met"}
    pow2 = isinstance(case["t"], dict)
    t = 2.0 ** case["t"]["pow2"] if pow2 else float(case["t"])
    tJ = (J.double() * t).to(J.dtype)
    seed = case.get("seed", 0)
    lo, hi = RANGE[case["mat"]["dtype"]]
    amax = float(tJ.abs().max())
    amax0 = float(J.abs().max())
    inr = lambda a: a == 0 or 10.0 ** (lo - 2) <= a <= 10.0 ** (hi + 1)  # noqa: E731
    if not bool(tJ.isfinite().all()) or not inr(amax) or not inr(amax0):
        return {"ok": True, "sig": sig, "nontrivial": False, "note": "J or tJ outside the stated range"}
    if pow2 and not torch.equal(tJ.double(), J.double() * t):
        return {"ok": True, "sig": sig, "nontrivial": False, "note": "tJ not exact (subnormal)"}
    try:
        r = _call(agg, J, seed)
        rt = _call(make_agg(spec, m, J.dtype), tJ, seed)
    except Exception as e:
        return fail("C11.finite", f"{spec['name']} raised {type(e).__name__}: {str(e)[:120]}", sig, True,
                    observed="exception", expected="finite vector")
    tol = _deg0_tolerance(spec, agg, J, tJ, t, pow2, seed, to64(r), to64(rt))
    if tol is None:
        return {"ok": True, "sig": sig, "nontrivial": False, "note": "outside the clause"}
    diff = float((rt.double() - t * r.double()).abs().max())
    nontrivial = bool((J != 0).any()) and bool((r != 0).any())
    if not (diff <= tol):
        return fail("C11.deg0", f"{spec['name']}: A(tJ) != t A(J), t={t:g}: max abs diff {diff:.3e} > tol {tol:.3e}",
                    sig, nontrivial, small(rt), small(t * r.double()), diff=diff, tol=tol)
    return {"ok": True, "sig": sig, "nontrivial": nontrivial, "note": f"{diff / tol if tol > 0 else 0.0:.2e}"}


def run_case(case):
    if case["kind"] == "total":
        return _run_total(case)
    if case["kind"] == "reject":
        return _run_reject(case)
    return _run_deg0(case)
