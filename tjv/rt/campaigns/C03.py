"""C03 [B]: UPGrad / DualProj return the exact (regularised) dual-cone projection — bounded campaign.

Executable rendering of C03.dualproj.post / C03.upgrad.post / C03.rng.post / C03.qp.args / C03.pref.post on the real
aggregators.  The oracle never calls torchjd or quadprog: the spec Gramian RNG(J, norm_eps, reg_eps) is rebuilt in
float64 with numpy from the matrix and the *configured* eps values, and the QP minimiser is obtained by enumeration
of the 2^m active sets (`_agga.qp_enum`).

Clauses (failure keys):
  C03.kkt          s >= norm_eps: the returned weights violate primal feasibility / dual feasibility / complementary
                   slackness w.r.t. the spec Gramian (DualProj), or differ from the enumerated minimiser (sum of the
                   m minimisers for UPGrad), or the output differs from J^T w_spec; also: the call raised
  C03.pref         same mismatch, but the observation agrees with the spec for the *uniform* u: pref_vector ignored
  C03.nonconflict  no negative pairwise inner product and s >= norm_eps, but output != J^T u
  C03.small_sigma  s < norm_eps but output != J^T u

Tolerances.  The code's Gramian is G' = G + dG with |dG|_2 <= dG := 32 max(m,n) eps_dtype (SVD of J in its dtype,
reconstruction U diag((S/max S)^2) U^T of a matrix of norm 1, + reg I, Cholesky inside the solver).  For the minimisers
w, w' of v^T G v resp. v^T G' v over v >= u the two variational inequalities give
    dw^T G dw <= |dG| |w'| |dw|,   reg |dw|^2 <= dw^T G dw,   |J^T dw|^2 / s^2 <= dw^T G dw
so |dw| <= dG |w'| / reg and |J^T dw| <= s dG |w'| / sqrt(reg); for UPGrad these add up over the m projections.
On top: the cast of the weights to the dtype and the m-term combination (8 (m+2) eps |w|_1 max row norm).
"""
from __future__ import annotations

import math
import random

import numpy as np
import torch

from tjv.rt.aggs import gen_matrix, make_agg, pref_vector
from ._agga import eps_of, fail, kkt_residuals, qp_enum, sigma_max, small, spec_gramian, to64

RULE = ("(UPGrad | DualProj) x pref vector (none, distinct, with a zero entry, random >= 0) x (norm_eps, reg_eps) "
        "pairs with norm_eps != reg_eps x matrix family (gauss, lowrank of every rank, antiparallel, duprows, "
        "zerorow, zero, rowscales over 12 decades, stationary, nonconflict, ternary, wellcond) x scale (log-uniform "
        "1e-6..1e6 and a ladder s/norm_eps in {0.01..300}, 100*norm_eps and reg_eps straddled) x dtype; oracle = "
        "float64 spec Gramian + active-set enumeration.  distinct = (aggregator spec, matrix spec); non-trivial = "
        "m >= 2, s >= norm_eps and some pair of rows has a negative inner product (the projection is not J^T u), "
        "or a non-zero matrix in the consequence clauses nonconflict / small_sigma")
BOUNDS = ("m <= 6, n <= 8; reg_eps >= 1e-6 (float32), >= 1e-10 (float64); norm_eps in 1e-8..1e-1 (1e-30 in the extreme-scale "
          "float32 family: entries 1e19.5..1e30 and 1e-26..1e-20)")
EXHAUSTIVE = "thorough: all 3^4 + 3^6 ternary 2x2, 2x3 and 3x2 matrices for both aggregators with norm_eps != reg_eps"

EPS_PAIRS = [(1e-4, 1e-4), (1e-4, 1e-2), (1e-2, 1e-4), (1e-6, 1e-3), (1e-3, 1e-6), (1e-1, 1e-5), (1e-8, 1e-1)]
PREFS = [None, None, "distinct", "withzero", {"rand": 1}, {"rand": 2}]
KINDS = ["gauss", "gauss", "lowrank", "antiparallel", "antiparallel", "duprows", "zerorow", "zero", "rowscales",
         "stationary", "nonconflict", "ternary", "wellcond"]


def _case(rng, name=None, kind=None, m=None, n=None, dtype=None, eps=None, pref=-1, code=None, focus=None):
    name = name or rng.choice(["UPGrad", "DualProj"])
    dtype = dtype or rng.choice(["float64", "float64", "float32"])
    ne, re_ = eps or rng.choice(EPS_PAIRS[1:] if (focus or {}).get("norm_eps_ne_reg_eps") else EPS_PAIRS)
    if dtype == "float32":
        re_ = max(re_, 1e-6)
    m = m or rng.randint(1, 6)
    n = n or rng.randint(1, 8)
    kind = kind or rng.choice(KINDS)
    if kind == "wellcond" and m > n:
        kind = "gauss"
    mat = {"kind": kind, "m": m, "n": n, "seed": rng.randrange(10**6), "dtype": dtype}
    if kind == "lowrank":
        mat["rank"] = rng.randint(1, max(1, min(m, n)))
    if kind == "ternary":
        mat["code"] = rng.randrange(3 ** (m * n)) if code is None else code
    if kind == "rowscales":
        mat["decades"] = 12
    # scale: either log-uniform, or placed relative to norm_eps / 100 norm_eps / reg_eps (threshold plumbing)
    r = rng.random()
    if r < 0.45:
        mat["scale"] = 10.0 ** rng.uniform(-4, 6)
    elif r < 0.9:
        mat["rel_sigma"] = rng.choice([0.01, 0.5, 1.5, 3.0, 10.0, 30.0, 80.0, 300.0]) * ne  # target s
    else:
        mat["rel_sigma"] = rng.choice([0.3, 3.0]) * re_
    spec = {"name": name, "norm_eps": ne, "reg_eps": re_}
    p = rng.choice(PREFS) if pref == -1 else pref
    if p is not None:
        spec["pref"] = p
    return {"agg": spec, "mat": mat}


def cases(tier, seed, focus=None):
    rng = random.Random(3000 + seed)
    out = []
    n_rand = 900 if tier == "quick" else 30000
    for _ in range(n_rand):
        out.append(_case(rng, focus=focus))
    # targeted: conflicting matrices with a preference vector, scale between norm_eps and reg_eps
    for i in range(120 if tier == "quick" else 2000):
        out.append(_case(rng, kind=rng.choice(["antiparallel", "stationary", "gauss", "ternary"]),
                         m=rng.randint(2, 6), eps=rng.choice(EPS_PAIRS[1:]),
                         pref=rng.choice(["distinct", "withzero", {"rand": i}])))
    # extreme scales in float32: the SQUARES of the singular values leave the float32 range although the matrix, its
    # normalised Gramian and the result do not (s >= 1.9e19), or become subnormal (s <= 1e-19, norm_eps below s)
    rng_x = random.Random(30700 + seed)
    for i in range(60 if tier == "quick" else 1500):
        big = i % 2 == 0
        c = _case(rng_x, kind=rng_x.choice(["antiparallel", "stationary", "gauss", "gauss", "rowscales"]), m=rng_x.randint(2, 5),
                  dtype="float32", eps=(1e-4, 1e-4) if big else (1e-30, rng_x.choice([1e-4, 1e-2])),
                  pref=rng_x.choice([None, None, "distinct"]))
        c["mat"].pop("rel_sigma", None)
        c["mat"]["scale"] = 10.0 ** (rng_x.uniform(19.5, 30.0) if big else rng_x.uniform(-26.0, -20.0))
        if c["mat"]["kind"] == "rowscales":
            c["mat"]["decades"] = 6
        out.append(c)
    if tier == "thorough":
        for (m, n) in [(2, 2), (2, 3), (3, 2)]:
            for code in range(3 ** (m * n)):
                for name in ("UPGrad", "DualProj"):
                    c = _case(rng, name=name, kind="ternary", m=m, n=n, code=code, eps=(1e-4, 1e-2),
                              pref=rng.choice([None, "distinct"]), dtype="float64")
                    c["mat"].pop("rel_sigma", None)
                    c["mat"]["scale"] = rng.choice([1.0, 1e-3, 37.0])
                    out.append(c)
    return out


def _matrix(mat):
    """gen_matrix, optionally rescaled so that the largest singular value is mat['rel_sigma'] (exactly computed in
    float64 before the cast)."""
    if "rel_sigma" not in mat:
        return gen_matrix(mat)
    base = dict(mat)
    base["scale"] = 1.0
    base["dtype"] = "float64"
    J = gen_matrix(base)
    s = sigma_max(J.numpy())
    if s > 0:
        J = J * (mat["rel_sigma"] / s)
    return J.to(torch.float64 if mat["dtype"] == "float64" else torch.float32)


def _spec_weights(name, G, u):
    """w_spec, sum_i |w_i|_2 (the W of the tolerance), oracle's own KKT violation."""
    if name == "DualProj":
        w, viol = qp_enum(G, u)
        return w, float(np.linalg.norm(w)), viol
    m = len(u)
    tot, W, viol = np.zeros(m), 0.0, 0.0
    for i in range(m):
        ui = np.zeros(m)
        ui[i] = u[i]
        wi, vi = qp_enum(G, ui)
        tot += wi
        W += float(np.linalg.norm(wi))
        viol = max(viol, vi)
    return tot, W, viol


def run_case(case):
    spec, mat = case["agg"], case["mat"]
    name = spec["name"]
    sig = repr((sorted(spec.items(), key=str), sorted(mat.items(), key=str)))
    J = _matrix(mat)
    m, n = J.shape
    e = eps_of(J)
    ne, reg = spec["norm_eps"], spec["reg_eps"]
    J64 = to64(J)
    G, s = spec_gramian(J64, ne, reg)
    # the code compares the singular value computed in the dtype of J with norm_eps: exclude the ambiguous band
    if abs(s / ne - 1.0) <= 64.0 * max(m, n) * e:
        return {"ok": True, "sig": sig, "nontrivial": False, "note": "s within rounding of norm_eps"}
    agg = make_agg(spec, m, J.dtype)
    u_t = pref_vector(spec.get("pref"), m, J.dtype)
    u = to64(u_t) if u_t is not None else np.full(m, 1.0 / m)
    u_unif = np.full(m, 1.0 / m)
    conflict = bool(((J64 / s) @ (J64 / s).T < 0).any()) if s > 0 else False
    nonzero = bool((J64 != 0).any())
    try:
        x = to64(agg(J))
        w = to64(agg.weighting(J))
    except Exception as ex:
        return fail("C03.kkt", f"{name} raised {type(ex).__name__}: {str(ex)[:150]}", sig, nonzero,
                    observed="exception", expected="projection", matrix=small(J))
    if not (np.isfinite(x).all() and np.isfinite(w).all()):  # (NaN compares False with every tolerance below)
        return fail("C03.kkt", f"{name}: non-finite output/weights for a finite matrix (s={s:.3e}, norm_eps={ne:g}, reg_eps={reg:g})",
                    sig, nonzero, small(x), "finite projection", weights=small(w), matrix=small(J))
    R = float(np.linalg.norm(J64, axis=1).max()) if m else 0.0
    comb = lambda w1: 8.0 * (m + 2) * e * w1 * R  # noqa: E731  (cast of w and m-term dot products)
    xu = u @ J64

    if s < ne:
        # ---- C03.small_sigma: G = reg I exactly, w = u up to the solver's rounding
        tol = comb(float(np.abs(u).sum())) + 64.0 * np.finfo(np.float64).eps * float(np.abs(u).sum()) * R
        d = float(np.abs(x - xu).max()) if n else 0.0
        if d > tol:
            return fail("C03.small_sigma", f"{name}: s={s:.3e} < norm_eps={ne:g} but output != J^T u "
                        f"(max diff {d:.3e} > tol {tol:.3e})", sig, nonzero, small(x), small(xu), weights=small(w))
        return {"ok": True, "sig": sig, "nontrivial": nonzero and m >= 2, "note": "small_sigma"}

    w_spec, W, viol = _spec_weights(name, G, u)
    if viol > 1e-7:
        raise RuntimeError(f"oracle: enumeration did not find a KKT point (violation {viol:.2e})")
    dG = 32.0 * max(m, n) * e
    tol_w = dG * W / reg + 4.0 * e * float(np.abs(w_spec).max())
    tol_x = s * dG * W / math.sqrt(reg) + comb(float(np.abs(w_spec).sum()))
    x_spec = w_spec @ J64
    dw = float(np.abs(w - w_spec).max())
    dx = float(np.abs(x - x_spec).max()) if n else 0.0
    nontrivial = m >= 2 and conflict

    def diagnose():
        notes = []
        for label, (a, b) in (("norm_eps and reg_eps swapped", (reg, ne)), ("norm_eps raised 100x", (100 * ne, reg))):
            G2, _ = spec_gramian(J64, a, b)
            w2, _, _ = _spec_weights(name, G2, u)
            if float(np.abs(x - w2 @ J64).max()) <= tol_x:
                notes.append(label)
        other = "UPGrad" if name == "DualProj" else "DualProj"
        w3, _, _ = _spec_weights(other, G, u)
        if float(np.abs(x - w3 @ J64).max()) <= tol_x:
            notes.append(f"agrees with {other}'s definition")
        if float(np.abs(x).max()) <= tol_x:
            notes.append("output is zero (constraint sign?)")
        return ("; consistent with: " + ", ".join(notes)) if notes else ""

    if dx > tol_x or dw > tol_w:
        key = "C03.kkt"
        what = (f"{name}: output/weights differ from the spec minimiser (s={s:.3e}, norm_eps={ne:g}, reg_eps={reg:g}):"
                f" |dx|={dx:.3e} (tol {tol_x:.3e}), |dw|={dw:.3e} (tol {tol_w:.3e})")
        if spec.get("pref") is not None:
            wu, _, _ = _spec_weights(name, G, u_unif)
            if float(np.abs(x - wu @ J64).max()) <= tol_x and float(np.abs(x_spec - wu @ J64).max()) > 2 * tol_x:
                key, what = "C03.pref", what + "; agrees with the spec for the uniform u: pref_vector ignored"
        if not conflict and key == "C03.kkt":
            key = "C03.nonconflict"
        return fail(key, what + diagnose(), sig, nontrivial or nonzero, small(x), small(x_spec),
                    weights=small(w), spec_weights=small(w_spec))

    if name == "DualProj":
        # ---- KKT of the observed weights themselves w.r.t. the spec Gramian (absolute forms of the residuals)
        Gw = G @ w
        wn = float(np.linalg.norm(w))
        # active constraints hold to the accuracy of the solver's triangular solves: eps64 cond(G), cond <= (1+reg)/reg
        t_primal = (4.0 * e * max(float(np.abs(w).max()), float(np.abs(u).max()))
                    + 64.0 * np.finfo(np.float64).eps * wn / reg)
        # (the same solver accuracy reaches G w through |G|: without it the bound is only the rounding of the product and was
        # exceeded by 5% on one thorough-tier case, seed 1)
        t_dual = (dG * wn + 4.0 * e * float((np.abs(G) @ np.abs(w)).max())
                  + 64.0 * np.finfo(np.float64).eps * float(np.abs(G).max()) * wn / reg)
        t_compl = float(np.abs(w - u).max()) * t_dual + t_primal * float(np.abs(Gw).max())
        res = {"primal": float(np.max(u - w)), "dual": float(np.max(-Gw)), "compl": float(np.abs((w - u) * Gw).max())}
        for k, t in (("primal", t_primal), ("dual", t_dual), ("compl", t_compl)):
            if res[k] > t:
                return fail("C03.kkt", f"DualProj: KKT residual '{k}' = {res[k]:.3e} > tol {t:.3e} w.r.t. the spec "
                            f"Gramian J J^T/s^2 + {reg:g} I", sig, nontrivial, res, "0", weights=small(w),
                            scaled=kkt_residuals(G, u, w))
    if not conflict:
        # ---- C03.nonconflict: w_spec = u (Lean: qpmin_nonconflict).  With a margin on the inner products the code's
        # Gramian has no negative entry either, and the solver returns u up to its own rounding (cond(G) <= (1+reg)/reg)
        off = ((J64 / s) @ (J64 / s).T)[~np.eye(m, dtype=bool)] if m >= 2 else np.array([1.0])
        u1 = float(np.abs(u).sum())
        if off.min() > 4.0 * dG:
            tol = comb(u1) + 256.0 * np.finfo(np.float64).eps / reg * u1 * R
        else:
            tol = tol_x
        d = float(np.abs(x - xu).max()) if n else 0.0
        if d > tol:
            return fail("C03.nonconflict", f"{name}: no negative inner product, s >= norm_eps, but output != J^T u "
                        f"(max diff {d:.3e} > tol {tol:.3e})", sig, nonzero, small(x), small(xu), weights=small(w))
        return {"ok": True, "sig": sig, "nontrivial": nonzero and m >= 2, "note": "nonconflict"}
    return {"ok": True, "sig": sig, "nontrivial": nontrivial,
            "note": f"{max(dx / tol_x if tol_x else 0, dw / tol_w if tol_w else 0):.2e}"}
