"""C10 [B/E]: the order of the objectives does not matter — bounded / exhaustive-permutation campaign.

Executable rendering of C10.nf2.<W>: for the row permutation P, A_P(P J) == A(J) where A_P is the aggregator whose
preference / weight / leak vector has been permuted together with the rows (`aggs.permute_spec_vectors`).

Failure keys: C10.<Aggregator>   (C10.UPGrad, C10.DualProj, C10.MGDA, C10.Mean, C10.Sum, C10.Constant, C10.AlignedMTL,
C10.IMTLG, C10.ConFIG, C10.CAGrad, C10.TrimmedMean, C10.Krum, C10.GradDrop).  A call that raises on the permuted matrix
while it succeeded on the original one is a failure of the same key.

Exclusions taken from the statement: exact score ties (Krum scores, detected with an independent float64 replica;
GradDrop's comparisons f(P) > U within rounding of equality, detected from a float64 replica of P and the seeded U) and
numerically ambiguous rank for the pinv / eigh / conic based IMTLG, ConFIG, AlignedMTL (cond(J) > 1e3 or m > n: marked
trivial).  Tolerances: re-ordering the rows re-orders every floating-point sum, i.e. acts like a relative perturbation
of size eps of the data; the bound per aggregator is the one derived for C11.deg0 with t = 1 (`C11._deg0_tolerance`):
rounding of the combination for the constant weightings, sort/mask based ones; conditioning cond(J)^2 eps for the
pinv-based; s |dG| |w|_1 / sqrt(reg_eps) for the QP-based; for MGDA sqrt(h(J)) + sqrt(h(PJ)) with h the measured
sub-optimality |x|^2 - min-norm^2 (an argmin between nearly equal entries may be decided differently after rounding,
after which the two Frank-Wolfe paths differ; both end points lie within sqrt(h) of the min-norm point).
"""
from __future__ import annotations

import itertools
import random

import numpy as np
import torch

from tjv.rt.aggs import gen_matrix, make_agg, permute_spec_vectors
from ._agga import eps_of, fail, small, to64
from .C11 import _deg0_tolerance, _min_rows

RULE = ("aggregator configuration (13 aggregators, 21 configurations incl. preference / weight / leak vectors and "
        "non-default eps) x matrix family x shape x dtype x scale x row permutation (with the configured vector "
        "permuted alike); each case checks a set of permutations of one matrix against the unpermuted result. "
        "distinct = (aggregator spec, matrix spec, permutation set); non-trivial = m >= 2, the rows are not all "
        "equal, at least one non-identity permutation was compared, and the case is inside the clause (no score tie, "
        "unambiguous rank where the statement asks for it)")
BOUNDS = "m <= 7, n <= 9; all m! permutations for m <= 5 (thorough; m <= 3 quick), 8 random ones beyond"
EXHAUSTIVE = "thorough: for every configuration, matrices with m = 2..5 rows are checked under all m! permutations"

AGGS = [
    {"name": "UPGrad"},
    {"name": "UPGrad", "pref": "distinct", "norm_eps": 1e-4, "reg_eps": 1e-2},
    {"name": "DualProj"},
    {"name": "DualProj", "pref": {"rand": 3}, "norm_eps": 1e-6, "reg_eps": 1e-3},
    {"name": "MGDA"},
    {"name": "MGDA", "epsilon": 0.0, "max_iters": 300},
    {"name": "Mean"},
    {"name": "Sum"},
    {"name": "Constant", "kind": "distinct"},
    {"name": "Constant", "kind": "signed", "wseed": 4},
    {"name": "AlignedMTL"},
    {"name": "AlignedMTL", "pref": "distinct"},
    {"name": "IMTLG"},
    {"name": "ConFIG"},
    {"name": "ConFIG", "pref": "distinct"},
    {"name": "CAGrad", "c": 0.5},
    {"name": "TrimmedMean", "b": 1},
    {"name": "TrimmedMean", "b": 0},
    {"name": "Krum", "f": 0, "k": 1},
    {"name": "Krum", "f": 1, "k": 2},
    {"name": "GradDrop"},
    {"name": "GradDrop", "leak": "rand", "wseed": 6},
]
PINV = ("IMTLG", "AlignedMTL", "ConFIG", "CAGrad")
KINDS = ["gauss", "gauss", "lowrank", "antiparallel", "duprows", "zerorow", "rowscales", "stationary", "nonconflict",
         "ternary", "wellcond"]


def _case(rng, spec, m, n, perms, dtype=None):
    name = spec["name"]
    m = max(m, _min_rows(spec))
    dtype = dtype or rng.choice(["float64", "float64", "float32"])
    kind = rng.choice(KINDS)
    if name in PINV:
        kind = rng.choice(["wellcond", "gauss", "nonconflict", "wellcond"])
        m, n = min(m, n), max(m, n)
        m = max(m, _min_rows(spec))
    if name == "ConFIG" and rng.random() < 0.35:
        # an exactly null row (its unit vector is 0 by definition) among otherwise independent rows: the rows after it must
        # keep THEIR OWN preference weights under every joint permutation
        m = max(3, min(m, n + 1))
        kind = "zerorow"
    if kind == "wellcond" and m > n:
        kind = "gauss"
    if name == "Krum" and rng.random() < 0.55:
        # more than 25 rows whose norms dwarf their mutual distances: distance computations that go through
        # |x|^2 + |y|^2 - 2<x,y> (torch.cdist's default beyond 25 rows) lose the distances, the scores tie artificially and
        # the selection depends on the row order
        m, n, kind = rng.choice([26, 27, 30]), rng.choice([5, 7, 8]), "offset"
        perms = 6
    mat = {"kind": kind, "m": m, "n": n, "seed": rng.randrange(10**6), "dtype": dtype,
           "scale": 10.0 ** rng.choice([0.0, 0.0, rng.uniform(-3, 3), rng.uniform(-3, 6)])}
    if name in ("UPGrad", "DualProj", "CAGrad"):
        mat["scale"] = max(mat["scale"], 30.0 * spec.get("norm_eps", 1e-4))
    if kind == "lowrank":
        mat["rank"] = rng.randint(1, max(1, min(m, n) - 1))
    if kind == "ternary":
        mat["code"] = rng.randrange(3 ** (m * n))
    if kind == "rowscales":
        mat["decades"] = rng.choice([2, 6, 12])
    if kind == "wellcond":
        mat["cond"] = rng.choice([2.0, 10.0, 100.0])
    if kind == "offset":
        mat["ratio"] = 1e4 if dtype == "float32" else 1e8
        mat["scale"] = 1.0
        # (equal spreads: the scores are close to one another, which is where noisy distances change the selection)
    if perms != "all":
        perms = [rng.sample(range(m), m) for _ in range(perms)]
    return {"agg": spec, "mat": mat, "perms": perms, "seed": rng.randrange(10**6)}


def cases(tier, seed, focus=None):
    rng = random.Random(10000 + seed)
    out = []
    if tier == "quick":
        for i in range(330):
            spec = AGGS[i % len(AGGS)]
            if spec["name"] == "CAGrad" and rng.random() < 0.4:
                spec = rng.choice([a for a in AGGS if a["name"] != "CAGrad"])
            m = rng.randint(2, 7)
            out.append(_case(rng, spec, m, rng.randint(1, 9), "all" if m <= 3 else (3 if spec["name"] == "CAGrad" else 6)))
    else:
        for spec in AGGS:
            slow = spec["name"] == "CAGrad"
            for m in (2, 3, 4, 5):
                for _ in range(3 if slow else (12 if m == 5 else 20)):
                    out.append(_case(rng, spec, m, rng.randint(1, 9), "all"))
            for _ in range(20 if slow else 120):
                out.append(_case(rng, spec, rng.randint(6, 7), rng.randint(1, 9), 8))
    # directed: Krum on more than 25 rows sharing a large common component (see _case)
    rk = random.Random(10010000 + seed)
    kr = [a for a in AGGS if a["name"] == "Krum"]
    for j in range(10 if tier == "quick" else 60):
        c = _case(rk, kr[j % len(kr)], 26, 8, 6, dtype="float32")
        if c["mat"]["kind"] != "offset":
            c["mat"].update(kind="offset", m=rk.choice([26, 27, 30]), n=rk.choice([5, 7, 8]), ratio=1e4, scale=1.0)
            c["perms"] = [rk.sample(range(c["mat"]["m"]), c["mat"]["m"]) for _ in range(6)]
        out.append(c)
    # directed: TrimmedMean with huge, partly cancelling outlier rows (exactly what it is meant to trim): the result may not depend
    # on where they sit
    rt = random.Random(10020000 + seed)
    for j in range(10 if tier == "quick" else 80):
        b = rt.choice([1, 1, 2])
        m = rt.randint(2 * b + 1, 2 * b + 4)
        dtype = rt.choice(["float32", "float64"])
        out.append({"agg": {"name": "TrimmedMean", "b": b},
                    "mat": {"kind": "outliers", "m": m, "n": rt.randint(1, 5), "seed": rt.randrange(10**6), "dtype": dtype, "b": b,
                            "big": 10.0 ** rt.uniform(17, 30) if dtype == "float32" else 10.0 ** rt.uniform(20, 200), "scale": 1.0},
                    "perms": "all" if m <= 5 else [rt.sample(range(m), m) for _ in range(24)], "seed": rt.randrange(10**6)})
    # the same on TALL matrices (generation 7: a sum-minus-extremes 'fast path' taken only above a row-count threshold makes
    # the result depend on the order in which the rows, outliers included, are summed); outliers here are 1e4..1e9 x the rest
    rt2 = random.Random(10030000 + seed)
    for j in range(8 if tier == "quick" else 80):
        b = rt2.choice([1, 1, 2])
        m = rt2.choice([18, 20, 33, 40])
        dtype = "float32" if j % 2 else "float64"
        out.append({"agg": {"name": "TrimmedMean", "b": b},
                    "mat": {"kind": "outliers", "m": m, "n": rt2.randint(1, 5), "seed": rt2.randrange(10**6), "dtype": dtype, "b": b,
                            "big": 10.0 ** rt2.uniform(4, 9) if dtype == "float32" else 10.0 ** rt2.uniform(8, 14), "scale": 1.0},
                    "perms": [rt2.sample(range(m), m) for _ in range(24)], "seed": rt2.randrange(10**6)})
    return out


def _graddrop_margin(spec, J, seed):
    """min |f(P) - U| over the columns that matter, from a float64 replica of P and the seeded U (first draw)."""
    J64 = to64(J)
    den = np.abs(J64).sum(axis=0)
    with np.errstate(invalid="ignore", divide="ignore"):
        P = 0.5 * (1.0 + J64.sum(axis=0) / den)
    torch.manual_seed(seed)
    U = to64(torch.rand(J.shape[1], dtype=J.dtype))
    ok = den > 0
    return float(np.abs(P[ok] - U[ok]).min()) if ok.any() else 1.0


def run_case(case):
    spec, mat = case["agg"], case["mat"]
    name = spec["name"]
    key = f"C10.{name}"
    sig = repr((sorted(spec.items(), key=str), sorted(mat.items(), key=str), case["perms"]))
    J = gen_matrix(mat)
    m, n = J.shape
    agg = make_agg(spec, m, J.dtype)
    if agg is None:
        return {"ok": True, "sig": sig, "nontrivial": False, "note": "row requirement not met"}
    seed = case["seed"]
    perms = case["perms"]
    if perms == "all":
        perms = [list(p) for p in itertools.permutations(range(m))]
    torch.manual_seed(seed)
    r = agg(J)  # an exception here is C11's business (totality): let it crash the checker
    r64 = to64(r)
    e = eps_of(J)
    if name == "GradDrop" and _graddrop_margin(spec, J, seed) <= 64.0 * (m + 2) * e:
        return {"ok": True, "sig": sig, "nontrivial": False, "note": "GradDrop comparison within rounding of a tie"}
    rows_differ = m >= 2 and bool((J != J[0]).any())
    compared, worst = 0, 0.0
    for perm in perms:
        if perm == list(range(m)):
            continue
        idx = torch.tensor(perm)
        PJ = J[idx].clone()
        aggP = permute_spec_vectors(spec, perm, m, J.dtype)
        try:
            torch.manual_seed(seed)
            rp = aggP(PJ)
        except Exception as ex:
            return fail(key, f"{name}: raised {type(ex).__name__} on the permuted matrix (perm {perm}): {str(ex)[:100]}",
                        sig, rows_differ, "exception", small(r), perm=perm)
        rp64 = to64(rp)
        tol = _deg0_tolerance(spec, agg, J, PJ, 1.0, False, seed, r64, rp64)
        if name == "TrimmedMean" and mat.get("kind") == "outliers":
            # the outliers are trimmed: what is averaged are the kept entries, whose magnitude (not the outliers') bounds the rounding
            tol = 64.0 * m * e * (float(np.abs(r64).max(initial=0.0)) + float(np.abs(rp64[np.isfinite(rp64)]).max(initial=0.0)) + 1.0)
        if tol is None:
            return {"ok": True, "sig": sig, "nontrivial": False, "note": "outside the clause (tie / ambiguous rank)"}
        d = float(np.abs(rp64 - r64).max()) if n else 0.0
        compared += 1
        if name == "Krum":
            # Krum's weights are a selection: away from score ties the SAME rows must be selected wherever they sit in J (a
            # comparison of values is blind to which of several nearby rows was averaged when the rows are large)
            w0, wp = to64(agg.weighting(J)), to64(aggP.weighting(PJ))
            if float(np.abs(wp - w0[np.asarray(perm)]).max()) > 1e-6:
                return fail(key, f"Krum: the rows selected for P J are not the rows selected for J (row permutation {perm})", sig,
                            rows_differ, small(wp), small(w0[np.asarray(perm)]), perm=perm)
        if not d <= tol:
            return fail(key, f"{name}: A_P(PJ) != A(J) for the row permutation {perm}: max abs diff {d:.3e} > tol "
                        f"{tol:.3e}", sig, rows_differ, small(rp), small(r), perm=perm, matrix=small(J, 40))
        worst = max(worst, d / tol if tol > 0 else 0.0)
    return {"ok": True, "sig": sig, "nontrivial": rows_differ and compared > 0, "note": f"{worst:.2e}"}
