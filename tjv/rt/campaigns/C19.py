"""C19 [E]/[B]: NashMTL's state — reset() means fresh, weights are reused as scheduled, max_norm bounds the output.

A case is one history: a word over {A, B, C, R} (three well-conditioned matrices with m rows, R = reset()) fed to ONE
NashMTL(n_tasks=m, update_weights_every=k, max_norm) instance.  Every prefix of the word is checked on the way, so
enumerating all words of length 5 covers all histories up to length 5.

Finding keys:
  C19.reset     after reset(), the outputs on the following calls equal (1e-9, in practice bitwise) those of a newly
                constructed NashMTL with the same parameters fed the same matrices.
  C19.reuse     a call that re-uses the stored weights (call index since construction/reset not a multiple of k) raised
                (regression of the fixed ``ndarray @ Tensor`` TypeError) or did not return the stored weights.
  C19.schedule  a recompute call raised; or the weights are not recomputed exactly on calls 0, k, 2k, ... (observed by
                wrapping ``_solve_optimization`` of the instance's weighting); or a recomputation did not use the
                normalised Gramian of the CURRENT matrix; or the returned weights are not the (rescaled) result of it.
  C19.maxnorm   max_norm > 0 and |output| > max_norm (1 + 1e-6).
"""
from __future__ import annotations

import itertools
import random

import numpy as np
import torch

from tjv.rt.aggs import gen_matrix
from ._aggb import fail, np64, ok

RULE = ("alphabet: three 'wellcond' matrices (m x n, m <= n <= m+3, condition number <= 100, scales 0.1/1/10, float64 "
        "or float32) + reset; parameters k = update_weights_every in 1..4, max_norm in {1, 0.3, 10, 0 (disabled)}. "
        "distinct = (word, m, k, max_norm, alphabet seed, dtype). non-trivial: >= 2 calls and (a reset that follows a "
        "call and precedes a call, or a re-use call when k > 1)")
BOUNDS = "m in 2..5 rows, histories of length <= 5 (exhaustive) and 6..10 (random, thorough), k in 1..4"
EXHAUSTIVE = ("thorough: all 4^5 = 1024 words of length 5 (hence every history up to length 5) for every (m, k) in "
              "{2,3,4,5} x {1,2,3,4}")

MAX_NORMS = [1.0, 0.3, 10.0, 0.0]
_FRESH = {}


def _alphabet(case):
    m = case["m"]
    mats = {}
    for q, letter in enumerate("ABC"):
        mats[letter] = gen_matrix({"kind": "wellcond", "m": m, "n": m + (case["mseed"] + q) % 4, "seed": case["mseed"] * 7 + q,
                                   "cond": [10.0, 100.0, 3.0][q], "scale": [1.0, 10.0, 0.1][(q + case["mseed"]) % 3],
                                   "dtype": case.get("dtype", "float64")})
    return mats


class Instrumented:
    def __init__(self, m, k, max_norm):
        from torchjd.aggregation import NashMTL

        self.agg = NashMTL(n_tasks=m, max_norm=max_norm, update_weights_every=k)
        self.solves = []  # (gtg passed, alpha returned)
        self.weights = []
        w = self.agg.weighting
        orig = w._solve_optimization

        def wrapped(gtg):
            alpha = orig(gtg)
            self.solves.append((np.array(gtg, dtype=np.float64), np.array(alpha, dtype=np.float64)))
            return alpha

        w._solve_optimization = wrapped
        w.register_forward_hook(lambda mod, inp, out: self.weights.append(out.detach().clone()))

    def call(self, J):
        try:
            return self.agg(J), None
        except Exception as e:  # "every call succeeds" is part of the property
            return None, f"{type(e).__name__}: {str(e)[:100]}"


def fresh_outputs(case, word):
    """Outputs of a newly constructed instance on the matrices of ``word`` (no resets inside); cached per process."""
    key = (case["m"], case["k"], case["max_norm"], case["mseed"], case.get("dtype", "float64"), word)
    if key not in _FRESH:
        mats = _alphabet(case)
        inst = Instrumented(case["m"], case["k"], case["max_norm"])
        outs = []
        for ch in word:
            o, err = inst.call(mats[ch])
            outs.append(None if err else o.detach().clone())
        _FRESH[key] = outs
    return _FRESH[key]


def run_case(case):
    m, k, max_norm, word = case["m"], case["k"], case["max_norm"], case["word"]
    sig = "|".join(f"{x}={case[x]}" for x in sorted(case))
    mats = _alphabet(case)
    f32 = case.get("dtype", "float64") == "float32"
    rtol_w = 2e-5 if f32 else 1e-9
    inst = Instrumented(m, k, max_norm)
    n_calls = sum(ch != "R" for ch in word)
    segs = word.split("R")
    has_mid_reset = any(len(segs[i]) > 0 and any(len(s) > 0 for s in segs[:i]) for i in range(1, len(segs)))
    has_reuse = k > 1 and any(len(s) >= 2 for s in segs)
    nontrivial = n_calls >= 2 and (has_mid_reset or has_reuse)
    idx = 0  # call index since construction / last reset
    seg_no, seg_word, seg_outs = 0, "", []
    solves_at_seg_start = 0

    def check_segment():
        if seg_no == 0 or not seg_word:
            return None
        ref = fresh_outputs(case, seg_word)
        for j, (a, b) in enumerate(zip(seg_outs, ref)):
            if b is None:
                continue  # the fresh instance failed there: reported by the history that has it as first segment
            if a.shape != b.shape or not torch.allclose(a, b, rtol=1e-9, atol=1e-12):
                return fail(sig, nontrivial, "C19.reset", f"call {j} after reset() (segment '{seg_word}') differs from a "
                            "newly constructed NashMTL fed the same matrices", a, b)
        return None

    for pos, ch in enumerate(word):
        if ch == "R":
            f = check_segment()
            if f:
                return f
            inst.agg.reset()
            idx, seg_no, seg_word, seg_outs = 0, seg_no + 1, "", []
            solves_at_seg_start = len(inst.solves)
            continue
        J = mats[ch]
        recompute = idx % k == 0
        n_w = len(inst.weights)
        out, err = inst.call(J)
        if err:
            return fail(sig, nontrivial, "C19.schedule" if recompute else "C19.reuse",
                        f"call {idx} since construction/reset (position {pos} of '{word}', "
                        f"{'recompute' if recompute else 're-use'} step, k={k}) raised", err, "a vector")
        n_solves = len(inst.solves) - solves_at_seg_start
        if n_solves != idx // k + 1:
            return fail(sig, nontrivial, "C19.schedule", f"after call {idx} (k={k}) the weights have been recomputed "
                        f"{n_solves} times since construction/reset", n_solves, idx // k + 1)
        Jn = np64(J)
        if recompute:
            G = Jn @ Jn.T
            want = G / np.linalg.norm(G)
            got = inst.solves[-1][0]
            if got.shape != want.shape or not np.allclose(got, want, rtol=1e-4 if f32 else 1e-9, atol=1e-6 if f32 else 1e-12):
                return fail(sig, nontrivial, "C19.schedule", f"call {idx}: the recomputation did not receive the normalised "
                            "Gramian of the current matrix", got, want)
        if max_norm > 0:
            nout = float(np.linalg.norm(np64(out)))
            if nout > max_norm * (1 + (1e-5 if f32 else 1e-6)):
                return fail(sig, nontrivial, "C19.maxnorm", f"|output| exceeds max_norm = {max_norm}", nout, max_norm)
        if len(inst.weights) != n_w + 1:
            raise AssertionError("forward hook did not fire exactly once")
        alpha = inst.solves[-1][1]
        exp_w = alpha.copy()
        if max_norm > 0:
            nrm = float(np.linalg.norm(exp_w @ Jn))
            if nrm > max_norm:
                exp_w = exp_w / nrm * max_norm
        w = np64(inst.weights[-1])
        if w.shape != exp_w.shape or not np.allclose(w, exp_w, rtol=rtol_w, atol=rtol_w * float(np.abs(exp_w).max())):
            return fail(sig, nontrivial, "C19.schedule" if recompute else "C19.reuse",
                        f"call {idx} ({'recompute' if recompute else 're-use'} step): returned weights are not the stored "
                        "weights (rescaled to max_norm)", w, exp_w)
        seg_word += ch
        seg_outs.append(out.detach().clone())
        idx += 1
    f = check_segment()
    if f:
        return f
    return ok(sig, nontrivial)


def cases(tier, seed, focus=None):
    rng = random.Random(1900 + seed)
    out = []
    if tier == "quick":
        # regression words for the re-use branch first, then a sample of histories of length <= 4 (a few of length 5)
        for m in (2, 3, 4, 5):
            for k in (2, 3, 4):
                out.append({"m": m, "k": k, "max_norm": 1.0, "mseed": rng.randrange(1000), "word": "ABCA"[: k + 1]})
        for i in range(170):
            L = rng.choice([2, 3, 3, 3, 4, 4, 5])
            word = "".join(rng.choice("ABCR" if j else "ABC") for j in range(L))
            out.append({"m": rng.choice([2, 2, 3, 3, 4, 5]), "k": 1 + i % 4, "max_norm": MAX_NORMS[(i // 4) % 4],
                        "mseed": rng.randrange(1000), "word": word,
                        "dtype": "float32" if i % 10 == 9 else "float64"})
        return out
    words = ["".join(w) for w in itertools.product("ABCR", repeat=5)]
    for m in (2, 3, 4, 5):
        for k in (1, 2, 3, 4):
            mseed = rng.randrange(1000)
            for wi, word in enumerate(words):
                out.append({"m": m, "k": k, "max_norm": MAX_NORMS[(wi // 7 + k) % 4], "mseed": mseed, "word": word})
    for i in range(600):  # random beyond length 5, other alphabets, float32
        L = rng.randint(6, 10)
        out.append({"m": rng.randint(2, 5), "k": rng.randint(1, 4), "max_norm": rng.choice(MAX_NORMS),
                    "mseed": rng.randrange(1000), "word": "".join(rng.choice("ABCCR") for _ in range(L)),
                    "dtype": "float32" if i % 5 == 4 else "float64"})
    return out
