"""C09 [B]: linear under scaling — bounded campaign.

Executable rendering of  A(diag(a c1 + b c2) J) = a A(diag(c1) J) + b A(diag(c2) J)  (c1, c2 > 0 entry-wise, a, b > 0)
on the real Mean, Sum, Constant, ConFIG, PCGrad and Random (torch re-seeded before each of the three calls), and of the
regularisation-defect bound for UPGrad.

Failure keys: C09.Mean, C09.Sum, C09.Constant, C09.ConFIG, C09.PCGrad, C09.Random, C09.UPGrad.

Notation: J_k = diag(c_k) J for k = 1, 2, 3 (c_3 = a c1 + b c2), coefficients q = (a, b, 1), R_k the largest row norm of
J_k, e the eps of the dtype, defect = max |A(J_3) - a A(J_1) - b A(J_2)|.

Tolerances (all derived, per evaluation, then combined with the coefficients):
  constant weightings (Mean, Sum, Constant, Random under a seed): the weights do not depend on J; only the rounding of
      diag(c) J and of the m-term combination remains: 8 (m+2) e sum_i |w_i| |row_i(J_k)|.
  PCGrad (seeded): A(diag(c) J) = sum_i c_i p_i(J) as long as the sign tests fall alike (they are continuous across the
      threshold); every projection shrinks the current vector so each |cw_k g_k| <= |g_i|, and each of the <= m^2
      updates carries the rounding of an n-term dot product: 32 m^2 (n+2) e R_k.
  ConFIG: the unit rows are invariant under positive row scaling, A(J) = (sum_i g_i . u) u; the direction u has relative
      condition cond(units)^2: 16 max(m,n) (cond^2 + m) e m R_k; matrices whose unit rows have ambiguous rank
      (cond > 1e3 or more non-zero rows than columns) are outside (pinv's rank decision is discontinuous).
  UPGrad: with z = diag(c) v the regularised QP of J_k reads  min z^T G z + rho |D^-1 z|^2, z >= c_i u_i e_i,
      G = J J^T, rho = reg_eps s_k^2, whereas without the rho-term the solutions are c_i z_i(J): linear in c.  Let z0 be
      ANY solution of the unregularised problem and z_r the regularised one.  Optimality of z_r and the projection
      property |J^T z_r|^2 >= |J^T z0|^2 + |J^T (z_r - z0)|^2 give
          |J^T (z_r - z0)|^2 <= rho (|D^-1 z0|^2 - |D^-1 z_r|^2) <= reg_eps s_k^2 |v0|^2,   v0 = D^-1 z0,
      i.e. K = 1 per evaluation and projection:   defect <= sqrt(reg_eps) sum_k q_k s_k sum_i |v0_i(J_k)|_2  with
      v0_i(J_k) = c_k,i D_k^-1 z_i(J), z_i(J) from the independent active-set enumeration (`_agga.qp_enum_psd`, no
      regularisation).  This envelope decreases like sqrt(reg_eps) along the ladder and vanishes as reg_eps -> 0; the
      observed weights can be much smaller than v0 (regularisation caps them), so the bound is stated with v0.  (The
      combined three-call defect itself is not provably monotone — errors of the three calls may cancel — so the
      campaign checks the monotone envelope at every rung, down to reg_eps = 1e-12 in float64.)  Added rounding:
      s_k dG |w_k|_1 / sqrt(reg_eps) + 8 (m+2) e |w_k|_1 R_k per evaluation (see C03), dG = 32 max(m,n) e.
      Side condition: s_k >= norm_eps for the three matrices.
"""
from __future__ import annotations

import math
import random

import numpy as np
import torch

from tjv.rt.aggs import gen_matrix, make_agg, pref_vector
from ._agga import cond_number, fail, qp_enum_psd, sigma_max, small, tdtype, to64

RULE = ("aggregator configuration (Mean, Sum, Constant x2, ConFIG x2, PCGrad, Random, UPGrad x3 with pref vectors) x "
        "matrix family x shape x dtype x (c1, c2) with entries log-uniform over up to 6 decades x (a, b) log-uniform in "
        "1e-2..1e2 x torch seed; UPGrad additionally over the reg_eps ladder; + the 'magnitude' family: the same "
        "aggregators on Jacobians of magnitude 1e-8..1e-13 (vanishing gradients; 30%: 1e8..1e13) with c over 2..6 "
        "decades, so that some rows of diag(c) J have a non-zero norm far below any absolute guard (1e-12, the dtype's "
        "eps, ...) while others do not: every aggregator that normalises rows must do it relative to the row (UPGrad "
        "there with norm_eps = 1e-30 so that s_k >= norm_eps still holds). distinct = (aggregator spec, matrix spec, "
        "c-seed); non-trivial = m >= 2, J != 0 and c1 not proportional to c2 (for UPGrad additionally: some pair of "
        "rows conflicts, so that the projection is active)")
BOUNDS = ("m <= 6, n <= 8; c entries in 1e-3..1e3; |J| 1e-13..1e13 in float64, 1e-11..1e11 with c in 1e-2..1e2 in float32 "
          "(squares of the row norms stay normal float32 numbers); reg_eps ladder 1e-2,1e-4,1e-6,1e-8,1e-10,1e-12 (float64), "
          "1e-2,1e-4,1e-6 (float32)")
EXHAUSTIVE = ""

AGGS = [
    {"name": "Mean"},
    {"name": "Sum"},
    {"name": "Constant", "kind": "distinct"},
    {"name": "Constant", "kind": "signed", "wseed": 9},
    {"name": "ConFIG"},
    {"name": "ConFIG", "pref": "distinct"},
    {"name": "PCGrad"},
    {"name": "PCGrad"},
    {"name": "Random"},
    {"name": "UPGrad"},
    {"name": "UPGrad", "pref": "distinct"},
    {"name": "UPGrad", "pref": {"rand": 5}},
]
LADDER = {"float64": [1e-2, 1e-4, 1e-6, 1e-8, 1e-10, 1e-12], "float32": [1e-2, 1e-4, 1e-6]}
KINDS = ["gauss", "gauss", "lowrank", "antiparallel", "duprows", "zerorow", "stationary", "nonconflict", "ternary",
         "wellcond", "rowscales"]


def cases(tier, seed, focus=None):
    rng = random.Random(9000 + seed)
    out = []
    n_cases = 480 if tier == "quick" else 14000
    for i in range(n_cases):
        spec = AGGS[i % len(AGGS)]
        name = spec["name"]
        dtype = rng.choice(["float64", "float64", "float32"])
        m, n = rng.randint(1 if rng.random() < 0.1 else 2, 6), rng.randint(1, 8)
        kind = rng.choice(KINDS)
        if name == "ConFIG" and rng.random() < 0.7:
            kind = rng.choice(["wellcond", "gauss", "nonconflict"])
            m, n = min(m, n), max(m, n)
        if name == "UPGrad":
            kind = rng.choice(["gauss", "antiparallel", "stationary", "lowrank", "duprows", "ternary", "wellcond",
                               "zerorow", "nonconflict"])
        if kind == "wellcond" and m > n:
            kind = "gauss"
        mat = {"kind": kind, "m": m, "n": n, "seed": rng.randrange(10**6), "dtype": dtype,
               "scale": 10.0 ** rng.choice([0.0, rng.uniform(-2, 4)])}
        if name == "UPGrad":
            mat["scale"] = 10.0 ** rng.uniform(0, 3)  # s_k >= norm_eps for c down to 1e-3
        if kind == "lowrank":
            mat["rank"] = rng.randint(1, max(1, min(m, n) - 1))
        if kind == "ternary":
            mat["code"] = rng.randrange(3 ** (m * n))
        if kind == "rowscales":
            mat["decades"] = rng.choice([2, 6])
        out.append({"agg": spec, "mat": mat, "cseed": rng.randrange(10**6), "decades": rng.choice([0.5, 2, 4, 6, 6]),
                    "seed": rng.randrange(10**6)})
    # ---- magnitude family (own random stream: the cases above are unchanged)
    rng = random.Random(90900 + seed)
    for i in range(300 if tier == "quick" else 6000):
        spec = AGGS[i % len(AGGS)]
        name = spec["name"]
        dtype = rng.choice(["float64", "float64", "float32"])
        m, n = rng.randint(2, 6), rng.randint(1, 8)
        kind = rng.choice(["gauss", "gauss", "antiparallel", "stationary", "nonconflict", "wellcond", "lowrank", "zerorow"])
        if name == "ConFIG":
            kind = rng.choice(["wellcond", "gauss", "nonconflict"])
            m, n = min(m, n), max(m, n)
        if kind == "wellcond" and m > n:
            kind = "gauss"
        mag = rng.uniform(8.0, 13.0 if dtype == "float64" else 11.0)
        mat = {"kind": kind, "m": m, "n": n, "seed": rng.randrange(10**6), "dtype": dtype,
               "scale": 10.0 ** (-mag if rng.random() < 0.7 else mag)}
        if kind == "lowrank":
            mat["rank"] = rng.randint(1, max(1, min(m, n) - 1))
        if name == "UPGrad":
            spec = dict(spec, norm_eps=1e-30)
        out.append({"agg": spec, "mat": mat, "cseed": rng.randrange(10**6),
                    "decades": rng.choice([2, 4, 6, 6] if dtype == "float64" else [2, 4, 4]),
                    "seed": rng.randrange(10**6)})
    return out


def _coeffs(case, m):
    rng = random.Random(case["cseed"])
    half = case["decades"] / 2.0
    c1 = np.array([10.0 ** rng.uniform(-half, half) for _ in range(m)])
    c2 = np.array([10.0 ** rng.uniform(-half, half) for _ in range(m)])
    a, b = 10.0 ** rng.uniform(-2, 2), 10.0 ** rng.uniform(-2, 2)
    return c1, c2, a, b


_INSTANCES = {}


def _eval(spec, m, dt, Jk, seed, reuse=None):
    # reuse: the three calls of a case go through ONE aggregator instance (state carried from call to call - a private
    # random generator, a cache - must not matter once torch is re-seeded)
    if reuse is not None:
        agg = _INSTANCES.get(reuse)
        if agg is None:
            _INSTANCES.clear()
            agg = _INSTANCES[reuse] = make_agg(spec, m, dt)
    else:
        agg = make_agg(spec, m, dt)
    torch.manual_seed(seed)
    x = to64(agg(Jk))
    if hasattr(agg, "weighting") and spec["name"] != "ConFIG":
        torch.manual_seed(seed)
        w = to64(agg.weighting(Jk))
    else:
        w = None
    return x, w


def run_case(case):
    spec, mat = case["agg"], case["mat"]
    name = spec["name"]
    key = f"C09.{name}"
    sig = repr((sorted(spec.items(), key=str), sorted(mat.items(), key=str), case["cseed"], case["decades"]))
    J = gen_matrix(mat)
    m, n = J.shape
    dt = tdtype(mat["dtype"])
    e = float(torch.finfo(dt).eps)
    J64 = to64(J)
    c1, c2, a, b = _coeffs(case, m)
    c3 = a * c1 + b * c2
    cs, q = [c1, c2, c3], [a, b, 1.0]
    Jk = [torch.from_numpy(c[:, None] * J64).to(dt) for c in cs]
    Jk64 = [to64(M) for M in Jk]
    Rk = [float(np.linalg.norm(M, axis=1).max()) for M in Jk64]
    nonzero = bool((J64 != 0).any())
    prop = float(np.abs(c1 / c2 - (c1 / c2)[0]).max()) <= 1e-9
    nontrivial = m >= 2 and nonzero and not prop
    seed = case["seed"]

    def evaluate(sp):
        xs, ws = [], []
        reuse = (sig, repr(sorted(sp.items(), key=str))) if (case["cseed"] % 2 == 0 and name in ("PCGrad", "Random", "Mean", "Sum", "ConFIG")) else None
        for M in Jk:
            x, w = _eval(sp, m, dt, M, seed, reuse=reuse)
            xs.append(x)
            ws.append(w)
        return xs, ws, float(np.abs(xs[2] - a * xs[0] - b * xs[1]).max()) if n else 0.0

    def report(defect, tol, extra=""):
        return fail(key, f"{name}: A(diag(a c1 + b c2) J) != a A(diag(c1) J) + b A(diag(c2) J): defect {defect:.3e} > "
                    f"tol {tol:.3e} (a={a:.3g}, b={b:.3g}){extra}", sig, nontrivial, defect, tol,
                    c1=small(c1), c2=small(c2), matrix=small(J, 48))

    if name != "UPGrad":
        try:
            xs, ws, defect = evaluate(spec)
        except Exception as ex:
            return fail(key, f"{name} raised {type(ex).__name__}: {str(ex)[:120]}", sig, nontrivial, "exception", "")
        if name in ("Mean", "Sum", "Constant", "Random"):
            if not all(np.array_equal(ws[0], w) for w in ws):
                return fail(key, f"{name}: the weights depend on the row scaling", sig, nontrivial,
                            [small(w) for w in ws], "equal weights")
            tol = sum(qk * 8.0 * (m + 2) * e * float(np.abs(ws[0]) @ np.linalg.norm(M, axis=1))
                      for qk, M in zip(q, Jk64))
        elif name == "PCGrad":
            tol = sum(qk * 32.0 * m * m * (n + 2) * e * R for qk, R in zip(q, Rk))
        else:  # ConFIG
            norms = np.linalg.norm(J64, axis=1)
            nz = J64[norms > 0] / norms[norms > 0][:, None]
            kappa = cond_number(nz) if 0 < nz.shape[0] <= n else np.inf
            if not nonzero:
                kappa = 1.0
            if not np.isfinite(kappa) or kappa > 1e3:
                return {"ok": True, "sig": sig, "nontrivial": False, "note": "ambiguous rank of the unit rows"}
            tol = sum(qk * 16.0 * max(m, n) * (kappa**2 + m) * e * m * R for qk, R in zip(q, Rk))
        if not (defect <= tol):  # (NaN-proof)
            return report(defect, tol)
        return {"ok": True, "sig": sig, "nontrivial": nontrivial, "note": f"{defect / tol if tol > 0 else 0:.2e}"}

    # ---------------------------------------------------------------- UPGrad: regularisation defect along the ladder
    ne = spec.get("norm_eps", 1e-4)
    sk = [sigma_max(M) for M in Jk64]
    if min(sk) < ne * 1.01:
        return {"ok": True, "sig": sig, "nontrivial": False, "note": "s < norm_eps for one of the three matrices"}
    u_t = pref_vector(spec.get("pref"), m, dt)
    u = to64(u_t) if u_t is not None else np.full(m, 1.0 / m)
    s = sigma_max(J64)
    Jn = J64 / s
    G0 = Jn @ Jn.T
    # unregularised projection weights z_i(J) of u_i e_i; v0_i(J_k) = c_k,i D_k^-1 z_i(J) / (the u_i are already in z_i)
    V = [0.0, 0.0, 0.0]
    for i in range(m):
        ui = np.zeros(m)
        ui[i] = u[i]
        z = qp_enum_psd(G0, ui)
        if z is None:
            return {"ok": True, "sig": sig, "nontrivial": False, "note": "oracle: ambiguous rank"}
        for k in range(3):
            V[k] += float(np.linalg.norm(cs[k][i] * z / cs[k]))
    B = sum(qk * s_k * Vk for qk, s_k, Vk in zip(q, sk, V))
    conflict = bool((G0 < 0).any())
    dG = 32.0 * max(m, n) * e
    worst = 0.0
    for reg in LADDER[mat["dtype"]]:
        sp = dict(spec, norm_eps=ne, reg_eps=reg)
        try:
            xs, ws, defect = evaluate(sp)
        except Exception as ex:
            return fail(key, f"UPGrad(reg_eps={reg:g}) raised {type(ex).__name__}: {str(ex)[:120]}", sig, nontrivial,
                        "exception", "")
        rnd = sum(qk * (s_k * dG * float(np.abs(w).sum()) / math.sqrt(reg) + 8.0 * (m + 2) * e * float(np.abs(w).sum()) * R)
                  for qk, s_k, w, R in zip(q, sk, ws, Rk))
        tol = math.sqrt(reg) * B + rnd
        if not (defect <= tol):  # (NaN-proof)
            return report(defect, tol, f"; reg_eps={reg:g}: bound sqrt(reg_eps) sum_k q_k s_k |v0(J_k)| = "
                          f"{math.sqrt(reg) * B:.3e}, rounding {rnd:.3e}")
        worst = max(worst, defect / tol if tol > 0 else 0.0)
    return {"ok": True, "sig": sig, "nontrivial": nontrivial and conflict, "note": f"{worst:.2e}"}
