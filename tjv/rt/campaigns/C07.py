"""C07 [E]: parallel_chunk_size is a pure performance knob — enumeration on the real backward / mtl_backward.

For every (m, k): the .grad left by the call with chunk size k equals the one left with k=None on a twin graph
(C07.value); the graph between the differentiated tensors and the parameters is swept exactly ceil(m/k) times, each
sweep covering <= k rows, the sweeps covering m rows in total (C07.sweeps; observed three ways: a tensor hook on a
trunk node, the torch.autograd.grad invocations issued on the differentiated tensors, and the batch size of their
cotangents); with k=1 or m=1 torch.vmap is never entered and a graph whose backward pass vmap cannot handle (a
custom autograd.Function without vmap support) is still differentiated (C07.novmap).
"""
from __future__ import annotations

import math
import random

import torch

from tjv.rt import gen
from tjv.rt.aggs import make_agg
from ._autojac import as_container

RULE = ("(function in {backward, mtl_backward}; parameter lists given as list / tuple / one-shot iterator / generator) "
        "x (template in {matvec, multi-output, scalars-with-reuse}) x row "
        "count m x chunk size k in {None, 1..m+2} x retain_graph x random constants (seed). m = number of output "
        "scalars (backward) / of tasks (mtl_backward). Oracle: same call with k=None on a twin graph for the "
        "values; ceil(m/k) for the sweep count; torch.vmap must not be entered when k=1 or m=1. A 'hostile' "
        "template puts a custom autograd.Function whose backward applies another Function without vmap support in "
        "the graph: the call with k=1 (or m=1) must succeed and give the k-independent value (checked against "
        "row-by-row torch.autograd.grad). distinct = (fn, template, m, k, retain); non-trivial = every "
        "row of the Jacobian is non-zero and the rows are pairwise different, and for hostile cases the same program is measured to "
        "fail under vmap")
BOUNDS = "m <= 12, k <= m+2, 3 templates + 1 vmap-hostile template, <= 3 inputs / shared params of <= 4 elements"
EXHAUSTIVE = ("thorough: all (m,k) with 1<=m<=12, k in {None,1..m+2} x retain_graph in {F,T} x {backward, "
              "mtl_backward} x 3 templates; hostile template: all m<=12 with k=1, and m=1 with all k")

TEMPLATES = ["matvec", "multi", "scalars"]
_F = torch._C._functorch


def _grid():
    return [(m, k) for m in range(1, 13) for k in [None] + list(range(1, m + 3))]


def cases(tier, seed, focus=None):
    rng = random.Random(7000 + seed)
    out = []
    if tier == "thorough":
        for fn in ("backward", "mtl"):
            for tpl in TEMPLATES:
                for (m, k) in _grid():
                    for retain in (False, True):
                        out.append({"fn": fn, "tpl": tpl, "m": m, "k": k, "retain": retain, "hostile": False,
                                    "seed": rng.randrange(10**6), "dtype": rng.choice(["float64", "float32"])})
        for fn in ("backward", "mtl"):
            for m in range(1, 13):
                for k in ([1] if m > 1 else [None, 1, 2, 3]):
                    for retain in (False, True):
                        out.append({"fn": fn, "tpl": "hostile", "m": m, "k": k, "retain": retain, "hostile": True,
                                    "seed": rng.randrange(10**6), "dtype": "float64"})
    else:
        grid = _grid()
        edge = [(m, k) for (m, k) in grid if k in (None, 1, m - 1, m, m + 1) or (k and m % k == 1)]
        picks = rng.sample(edge, 60) + rng.sample(grid, 60)
        for i, (m, k) in enumerate(picks):
            out.append({"fn": ("backward", "mtl")[i % 2], "tpl": TEMPLATES[(i // 2) % 3], "m": m, "k": k,
                        "retain": rng.random() < 0.5, "hostile": False, "seed": rng.randrange(10**6),
                        "dtype": rng.choice(["float64", "float32"])})
        for i in range(30):
            m = rng.randint(1, 12)
            if i % 5 == 0:
                m = 1
            out.append({"fn": ("backward", "mtl")[i % 2], "tpl": "hostile", "m": m,
                        "k": 1 if m > 1 else rng.choice([None, 1, 2, 3]), "retain": rng.random() < 0.5,
                        "hostile": True, "seed": rng.randrange(10**6), "dtype": "float64"})
    return out


# ----------------------------------------------------------------------------- vmap-hostile op


class _Inner(torch.autograd.Function):  # old-style Function: no setup_context, no vmap rule
    @staticmethod
    def forward(ctx, g, x):
        return 2.0 * x * g

    @staticmethod
    def backward(ctx, gg):  # pragma: no cover  (never differentiated twice)
        return None, None


class _HostileSquare(torch.autograd.Function):
    """x -> x*x whose backward pass applies a Function without vmap support: fine sequentially, an error when
    the backward pass is batched by torch.vmap."""
    generate_vmap_rule = False

    @staticmethod
    def forward(ctx, x):
        ctx.save_for_backward(x)
        return x * x

    @staticmethod
    def backward(ctx, g):
        (x,) = ctx.saved_tensors
        return _Inner.apply(g, x)


# ----------------------------------------------------------------------------- templates


def _rt(g, shape, dtype):
    return (torch.rand(shape, generator=g, dtype=torch.float64) * 2.0 - 1.0).to(dtype)


def _split(m, g):
    """m = m1 + m2 (+ m3), all parts >= 1 when possible."""
    if m == 1:
        return [1]
    m1 = int(torch.randint(1, m, (1,), generator=g))
    rest = m - m1
    if rest >= 2:
        m2 = int(torch.randint(1, rest, (1,), generator=g))
        return [m1, m2, rest - m2]
    return [m1, rest]


def _shape_for(n):
    if n % 2 == 0 and n >= 4:
        return (2, n // 2)
    if n == 1:
        return ()
    return (n,)


def build_backward(case):
    """Returns dict(tensors, inputs, hook_node, leaves)."""
    g = torch.Generator().manual_seed(case["seed"])
    dtype = torch.float64 if case["dtype"] == "float64" else torch.float32
    m, tpl = case["m"], case["tpl"]
    if tpl == "matvec":
        x = _rt(g, (3,), dtype).requires_grad_(True)
        W = _rt(g, (m, 3), dtype)
        h = x * 2.0
        y = torch.sin(W @ h) * h.sum() + W[:, 0]
        return {"tensors": [y], "inputs": [x], "hook": h, "leaves": [x]}
    if tpl == "multi":
        a = _rt(g, (2,), dtype).requires_grad_(True)
        b = _rt(g, (2, 2), dtype).requires_grad_(True)
        h = a.sum() * b + b * b
        outs = []
        for j, mj in enumerate(_split(m, g)):
            V = _rt(g, (mj, 4), dtype)
            o = torch.tanh(V @ h.reshape(-1)) * (j + 1.0) + (V[:, :2] @ a) * h.sum()
            outs.append(o.reshape(_shape_for(mj)))
        return {"tensors": outs, "inputs": [b, a], "hook": h, "leaves": [a, b]}
    if tpl == "scalars":
        x = _rt(g, (2, 2), dtype).requires_grad_(True)
        z = _rt(g, (), dtype).requires_grad_(True)
        h = torch.stack([x.reshape(-1), x.reshape(-1) * z]).sum(0)  # x reached through two paths
        parts = h.unbind(0)
        outs = []
        for i in range(m):
            c = _rt(g, (), dtype)
            outs.append(parts[i % 4] * parts[(i + 1) % 4] * c + torch.sin(z * (i + 1.0)) + h.sum() * c)
        return {"tensors": outs, "inputs": [x, z], "hook": h, "leaves": [x, z]}
    if tpl == "hostile":
        x = _rt(g, (3,), dtype).requires_grad_(True)
        W = _rt(g, (m, 3), dtype)
        h = _HostileSquare.apply(x * 1.5)
        y = W @ h + h.sum()
        return {"tensors": [y], "inputs": [x], "hook": h, "leaves": [x]}
    raise KeyError(tpl)


def build_mtl(case):
    """m tasks.  Returns dict(losses, features, tasks_params, shared_params, hook_node, leaves)."""
    g = torch.Generator().manual_seed(case["seed"])
    dtype = torch.float64 if case["dtype"] == "float64" else torch.float32
    m, tpl = case["m"], case["tpl"]
    s1 = _rt(g, (3,), dtype).requires_grad_(True)
    s2 = _rt(g, (2, 2), dtype).requires_grad_(True)
    if tpl == "hostile":
        h = _HostileSquare.apply(s1 * 1.5)
        feats = [h * 2.0 + s2.sum()]
    else:
        h = torch.tanh(s1).sum() * s2 + s2 * s2
        if tpl == "matvec":
            feats = [h.reshape(-1)[:3] * s1]
        elif tpl == "multi":
            feats = [h.sum(0) * 1.5, torch.outer(s1[:2], h[0])]
        else:
            feats = [h.sum() * s1[0], (h * h).sum(1)]
    losses, tps = [], []
    for i in range(m):
        p = _rt(g, (2,), dtype).requires_grad_(True)
        used = [f for j, f in enumerate(feats) if (i + j) % 3 != 2] or [feats[0]]
        loss = sum((f * _rt(g, tuple(f.shape), dtype)).sin().sum() for f in used) * (1.0 + 0.25 * i)
        loss = loss + (p * p).sum() * used[0].sum() + p.sum()
        if case["seed"] % 3 == 1 and len(feats) >= 2 and feats[1].numel() >= 2 and i % 2 == 0:
            # a pairwise MARGIN on the second feature: its gradient w.r.t. that whole feature is (+t, -t, 0, ...), which sums to
            # exactly zero without being zero (a row whose cotangent "looks" null to a sum / truthiness test)
            f1 = feats[1].reshape(-1)
            loss = sum((f * _rt(g, tuple(f.shape), dtype)).sin().sum() for f in feats[:1]) * (1.0 + 0.25 * i) \
                + p[0] * (f1[0] - f1[1]) + (p * p).sum()
        losses.append(loss)
        tps.append([p])
    return {"losses": losses, "features": feats, "tasks_params": tps, "shared_params": [s1, s2], "hook": h,
            "leaves": [s1, s2] + [q for tp in tps for q in tp]}


# ----------------------------------------------------------------------------- instrumentation


class _Probe:
    """Counts torch.autograd.grad invocations whose `outputs` are the watched tensors (with the number of rows of
    their cotangents: the vmap batch size, or 1) and torch.vmap entries, while active."""

    def __init__(self, watched):
        self.watched = {id(t) for t in watched}
        self.sweeps = []  # rows per trunk sweep
        self.vmap_calls = 0

    @staticmethod
    def _rows(t):
        if _F.is_batchedtensor(t):
            return int(_F.get_unwrapped(t).shape[_F.maybe_get_bdim(t)])
        return 1

    def __enter__(self):
        self._grad, self._vmap = torch.autograd.grad, torch.vmap
        probe = self

        def grad(outputs, inputs, grad_outputs=None, *a, **kw):
            outs = [outputs] if isinstance(outputs, torch.Tensor) else list(outputs)
            if any(id(o) in probe.watched for o in outs):
                gos = [grad_outputs] if isinstance(grad_outputs, torch.Tensor) else list(grad_outputs or [])
                probe.sweeps.append(max([probe._rows(t) for t in gos] or [1]))
            return probe._grad(outputs, inputs, grad_outputs, *a, **kw)

        def vmap(func, *a, **kw):
            inner = probe._vmap(func, *a, **kw)

            def entered(*args, **kwargs):
                probe.vmap_calls += 1
                return inner(*args, **kwargs)

            return entered

        torch.autograd.grad, torch.vmap = grad, vmap
        return self

    def __exit__(self, *exc):
        torch.autograd.grad, torch.vmap = self._grad, self._vmap
        return False


def _invoke(case, built, k):
    from torchjd import backward, mtl_backward

    dtype = built["leaves"][0].dtype
    agg = make_agg({"name": "Constant", "kind": "distinct"}, case["m"], dtype)
    # kind of iterable used for the parameter lists (a function of the case: half of the cases use a one-shot one)
    how = ["list", "iter", "tuple", "gen"][case["seed"] % 4]
    if case["fn"] == "backward":
        backward(built["tensors"], agg, inputs=as_container(built["inputs"], how), retain_graph=case["retain"],
                 parallel_chunk_size=k)
    else:
        mtl_backward(built["losses"], built["features"], agg,
                     tasks_params=[as_container(tp, how) for tp in built["tasks_params"]],
                     shared_params=as_container(built["shared_params"], how), retain_graph=case["retain"],
                     parallel_chunk_size=k)


def _build(case):
    return build_backward(case) if case["fn"] == "backward" else build_mtl(case)


def _reference_grads(case, built):
    """Row-by-row oracle (no vmap, no torchjd pipeline): used for the hostile template and for non-triviality."""
    dtype = built["leaves"][0].dtype
    agg = make_agg({"name": "Constant", "kind": "distinct"}, case["m"], dtype)
    if case["fn"] == "backward":
        J = gen.ref_jacobian(built["tensors"], built["inputs"])
        upd = dict(zip(map(id, built["inputs"]), gen.split_like(agg(J), built["inputs"])))
    else:
        sh = built["shared_params"]
        rows = []
        upd = {}
        for loss, tp in zip(built["losses"], built["tasks_params"]):
            gs = torch.autograd.grad(loss, sh + tp, retain_graph=True, allow_unused=True)
            gs = [x if x is not None else torch.zeros_like(t) for x, t in zip(gs, sh + tp)]
            rows.append(torch.cat([x.reshape(-1) for x in gs[: len(sh)]]))
            for t, x in zip(tp, gs[len(sh):]):
                upd[id(t)] = x
        J = torch.stack(rows)
        upd.update(zip(map(id, sh), gen.split_like(agg(J), sh)))
    return J, upd


def run_case(case):
    m, k = case["m"], case["k"]
    sig = f"{case['fn']}|{case['tpl']}|m{m}|k{k}|r{int(case['retain'])}"
    b1, b2 = _build(case), _build(case)
    dtype = b1["leaves"][0].dtype
    rtol, atol = (1e-9, 1e-10) if dtype == torch.float64 else (1e-4, 1e-4)
    hook_hits = []
    b1["hook"].register_hook(lambda gr: hook_hits.append(1))
    watched = b1["tensors"] if case["fn"] == "backward" else b1["features"]
    err = None
    with _Probe(watched) as probe:
        try:
            _invoke(case, b1, k)
        except Exception as e:  # every chunk size is valid: the call must succeed
            err = e
    J, ref = _reference_grads(case, b2)
    rows = [J[i] for i in range(J.shape[0])]
    nontrivial = all(bool((r != 0).any()) for r in rows) and all(
        not torch.equal(rows[i], rows[j]) for i in range(m) for j in range(i))
    atol = atol * max(1.0, float(J.abs().max()) * m)
    base = {"sig": sig, "nontrivial": nontrivial}
    sequential = (k == 1 or m == 1)

    if case["hostile"]:
        # measured: the same program is rejected by vmap as soon as a chunk has 2 rows (else the template is vacuous)
        if m >= 2:
            b3 = _build(case)
            try:
                _invoke(case, b3, 2)
                base["nontrivial"] = False
            except RuntimeError:
                pass
        if err is not None:
            return dict(base, ok=False, key="C07.novmap",
                        what=f"{case['fn']} with a vmap-hostile backward pass failed although differentiation must be "
                             f"sequential (m={m}, k={k})",
                        observed=f"{type(err).__name__}: {str(err)[:160]}", expected="success without torch.vmap")
    elif err is not None:
        return dict(base, ok=False, key="C07.value", what=f"valid chunk size rejected / call failed (m={m}, k={k})",
                    observed=f"{type(err).__name__}: {str(err)[:160]}", expected="success")

    if sequential and probe.vmap_calls != 0:
        return dict(base, ok=False, key="C07.novmap", what=f"torch.vmap entered although k=1 or m=1 (m={m}, k={k})",
                    observed=probe.vmap_calls, expected=0)

    # values: k=None on the twin (hostile template: the row-by-row oracle, k=None cannot run there)
    if case["hostile"]:
        want = {i: ref[id(t)] for i, t in enumerate(b2["leaves"])}
    else:
        try:
            _invoke(case, b2, None)
        except Exception as e:  # chunk size None is valid as well
            return dict(base, ok=False, key="C07.value", what=f"the call with chunk size None failed (m={m})",
                        observed=f"{type(e).__name__}: {str(e)[:160]}", expected="success")
        want ={i: t.grad for i, t in enumerate(b2["leaves"])}
    for i, t in enumerate(b1["leaves"]):
        w = want[i]
        if t.grad is None or w is None or not gen.close(t.grad, w, rtol, atol):
            return dict(base, ok=False, key="C07.value",
                        what=f"leaf {i}: .grad with chunk size {k} differs from the one with chunk size None (m={m})",
                        observed=None if t.grad is None else t.grad.tolist(),
                        expected=None if w is None else w.tolist())
        r = ref[id(b2["leaves"][i])]
        if not gen.close(t.grad, r, max(rtol, 1e-7), max(atol, 1e-7)):
            return dict(base, ok=False, key="C07.value",
                        what=f"leaf {i}: .grad with chunk size {k} differs from the row-by-row oracle (m={m})",
                        observed=t.grad.tolist(), expected=r.tolist())

    kk = m if k is None else k
    n_expected = math.ceil(m / kk)
    obs = {"hook": len(hook_hits), "grad_calls": len(probe.sweeps), "rows_per_call": probe.sweeps}
    bad = (len(hook_hits) != n_expected or len(probe.sweeps) != n_expected or sum(probe.sweeps) != m
           or any(r > kk or r < 1 for r in probe.sweeps))
    if bad:
        return dict(base, ok=False, key="C07.sweeps",
                    what=f"graph not traversed in ceil(m/k) sweeps of <= k rows covering m rows (m={m}, k={k})",
                    observed=obs, expected={"sweeps": n_expected, "rows_total": m, "max_rows_per_sweep": kk})
    return dict(base, ok=True)
