"""C20 [B]: a call rejected for its arguments changes nothing — bounded campaign on the real entry points.

Every case is a VALID call of backward / mtl_backward over a random program (the valid call is executed on a
twin graph and must succeed and write some .grad: that is what makes the case non-trivial) in which exactly
one argument has been made invalid, at a chosen position.  The real function is called with the invalid
arguments; the contract is:  an exception is raised (C20.noraise otherwise)  and the state of ALL tensors of
the program (value, .grad value, .grad object identity and version) is what it was before (C20.partial).

The kind ``mutated_state`` is a history on the SAME tensor objects: a valid call (retained graph), then the user
changes the state of one listed parameter so that it no longer expects a .grad (requires_grad_(False), detach_(), or
an in-place operation that turns it into a non-leaf), then the same call again: it must be rejected without any
change, whatever the verdict of the earlier call on that tensor was.
"""
from __future__ import annotations

import random

import torch

from tjv.rt import gen
from tjv.rt.aggs import make_agg
from ._autojac import (choose_inputs, full_state, mtl_all_tensors, mtl_kwargs, n_rows, set_pregrads,
                       state_changes)

RULE = ("a valid call (random gen.build / gen.build_mtl program x aggregator x chunk size x retain_graph x "
        "pre-existing .grad none/some/all x explicit/defaulted parameter lists) with ONE argument made invalid: "
        "kind of invalidity x position of the offending element in its list x variant (non-positive chunk sizes of "
        "every numeric kind: python int / bool / float, numpy int32 / int64 / float64, 0-dim torch tensors; "
        "mutated_state: the argument became invalid between two calls on the same tensors, for a parameter of any "
        "task, the later tasks first, or a shared parameter). Oracle: the call must raise "
        "and full_state (data, .grad value/object/version of every leaf, node and output) must be unchanged. "
        "distinct = (function, kind, variant, position, program trace, pre-grad mode); non-trivial = the valid "
        "twin call succeeds and modifies at least one .grad (so a partial write was possible)")
BOUNDS = ("programs: <=5 leaves, <=8 ops, <=3 outputs (backward); <=3 shared, <=3 features, <=4 tasks (mtl); "
          "positions 0..5 (taken modulo the list length + 1)")
EXHAUSTIVE = ("thorough: every (function, kind, variant) x every position 0..5 x pre-grad mode x 4 programs "
              "(the kinds are the list of the property statement + aggregator rejection in backward)")

# (kind, variants)
CHUNKS_NONPOS = ["0", "-1", "-7", "np.int64(0)", "np.int32(-2)", "np.int64(-1)", "0.0", "-2.0", "np.float64(-0.5)",
                 "torch(0)", "torch(-1)", "torch(0.0)", "False"]
BACKWARD_KINDS = [
    ("chunk_nonpos", CHUNKS_NONPOS),
    ("mutated_state", ["freeze_input", "detach_input", "nonleaf_input"]),
    ("empty_tensors", ["inputs_given", "inputs_default"]),
    ("dup_tensors", ["adjacent", "far"]),
    ("input_nonleaf", ["in_graph", "fresh"]),
    ("input_noreq", ["leaf"]),
    ("agg_constant_len", ["plus1", "minus1", "empty"]),
    ("agg_krum_rows", ["byz", "sel"]),
    ("agg_nonfinite", ["nan", "inf"]),
]
MTL_KINDS = [
    ("chunk_nonpos", CHUNKS_NONPOS),
    ("mutated_state", ["freeze_task", "detach_task", "nonleaf_task", "freeze_shared", "nonleaf_shared"]),
    ("empty_features", ["explicit", "default"]),
    ("empty_losses", ["explicit", "default"]),
    ("nonscalar_loss", ["reshape1", "vector"]),
    ("mismatch", ["drop_group", "extra_group", "drop_loss"]),
    ("overlap", ["shared_in_task", "task_in_shared"]),
    ("dup_features", ["dup"]),
    ("dup_shared", ["dup"]),
    ("dup_task", ["dup"]),
    # *_dflt_*: the OTHER group of parameters is left to its default (discovered from the graph); the explicit group with the
    # offending tensor must be rejected all the same, before anything is written
    ("param_nonleaf", ["shared_fresh", "shared_feature", "task_fresh", "task_fresh_dflt_shared", "shared_fresh_dflt_tasks"]),
    ("param_noreq", ["shared", "task", "task_dflt_shared", "shared_dflt_tasks"]),
]
# kinds for which the property does not promise a rejection by itself but "if rejected, nothing changed"
MAY_SUCCEED = {("mtl", "dup_losses")}

VALID_AGGS = [{"name": "Mean"}, {"name": "Constant", "kind": "distinct"}, {"name": "UPGrad"}, {"name": "Sum"}]


def _prog_spec(rng, fn):
    if fn == "backward":
        return {"seed": rng.randrange(10**9), "n_leaves": rng.randint(2, 5), "n_ops": rng.randint(2, 8),
                "n_outputs": rng.randint(1, 3), "dtype": rng.choice(["float64", "float32"])}
    return {"seed": rng.randrange(10**9), "n_shared": rng.randint(1, 3), "n_features": rng.randint(1, 3),
            "n_tasks": rng.randint(1, 4), "dtype": rng.choice(["float64", "float32"]),
            "overlap": rng.random() < 0.5, "empty_task": rng.random() < 0.5}


def _case(rng, fn, kind, variant, pos, pre=None):
    return {
        "fn": fn, "kind": kind, "variant": variant, "pos": pos,
        "prog": _prog_spec(rng, fn),
        "agg": rng.choice(VALID_AGGS),
        "chunk": rng.choice([None, 1, 2, 3]),
        "retain": rng.random() < 0.5,
        "pre": pre if pre is not None else rng.choice(["none", "some", "all"]),
        "sel_seed": rng.randrange(10**6),
        "inputs": rng.choice(["all", "subset"]),
        "tp": rng.choice(["list", "list", "default", "tuple"]),
        "sp": rng.choice(["list", "list", "default", "tuple"]),
    }


def cases(tier, seed, focus=None):
    rng = random.Random(2000 + seed)
    combos = [("backward", k, v) for k, vs in BACKWARD_KINDS for v in vs] + \
             [("mtl", k, v) for k, vs in MTL_KINDS for v in vs] + [("mtl", "dup_losses", "dup")]
    if tier == "quick":
        # every (fn, kind, variant) at 6 random (position, pre, program) combinations
        for fn, k, v in combos:
            for r in range(6):
                yield _case(rng, fn, k, v, rng.randrange(6))
    else:
        for fn, k, v in combos:
            for pos in range(6):
                for pre in ["none", "some", "all"]:
                    for r in range(10):
                        yield _case(rng, fn, k, v, pos, pre)


# ----------------------------------------------------------------------------- building the calls


def _chunk_value(variant: str):
    """The non-positive chunk size named by the variant, in the numeric kind it names."""
    import numpy as np

    if variant.startswith("torch("):
        return torch.tensor(float(variant[6:-1]) if "." in variant else int(variant[6:-1]))
    if variant.startswith("np."):
        return eval(variant, {"np": np})
    if variant == "False":
        return False
    return float(variant) if "." in variant else int(variant)


def _mutate(target, variant):
    """The user makes ``target`` (a leaf requiring grad) a tensor that does not expect a .grad any more."""
    overlapping = any(st == 0 and sz > 1 for st, sz in zip(target.stride(), target.shape))
    if (variant.startswith("freeze") or (variant.startswith("nonleaf") and overlapping)
            or (variant.startswith("detach") and target._is_view())):  # (torch refuses detach_() on views)
        target.requires_grad_(False)
    elif variant.startswith("detach"):
        target.detach_()
    else:  # in place, the same object becomes a non-leaf tensor that requires grad (value unchanged)
        helper = torch.ones((), dtype=target.dtype, requires_grad=True)
        target.requires_grad_(False)
        target.add_(helper * 0.0)
        assert target.requires_grad and not target.is_leaf


def _insert(lst, pos, item):
    lst = list(lst)
    lst.insert(pos % (len(lst) + 1), item)
    return lst


def _backward_calls(p: gen.Program, case):
    """(valid kwargs, invalid kwargs, extra tensors to observe) on program p; None if the kind does not apply."""
    kind, variant, pos = case["kind"], case["variant"], case["pos"]
    m = n_rows(p.outputs)
    dtype = p.outputs[0].dtype
    idx = choose_inputs(p, case["sel_seed"], case["inputs"])
    inputs = [p.grad_leaves[i] for i in idx]
    agg_spec = case["agg"]
    valid = {"tensors": list(p.outputs), "aggregator": make_agg(agg_spec, m, dtype), "inputs": list(inputs),
             "retain_graph": case["retain"], "parallel_chunk_size": case["chunk"]}
    bad = dict(valid)
    bad["aggregator"] = make_agg(agg_spec, m, dtype)
    extra = []
    prep = None
    if kind == "chunk_nonpos":
        bad["parallel_chunk_size"] = _chunk_value(variant)
    elif kind == "mutated_state":
        from torchjd import backward

        first = dict(valid, aggregator=make_agg(agg_spec, m, dtype), retain_graph=True)
        target = inputs[pos % len(inputs)]

        def prep():
            backward(**first)  # valid: must succeed (a crash of the checker otherwise)
            _mutate(target, variant)
    elif kind == "empty_tensors":
        bad["tensors"] = []
        if variant == "inputs_default":
            bad["inputs"] = None
    elif kind == "dup_tensors":
        outs = list(p.outputs)
        j = pos % len(outs)
        if variant == "adjacent":
            outs.insert(j, outs[j])
        else:
            outs = outs + [outs[j]] if 2 * j < len(outs) else [outs[j]] + outs
        bad["tensors"] = outs
        # the aggregator must accept the row count the duplicated list would have
        bad["aggregator"] = make_agg(agg_spec, n_rows(outs), dtype)
    elif kind == "input_nonleaf":
        if variant == "in_graph":
            cands = [n for n in p.nodes if not any(n is o for o in p.outputs)] or list(p.nodes)
            t = cands[pos % len(cands)]
        else:
            t = inputs[0] * 2.0
            extra.append(t)
        bad["inputs"] = _insert(inputs, pos, t)
    elif kind == "input_noreq":
        cands = [l for l in p.leaves if not l.requires_grad]
        if not cands:
            t = torch.ones(2, dtype=dtype)
            extra.append(t)
        else:
            t = cands[pos % len(cands)]
        bad["inputs"] = _insert(inputs, pos, t)
    elif kind == "agg_constant_len":
        import torchjd.aggregation as A

        n = {"plus1": m + 1, "minus1": m - 1, "empty": 0}[variant]
        bad["aggregator"] = A.Constant(torch.linspace(0.5, 2.0, n, dtype=dtype) if n > 0 else torch.zeros(0, dtype=dtype))
    elif kind == "agg_krum_rows":
        import torchjd.aggregation as A

        bad["aggregator"] = A.Krum(n_byzantine=max(0, m - 2)) if variant == "byz" else \
            A.Krum(n_byzantine=0, n_selected=m + 1 + pos)
    elif kind == "agg_nonfinite":
        x = inputs[pos % len(inputs)]
        if variant == "nan":
            o = torch.sqrt(x.sum() * 0.0)  # value 0, derivative inf * 0 = nan
        else:
            o = torch.sqrt((x - x.detach()).sum())  # value 0, derivative +inf
        extra.append(o)
        outs = _insert(p.outputs, pos, o)
        bad["tensors"] = outs
        bad["aggregator"] = make_agg(agg_spec, n_rows(outs), dtype)
    else:
        raise KeyError(kind)
    return valid, bad, extra, prep


def _mtl_calls(p: gen.MTLProgram, case):
    kind, variant, pos = case["kind"], case["variant"], case["pos"]
    dtype = p.losses[0].dtype
    t = len(p.losses)
    agg_spec = case["agg"]
    common = {"aggregator": make_agg(agg_spec, t, dtype), "retain_graph": case["retain"],
              "parallel_chunk_size": case["chunk"]}
    valid = dict(mtl_kwargs(p, case["tp"], case["sp"]), **common)
    explicit = dict(mtl_kwargs(p, "list", "list"), **common)  # most faults need the explicit lists
    explicit["aggregator"] = make_agg(agg_spec, t, dtype)
    bad = explicit
    extra = []
    prep = None
    if kind == "chunk_nonpos":
        bad = dict(mtl_kwargs(p, case["tp"], case["sp"]), **common)
        bad["aggregator"] = make_agg(agg_spec, t, dtype)
        bad["parallel_chunk_size"] = _chunk_value(variant)
    elif kind == "mutated_state":
        from torchjd import mtl_backward

        first = dict(mtl_kwargs(p, case["tp"], case["sp"]), **common)
        first.update(aggregator=make_agg(agg_spec, t, dtype), retain_graph=True)
        if variant.endswith("task"):
            cand = [i for i, g in enumerate(p.tasks_params) if g][::-1]  # the later tasks first
            if not cand:
                return None
            g = p.tasks_params[cand[pos % len(cand)]]
            target = g[(pos // 2) % len(g)]
        else:
            target = p.shared[pos % len(p.shared)]

        def prep():
            mtl_backward(**first)  # valid: must succeed (a crash of the checker otherwise)
            _mutate(target, variant)
    elif kind == "empty_features":
        bad["features"] = []
        if variant == "default":
            bad.pop("shared_params")
            bad.pop("tasks_params")
    elif kind == "empty_losses":
        bad["losses"] = []
        if variant == "default":
            bad.pop("tasks_params")
        else:
            bad["tasks_params"] = []
    elif kind == "nonscalar_loss":
        i = pos % t
        l = p.losses[i]
        nl = l.reshape(1) if variant == "reshape1" else torch.stack([l, l * 2.0])
        extra.append(nl)
        bad["losses"] = [nl if j == i else x for j, x in enumerate(p.losses)]
    elif kind == "mismatch":
        if variant == "drop_group":
            g = list(bad["tasks_params"])
            del g[pos % len(g)]
            bad["tasks_params"] = g
        elif variant == "extra_group":
            q = torch.ones(2, dtype=dtype, requires_grad=True)
            extra.append(q)
            bad["tasks_params"] = _insert(bad["tasks_params"], pos, [q] if pos % 2 else [])
        else:
            ls = list(p.losses)
            del ls[pos % len(ls)]
            bad["losses"] = ls
    elif kind == "overlap":
        if variant == "shared_in_task":
            s = p.shared[pos % len(p.shared)]
            i = (pos // 2) % t
            g = [list(x) for x in bad["tasks_params"]]
            g[i] = _insert(g[i], pos, s)
            bad["tasks_params"] = g
        else:
            allp = [q for g in p.tasks_params for q in g]
            if not allp:
                return None
            bad["shared_params"] = _insert(p.shared, pos, allp[pos % len(allp)])
    elif kind == "dup_features":
        f = p.features[pos % len(p.features)]
        bad["features"] = _insert(p.features, pos, f)
    elif kind == "dup_shared":
        s = p.shared[(pos // 2) % len(p.shared)]
        bad["shared_params"] = _insert(p.shared, pos, s)
    elif kind == "dup_task":
        cand = [i for i, g in enumerate(p.tasks_params) if g]
        if not cand:
            return None
        i = cand[pos % len(cand)]
        g = [list(x) for x in bad["tasks_params"]]
        g[i] = _insert(g[i], pos, g[i][(pos // 2) % len(g[i])])
        bad["tasks_params"] = g
    elif kind == "dup_losses":
        i = pos % t
        bad["losses"] = _insert(p.losses, pos, p.losses[i])
        bad["tasks_params"] = _insert(bad["tasks_params"], pos, list(p.tasks_params[i]))
        bad["aggregator"] = make_agg(agg_spec, t + 1, dtype)
        # Not in the statement's list: duplicate losses are accepted.  With retain_graph=False torch itself fails
        # in the second task's sweep ("backward through the graph a second time") after the first task's
        # accumulation -- a graph-state error (cf. C13's restriction to heads sharing no node), not an argument
        # rejection; so the flag is forced to True here and the case only says "if rejected, nothing changed".
        bad["retain_graph"] = True
    elif kind == "param_nonleaf":
        dflt = variant.split("_dflt_")[1] if "_dflt_" in variant else None
        variant = variant.split("_dflt_")[0]
        if variant == "shared_fresh":
            nlf = p.shared[0] * 1.0
            extra.append(nlf)
            bad["shared_params"] = _insert(p.shared, pos, nlf)
        elif variant == "shared_feature":
            bad["shared_params"] = _insert(p.shared, pos, p.features[pos % len(p.features)])
        else:
            i = pos % t
            src = p.tasks_params[i][0] if p.tasks_params[i] else p.other_leaves[1]
            nlf = src * 1.0
            extra.append(nlf)
            g = [list(x) for x in bad["tasks_params"]]
            g[i] = _insert(g[i], pos // 2, nlf)
            bad["tasks_params"] = g
        if dflt is not None:
            bad.pop("shared_params" if dflt == "shared" else "tasks_params", None)
    elif kind == "param_noreq":
        const = p.other_leaves[0]
        assert not const.requires_grad
        dflt = variant.split("_dflt_")[1] if "_dflt_" in variant else None
        variant = variant.split("_dflt_")[0]
        if variant == "shared":
            bad["shared_params"] = _insert(p.shared, pos, const)
        else:
            i = pos % t
            g = [list(x) for x in bad["tasks_params"]]
            g[i] = _insert(g[i], pos // 2, const)
            bad["tasks_params"] = g
        if dflt is not None:
            bad.pop("shared_params" if dflt == "shared" else "tasks_params", None)
    else:
        raise KeyError(kind)
    return valid, bad, extra, prep


# ----------------------------------------------------------------------------- the check


def run_case(case):
    from torchjd import backward, mtl_backward

    fn = case["fn"]
    if fn == "backward":
        p1, p2 = gen.build(case["prog"]), gen.build(case["prog"])
        real = backward
        tensors1 = p1.all_tensors()
        built1, built2 = _backward_calls(p1, case), _backward_calls(p2, case)
        leaves1, leaves2 = p1.leaves, p2.leaves
        trace = p1.desc
    else:
        p1, p2 = gen.build_mtl(case["prog"]), gen.build_mtl(case["prog"])
        real = mtl_backward
        tensors1 = mtl_all_tensors(p1)
        built1, built2 = _mtl_calls(p1, case), _mtl_calls(p2, case)
        leaves1, leaves2 = p1.all_leaves(), p2.all_leaves()
        trace = p1.desc
    sig = f"{fn}|{case['kind']}|{case['variant']}|{case['pos']}|{case['pre']}|" + "|".join(trace)
    if built1 is None:
        return {"ok": True, "sig": sig, "nontrivial": False, "note": "kind not applicable to this program"}
    _, bad, extra, prep = built1
    valid2 = built2[0]
    set_pregrads(leaves1, case["sel_seed"], case["pre"])
    set_pregrads(leaves2, case["sel_seed"], case["pre"])
    if prep is not None:  # the earlier, valid part of the history on the same tensors
        torch.manual_seed(case["sel_seed"])
        prep()

    # the valid remainder, on the twin: must be accepted (otherwise the generator is wrong -> crash) and write
    g_before = [None if t.grad is None else t.grad.clone() for t in leaves2]
    real(**valid2)
    wrote = any((b is None) != (t.grad is None) or (b is not None and not torch.equal(b, t.grad))
                for b, t in zip(g_before, leaves2))

    observed = list(tensors1) + list(extra)
    before = full_state(observed)
    torch.manual_seed(case["sel_seed"])
    raised = None
    try:
        real(**bad)
    except Exception as e:  # the rejection under check
        raised = e
    after = full_state(observed)
    ch = state_changes(before, after)
    base = {"sig": sig, "nontrivial": bool(wrote)}
    if raised is None:
        if (fn, case["kind"]) in MAY_SUCCEED:
            return dict(base, ok=True, note="accepted (not in the statement's list of rejections)")
        return dict(base, ok=False, key="C20.noraise",
                    what=f"{fn}: invalid argument ({case['kind']}/{case['variant']} at position {case['pos']}) "
                         "was not rejected",
                    observed="no exception; changes: " + str(ch[:6]), expected="an exception and no change")
    if ch:
        return dict(base, ok=False, key="C20.partial",
                    what=f"{fn} raised {type(raised).__name__} for {case['kind']}/{case['variant']} at position "
                         f"{case['pos']} after modifying state",
                    observed=[f"tensor {i}: {w}" for i, w in ch[:8]], expected="no tensor / .grad modified",
                    exception=str(raised)[:200])
    return dict(base, ok=True, note=type(raised).__name__)
