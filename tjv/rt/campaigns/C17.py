"""C17 [B]: impartial aggregators (IMTL-G, ConFIG, Aligned-MTL) treat every objective alike.

Inputs: matrices with linearly independent rows (tjv.rt.aggs.gen_matrix kind "wellcond": prescribed singular values,
m <= n <= 8), plus zero matrices of all shapes.

Finding keys:
  C17.imtlg        weights sum to 1 and (J . A(J))_i / |g_i| is the same for every row i.
  C17.config       no preference vector: the same positive cosine between A(J) and every row; |A(J)| = sum_i g_i . u
                   with u = A(J)/|A(J)|.
  C17.config_pref  preference vector p >= 0 (positive, very unequal, one-hot): the cosines are proportional to p with a
                   positive factor; same length identity.
  C17.amtl         R = B J (B from the real ``_compute_balance_transformation``) has mutually orthogonal rows of norm
                   sigma_min(J); A(J) = sum_i w_i R_i with w the preference vector (1/m by default); and A(J) equals the
                   independent closed form sigma_min * w^T (U V^T) from J = U S V^T (numpy SVD).
  C17.zero         the zero matrix of any shape gives the zero vector (exactly, no NaN) for the three aggregators, with
                   and without preference vector.

Tolerances: every check is a linear-algebra identity whose rounding error is bounded by a modest multiple of
cond * eps (ConFIG: cond of the unit-row matrix) or cond^2 * eps (IMTL-G and Aligned-MTL work with J J^T); the
multiples are fixed below and not tuned.  Numerical-rank ambiguity is excluded as the property says: Aligned-MTL
decides the rank of J J^T with the float32 epsilon whatever the dtype (lambda > lambda_max * m * 1.2e-7), so its cases
keep cond^2 * m * 1.2e-7 < 0.1 (cond <= 300 for m <= 8); float32 cases keep cond small for all three.
"""
from __future__ import annotations

import random

import numpy as np
import torch

from tjv.rt.aggs import gen_matrix
from ._aggb import eps_of, fail, np64, ok

RULE = ("'wellcond' matrices m x n (1 <= m <= n <= 8) with condition number in {1, 3, 30, 300, 1e3, 1e4} (Aligned-MTL <= "
        "300; float32 <= 30, Aligned-MTL float32 <= 10), scales 1e-6..1e6, float64 mostly; preference vectors: none, "
        "random positive in [0.1, 2], very unequal (1e-3..1e3 log-uniform), one-hot. distinct = (clause, matrix spec, "
        "preference). non-trivial: m >= 2 (zero clause: every shape)")
BOUNDS = "m <= n <= 8, cond <= 1e4, scale 1e-6..1e6; zero matrices 1..6 x 1..8"
EXHAUSTIVE = "zero matrices: all shapes 1..6 x 1..8 x {float32, float64}"

CONDS = [1.0, 3.0, 30.0, 300.0, 1e3, 1e4]
SCALES = [1e-6, 1e-3, 1.0, 1.0, 1e3, 1e6]


def _pref(kind, m, seed):
    if kind is None:
        return None
    r = random.Random(seed)
    if kind == "positive":
        return [r.uniform(0.1, 2.0) for _ in range(m)]
    if kind == "unequal":
        return [10.0 ** r.uniform(-3, 3) for _ in range(m)]
    if kind == "onehot":
        k = r.randrange(m)
        return [1.0 if i == k else 0.0 for i in range(m)]
    raise KeyError(kind)


def _spec(rng, max_cond, dtypes=("float64", "float64", "float64", "float32"), m_min=1):
    dtype = rng.choice(dtypes)
    m = rng.randint(m_min, 8)
    n = rng.randint(m, 8)
    conds = [c for c in CONDS if c <= (max_cond if dtype == "float64" else min(max_cond, 30.0))]
    return {"kind": "wellcond", "m": m, "n": n, "seed": rng.randrange(10**9), "cond": rng.choice(conds) if m > 1 else 1.0,
            "scale": rng.choice(SCALES), "dtype": dtype}


def cases(tier, seed, focus=None):
    rng = random.Random(1700 + seed)
    thorough = tier != "quick"
    k = 12 if thorough else 1
    out = []
    for _ in range(50 * k):
        out.append({"clause": "imtlg", "matrix": _spec(rng, 1e4)})
    for _ in range(40 * k):
        out.append({"clause": "config", "matrix": _spec(rng, 1e4)})
    for i in range(60 * k):
        out.append({"clause": "config_pref", "matrix": _spec(rng, 1e4, m_min=2),
                    "pref": ["positive", "unequal", "onehot"][i % 3], "pseed": rng.randrange(10**6)})
    for i in range(70 * k):
        s = _spec(rng, 300.0)
        if s["dtype"] == "float32":
            s["cond"] = min(s["cond"], 3.0) if s["m"] > 1 else 1.0
        out.append({"clause": "amtl", "matrix": s, "pref": [None, "positive", "unequal", "onehot"][i % 4],
                    "pseed": rng.randrange(10**6)})
    for m in range(1, 7):
        for n in range(1, 9):
            for dtype in (("float64", "float32") if thorough else (["float64", "float32"][(m + n) % 2],)):
                out.append({"clause": "zero", "m": m, "n": n, "dtype": dtype, "pseed": rng.randrange(10**6)})
    return out


def _svals(Jn):
    return np.linalg.svd(Jn, compute_uv=False)


def _imtlg(case, sig):
    from torchjd.aggregation import IMTLG

    J = gen_matrix(case["matrix"])
    m, n = J.shape
    eps = eps_of(J)
    agg = IMTLG()
    w = np64(agg.weighting(J))
    out = np64(agg(J))
    Jn = np64(J)
    s = _svals(Jn)
    cond = float(s[0] / s[-1])
    nontrivial = m >= 2
    c2 = 64 * (m + n) * cond**2 * eps
    sw = float(np.abs(w).sum())
    if not np.all(np.isfinite(w)) or abs(float(w.sum()) - 1.0) > 8 * m * eps * sw:
        return fail(sig, nontrivial, "C17.imtlg", "weights do not sum to 1", float(w.sum()), 1.0, weights=w)
    d = np.linalg.norm(Jn, axis=1)
    p = (Jn @ out) / d
    # magnitude of the terms summed in p_i: sum_k |w_k| |g_k . g_i| / |g_i|
    mag = (np.abs(Jn @ Jn.T) @ np.abs(w)) / d
    tol = c2 * float(mag.max()) + 1e-300
    if not (float(p.max() - p.min()) <= tol):  # (NaN-proof)
        return fail(sig, nontrivial, "C17.imtlg", "the projections of A(J) onto the row directions are not all equal", p,
                    "all equal", weights=w, tol=tol, cond=cond)
    return ok(sig, nontrivial)


def _config(case, sig):
    from torchjd.aggregation import ConFIG

    J = gen_matrix(case["matrix"])
    m, n = J.shape
    eps = eps_of(J)
    pv = _pref(case.get("pref"), m, case.get("pseed", 0))
    key = "C17.config" if pv is None else "C17.config_pref"
    agg = ConFIG() if pv is None else ConFIG(pref_vector=torch.tensor(pv, dtype=torch.float64).to(J.dtype))
    out = np64(agg(J))
    Jn = np64(J)
    p = np.ones(m) if pv is None else np64(torch.tensor(pv, dtype=torch.float64).to(J.dtype))
    d = np.linalg.norm(Jn, axis=1)
    U = Jn / d[:, None]
    su = _svals(U)
    condU = float(su[0] / su[-1])
    nontrivial = m >= 2
    nout = float(np.linalg.norm(out))
    if not np.all(np.isfinite(out)) or nout == 0.0:
        return fail(sig, nontrivial, key, "output is zero or not finite on a matrix with independent rows", out, "non-zero")
    c = (Jn @ out) / (d * nout)  # cosines
    s = float(c @ p) / float(p @ p)  # best positive factor: c = s p
    tol = 64 * (m + n) * condU * eps * abs(s) * float(np.linalg.norm(p)) + 1e-300
    if not (s > 0) or not (float(np.abs(c - s * p).max()) <= tol):
        what = ("the cosines between A(J) and the rows are not all equal and positive" if pv is None else
                "the cosines between A(J) and the rows are not proportional (positive factor) to the preference vector")
        return fail(sig, nontrivial, key, what, c, s * p, pref=p, tol=tol, condU=condU)
    if np.any((p > 0) & (s * p > tol) & (c <= 0)):
        return fail(sig, nontrivial, key, "a row with positive preference has a non-positive cosine", c, "positive")
    proj = float((Jn @ out).sum()) / nout  # sum of the projections of the rows on the direction of A(J)
    tol_len = 64 * (m + n) * eps * float(d.sum()) + 1e-300
    if not (abs(nout - proj) <= tol_len):
        return fail(sig, nontrivial, key, "|A(J)| differs from the sum of the projections of the rows on its direction",
                    nout, proj)
    return ok(sig, nontrivial)


def _amtl(case, sig):
    from torchjd.aggregation import AlignedMTL
    from torchjd.aggregation.aligned_mtl import _AlignedMTLWrapper

    J = gen_matrix(case["matrix"])
    m, n = J.shape
    eps = eps_of(J)
    pv = _pref(case.get("pref"), m, case.get("pseed", 0))
    pt = None if pv is None else torch.tensor(pv, dtype=torch.float64).to(J.dtype)
    agg = AlignedMTL() if pv is None else AlignedMTL(pref_vector=pt)
    out = np64(agg(J))
    B = np64(_AlignedMTLWrapper._compute_balance_transformation(J.T))
    Jn = np64(J)
    Uj, S, Vt = np.linalg.svd(Jn, full_matrices=False)
    smin, cond = float(S[-1]), float(S[0] / S[-1])
    assert cond**2 * m * 1.2e-7 < 0.1, "case generator must keep the numerical rank unambiguous"
    w = np.full(m, 1.0 / m) if pv is None else np64(pt)
    nontrivial = m >= 2
    c2 = 64 * (m + n) * cond**2 * eps
    R = B @ Jn
    RRt = R @ R.T
    if B.shape != (m, m) or float(np.abs(RRt - smin**2 * np.eye(m)).max()) > c2 * smin**2 + 1e-300:
        return fail(sig, nontrivial, "C17.amtl", "the re-balanced rows R = B J are not mutually orthogonal with norm "
                    "sigma_min(J)", RRt, smin**2 * np.eye(m), cond=cond)
    wn = float(np.abs(w).sum())
    tol = c2 * smin * wn + 1e-300
    if not (float(np.abs(out - w @ R).max()) <= tol):
        return fail(sig, nontrivial, "C17.amtl", "A(J) is not the preference-weighted combination of the re-balanced rows",
                    out, w @ R, pref=w)
    ref = smin * (w @ (Uj @ Vt))
    if not (float(np.abs(out - ref).max()) <= tol):
        return fail(sig, nontrivial, "C17.amtl", "A(J) differs from sigma_min * w^T (U V^T)", out, ref, pref=w, cond=cond)
    return ok(sig, nontrivial)


def _zero(case, sig):
    import torchjd.aggregation as A

    m, n = case["m"], case["n"]
    dtype = torch.float64 if case["dtype"] == "float64" else torch.float32
    J = torch.zeros(m, n, dtype=dtype)
    pv = torch.tensor(_pref("positive", m, case["pseed"]), dtype=torch.float64).to(dtype)
    oh = torch.tensor(_pref("onehot", m, case["pseed"]), dtype=torch.float64).to(dtype)
    aggs = [("IMTLG()", A.IMTLG()), ("ConFIG()", A.ConFIG()), ("ConFIG(pref)", A.ConFIG(pref_vector=pv)),
            ("ConFIG(onehot)", A.ConFIG(pref_vector=oh)), ("AlignedMTL()", A.AlignedMTL()),
            ("AlignedMTL(pref)", A.AlignedMTL(pref_vector=pv))]
    for name, agg in aggs:
        try:
            out = agg(J)
            err = None
        except Exception as e:  # the statement says it RETURNS the zero vector
            out, err = None, f"{type(e).__name__}: {str(e)[:80]}"
        if err or tuple(out.shape) != (n,) or out.dtype != dtype or not bool((out == 0).all()):
            return fail(sig, True, "C17.zero", f"{name} on the {m}x{n} zero matrix does not return the zero vector",
                        err or out, [0.0] * n)
    return ok(sig, True)


def run_case(case):
    sig = "|".join(f"{k}={case[k]}" for k in sorted(case))
    return {"imtlg": _imtlg, "config": _config, "config_pref": _config, "amtl": _amtl, "zero": _zero}[case["clause"]](case, sig)
