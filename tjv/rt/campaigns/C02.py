"""C02 [B]: mtl_backward() — own-task gradients for the heads, aggregated Jacobian for the trunk.

Executable rendering of `C02.mtl.post` on the real mtl_backward(): the .grad difference of every leaf of a random
trunk/heads program is compared with an oracle computed on a twin graph by one torch.autograd.grad call per loss.
"""
from __future__ import annotations

import random

import torch

from tjv.rt import gen
from tjv.rt.aggs import make_agg
from ._autojac import (AGG_TOL, SHARED_MODES, TASKS_MODES, mtl_kwargs, mtl_reference, mtl_restrict, selection_ambiguous,
                       set_pregrads)

RULE = ("random trunk/heads programs (gen.build_mtl: 1..3 shared params, dense or sparse trunk producing 1..3 "
        "features of any shape, 1..4 heads with own / overlapping / empty parameter groups, a leaf not requiring "
        "grad and an unused leaf) x row-order-sensitive aggregator (Constant distinct/signed, Krum, GradDrop(leak) "
        "under a fixed seed, UPGrad(pref_vector)) + Mean x chunk size x explicit/defaulted/tuple/one-shot-iterator/"
        "generator/dict-keys parameter containers x WHICH parameters are listed (shared: all / an explicitly EMPTY "
        "container = frozen trunk / a strict subset; tasks: as generated / every task empty / the first, the last or a "
        "random set of positions listing zero parameters / random subsets; the product includes 'everything empty' and "
        "'empty shared with defaulted tasks'; unlisted parameters must stay untouched) x single-tensor or list "
        "`features` x pre-existing .grad x dtype x (every 7th case) the same loss tensor listed twice. "
        "Oracle: per-loss torch.autograd.grad on a twin graph: task params get the sum over the tasks listing them, "
        "shared params the slices of A(J), row i = d losses[i]/d shared. distinct = (program trace, aggregator, "
        "chunk, containers, listing); non-trivial = J has >=2 pairwise different non-zero rows (a permutation of "
        "the tasks is visible) and >=2 columns, or - when no shared parameter is listed - >=2 task parameters have "
        "a non-zero expected update")
BOUNDS = "<=3 shared params, <=3 features, <=4 tasks, <=3 params per task, tensor dims <=4 of size <=3"
EXHAUSTIVE = ""

AGGS = [
    {"name": "Constant", "kind": "distinct"},
    {"name": "Constant", "kind": "signed", "wseed": 5},
    {"name": "Krum", "f": 0, "k": 2},
    {"name": "Krum", "f": 1, "k": 2},
    {"name": "GradDrop", "leak": "rand", "wseed": 7},
    {"name": "UPGrad", "pref": "distinct"},
    {"name": "UPGrad", "pref": "withzero"},
    {"name": "Mean"},
]
CONTAINERS = ["list", "list", "default", "tuple", "iter", "gen", "dictkeys"]


def cases(tier, seed, focus=None):
    n = 200 if tier == "quick" else 5000
    n_list = 120 if tier == "quick" else 2500  # cases that edit WHICH parameters are listed (own random stream)
    rng = random.Random(3000 + seed)
    for i in range(n + n_list):
        if i == n:
            rng = random.Random(30300 + seed)
        agg = AGGS[i % len(AGGS)]
        lo = 1
        if agg["name"] == "Krum":
            lo = agg["f"] + 3
        n_tasks = rng.randint(lo, 4)
        tp, sp = rng.choice(CONTAINERS), rng.choice(CONTAINERS)
        if agg["name"] == "GradDrop" and sp == "default":
            sp = "list"  # GradDrop draws one random number per COLUMN: the column order must be the oracle's
        if i % 10 == 0:  # regression family of finding F3: everything given as one-shot iterables
            tp, sp = rng.choice(["iter", "gen"]), rng.choice(["iter", "gen"])
        case = {
            "prog": {"seed": rng.randrange(10**9), "n_shared": rng.randint(1, 3), "n_features": rng.randint(1, 3),
                     "n_tasks": n_tasks, "dtype": rng.choice(["float64", "float64", "float32"]),
                     "overlap": rng.random() < 0.6, "empty_task": rng.random() < 0.6, "feat_shapes": "any",
                     "trunk": rng.choice(["dense", "sparse"])},
            "agg": agg,
            "chunk": rng.choice([None, 1, 2, "R", "R+1"]),
            "tp": tp, "sp": sp, "feat": rng.choice(["list", "tuple", "single"]),
            "pre": rng.choice(["none", "some", "all"]),
            "pre_seed": rng.randrange(10**6),
            "retain": rng.random() < 0.3,
        }
        if i >= n:
            # which parameters are listed: every mode of both axes is hit in the quick tier, including 'everything
            # empty' and 'explicitly empty shared list with defaulted tasks'; a defaulted axis cannot be edited
            j = i - n
            smode = SHARED_MODES[j % len(SHARED_MODES)]
            tmode = TASKS_MODES[(j // len(SHARED_MODES)) % len(TASKS_MODES)]
            if smode == "all" and tmode == "asis":
                tmode = rng.choice(TASKS_MODES[1:])
            explicit = ["list", "list", "tuple", "iter", "gen", "dictkeys"]
            if sp == "default" and smode != "all":
                sp = rng.choice(explicit)
            if tp == "default" and tmode != "asis" and not (smode == "empty" and rng.random() < 0.5):
                tp = rng.choice(explicit)
            if tp == "default":
                tmode = "asis"
            case.update(tp=tp, sp=sp, smode=smode, tmode=tmode)
        if i % 7 == 3:
            # the SAME loss tensor listed twice (up-weighting a task under Mean / UPGrad): two tasks, two rows of the Jacobian, its
            # parameters updated by both occurrences; the graph is differentiated once per occurrence, so it must be retained
            case["dup_loss"] = True
            case["retain"] = True
        yield case


def _call(case, prog, tp, sp):
    from torchjd import mtl_backward

    t = len(prog.losses)
    dtype = prog.losses[0].dtype
    chunk = {"R": t, "R+1": t + 1}.get(case["chunk"], case["chunk"])
    agg = make_agg(case["agg"], t, dtype)
    hooked = case.get("sel_seed", 0) % 3 == 0
    if hooked and agg is not None:
        # the aggregator is CALLED (nn.Module: forward hooks included): the same hook is registered on the oracle's instance
        agg.register_forward_hook(lambda mod, inp, out: out * 0.5)
    torch.manual_seed(case["pre_seed"])
    mtl_backward(aggregator=agg, retain_graph=case["retain"], parallel_chunk_size=chunk,
                 **mtl_kwargs(prog, tp, sp, case["feat"]))


def _compare(case, p1, p2, tp, sp, info=None):
    """Run the real call on p1, the oracle on p2; returns (failure dict or None, J).  ``info`` (a dict) receives
    'task_updates': the number of listed task parameters whose expected update is non-zero."""
    t = len(p1.losses)
    dtype = p1.losses[0].dtype
    for p in (p1, p2):
        set_pregrads(p.all_leaves(), case["pre_seed"], case["pre"])
    before = [None if x.grad is None else x.grad.clone() for x in p2.all_leaves()]
    try:
        _call(case, p1, tp, sp)
    except Exception as e:  # a valid call must be accepted
        return {"key": "C02.raises", "what": f"valid mtl_backward call raised {type(e).__name__}: {str(e)[:150]}",
                "observed": "exception", "expected": "success"}, None
    torch.manual_seed(case["pre_seed"])
    agg2 = make_agg(case["agg"], t, dtype)
    hooked = case.get("sel_seed", 0) % 3 == 0
    if hooked and agg2 is not None:
        agg2.register_forward_hook(lambda mod, inp, out: out * 0.5)
    J, upd = mtl_reference(p2, agg2)
    if info is not None:
        shared_now = {id(s) for s in p2.shared}
        info["task_updates"] = sum(1 for k, u in upd.items() if k not in shared_now and bool((u != 0).any()))
    if J.shape[1] > 0 and selection_ambiguous(case["agg"], J):  # ties are excluded: the selected rows depend on rounding
        return None, None
    rtol, atol = AGG_TOL.get(case["agg"]["name"], gen.tol(dtype))
    if dtype == torch.float32:
        rtol, atol = max(rtol, 3e-4), max(atol, 3e-4)
    scale = max(1.0, float(J.abs().max())) if J.numel() else 1.0
    atol *= scale
    # shared params that no feature depends on are not discovered by the default
    reach = torch.autograd.grad([f.sum() for f in p2.features], p2.shared, retain_graph=True,
                                allow_unused=True) if p2.shared else []
    unreachable = {id(s) for s, g in zip(p2.shared, reach) if g is None}
    shared_ids = {id(s) for s in p2.shared}
    for li, (x1, x2) in enumerate(zip(p1.all_leaves(), p2.all_leaves())):
        pre = before[li]
        if id(x2) in upd and not (sp == "default" and id(x2) in unreachable):
            want = upd[id(x2)] if pre is None else pre + upd[id(x2)]
            if x1.grad is None or not gen.close(x1.grad, want, rtol, atol):
                is_shared = id(x2) in shared_ids
                return {"key": "C02.shared" if is_shared else "C02.task_params",
                        "what": (f"shared leaf {li}: .grad differs from pre + slice of A(J), row i = d losses[i]/d shared"
                                 if is_shared else
                                 f"task leaf {li}: .grad differs from pre + sum over listing tasks of d loss_i/d p"),
                        "observed": None if x1.grad is None else x1.grad.tolist(), "expected": want.tolist(),
                        "J_ref": J.tolist()}, J
        else:
            same = (x1.grad is None and pre is None) or (
                x1.grad is not None and pre is not None and torch.equal(x1.grad, pre))
            if not same:
                return {"key": "C02.frame", "what": f"leaf {li} is no parameter of the call but its .grad changed",
                        "observed": None if x1.grad is None else x1.grad.tolist(),
                        "expected": None if pre is None else pre.tolist()}, J
    return None, J


def _programs(case):
    """Twin programs with the case's edit of the listed parameters applied to both."""
    ps = gen.build_mtl(case["prog"]), gen.build_mtl(case["prog"])
    tp, sp = case["tp"], case["sp"]
    smode = case.get("smode", "all") if sp != "default" else "all"  # a defaulted list cannot be edited
    tmode = case.get("tmode", "asis") if tp != "default" else "asis"
    for p in ps:
        mtl_restrict(p, smode, tmode, case["pre_seed"])
        if case.get("dup_loss"):
            r = random.Random(case["pre_seed"])
            j, pos = r.randrange(len(p.losses)), r.randrange(len(p.losses) + 1)
            p.losses.insert(pos, p.losses[j])
            p.tasks_params.insert(pos, list(p.tasks_params[j]))
            p.desc.append(f"DUPLOSS{j}@{pos}")
    return ps


def run_case(case):
    p1, p2 = _programs(case)
    tp, sp = case["tp"], case["sp"]
    sig = ("|".join(p1.desc) + f"|{case['agg']}|{case['chunk']}|{tp}|{sp}|{case['feat']}|{case['pre']}"
           f"|{case.get('smode', 'all')}|{case.get('tmode', 'asis')}")
    if make_agg(case["agg"], len(p1.losses), p1.losses[0].dtype) is None:
        return {"ok": True, "sig": sig, "nontrivial": False, "note": "row requirement not met"}
    info = {}
    fail, J = _compare(case, p1, p2, tp, sp, info)
    nontrivial = False
    if J is not None and J.shape[1] == 0:  # no shared parameter listed: the task-specific part is all there is
        nontrivial = info.get("task_updates", 0) >= 2
    elif J is not None and J.shape[0] >= 2 and J.shape[1] >= 2:
        rows = [J[i] for i in range(J.shape[0])]
        nontrivial = all(bool((r != 0).any()) for r in rows) and all(
            not torch.equal(rows[i], rows[j]) for i in range(len(rows)) for j in range(i))
    if fail is None:
        return {"ok": True, "sig": sig, "nontrivial": nontrivial}
    one_shot = {"iter", "gen"}
    if tp in one_shot or sp in one_shot:
        # is the failure caused by the container kind?  same case with plain lists on fresh twins
        q1, q2 = _programs(case)
        tp2 = "list" if tp in one_shot else tp
        sp2 = "list" if sp in one_shot else sp
        fail2, _ = _compare(case, q1, q2, tp2, sp2)
        if fail2 is None:
            fail = dict(fail, key="C02.iterables",
                        what="one-shot iterables as parameter lists change the result (lists give the right one): "
                             + fail["what"])
    return dict({"ok": False, "sig": sig, "nontrivial": nontrivial}, **fail)
