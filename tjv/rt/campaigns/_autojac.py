"""Shared pieces of the autojac campaigns (C01, C05, C06, C07, C13, C20)."""
from __future__ import annotations

import random

import torch

from tjv.rt import gen
from tjv.rt.aggs import make_agg


def choose_inputs(prog: gen.Program, sel_seed: int, mode: str):
    """Deterministic selection of inputs among the grad leaves: returns index list (an order)."""
    rng = random.Random(sel_seed)
    idx = list(range(len(prog.grad_leaves)))
    if mode == "all":
        pass
    elif mode == "subset":
        k = rng.randint(1, len(idx))
        idx = rng.sample(idx, k)
    rng.shuffle(idx)
    return idx


def set_pregrads(leaves, pre_seed: int, mode: str):
    """mode: none | all | some.  Same content on twin programs because it only depends on the seed."""
    if mode == "none":
        return
    rng = random.Random(pre_seed)
    for t in leaves:
        if not t.requires_grad:
            continue
        if mode == "all" or rng.random() < 0.5:
            vals = [rng.uniform(-3, 3) for _ in range(max(1, t.numel()))]
            t.grad = torch.tensor(vals[: t.numel()], dtype=t.dtype).reshape(t.shape)


def n_rows(outputs) -> int:
    return sum(o.numel() for o in outputs)


def expected_update(prog2: gen.Program, idx, agg):
    """Oracle on the twin: aggregate the reference Jacobian, split by an independent layout."""
    inputs2 = [prog2.grad_leaves[i] for i in idx]
    J = gen.ref_jacobian(prog2.outputs, inputs2)
    v = agg(J)
    return J, gen.split_like(v, inputs2)


AGG_TOL = {"UPGrad": (2e-5, 2e-6), "DualProj": (2e-5, 2e-6), "MGDA": (1e-6, 1e-7), "Krum": (1e-9, 1e-9)}
