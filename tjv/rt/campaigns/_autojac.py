"""Shared pieces of the autojac campaigns (C01, C05, C06, C07, C13, C20)."""
from __future__ import annotations

import random

import torch

from tjv.rt import gen
from tjv.rt.aggs import make_agg


def choose_inputs(prog: gen.Program, sel_seed: int, mode: str):
    """Deterministic selection of inputs among the grad leaves: returns index list (an order)."""
    rng = random.Random(sel_seed)
    idx = list(range(len(prog.grad_leaves)))
    if mode == "all":
        pass
    elif mode == "subset":
        k = rng.randint(1, len(idx))
        idx = rng.sample(idx, k)
    rng.shuffle(idx)
    return idx


def set_pregrads(leaves, pre_seed: int, mode: str, scale: float = 1.0):
    """mode: none | all | some | zeros (every leaf requiring grad gets an exactly zero .grad, as after
    zero_grad(set_to_none=False)).  ``scale`` multiplies the content (uniform(-3, 3) * scale): pre-existing gradients
    of the magnitude of a tiny / huge update, so that the increase stays observable in the dtype.  Same content on
    twin programs because it only depends on the arguments."""
    if mode == "none":
        return
    rng = random.Random(pre_seed)
    lay = random.Random(pre_seed ^ 0x5BD1E995)  # separate stream: the layout of an existing .grad never changes its content
    for t in leaves:
        if not t.requires_grad:
            continue
        if mode in ("all", "zeros") or rng.random() < 0.5:
            vals = [rng.uniform(-3, 3) * scale for _ in range(max(1, t.numel()))]
            g = torch.tensor(vals[: t.numel()], dtype=t.dtype).reshape(t.shape)
            g = torch.zeros_like(g) if mode == "zeros" else g
            if lay.random() < 0.3 and t.numel() >= 2:
                # a NON-CONTIGUOUS existing .grad (as left by torch for channels_last weights, or installed by the user as a
                # strided view of a flat gradient buffer): same values, every other element of a twice larger buffer
                if t.dim() >= 2 and lay.random() < 0.5:
                    # permuted storage (e.g. the .grad torch leaves for a transposed / channels_last parameter): no flat view
                    # of it exists, so reshape(-1) / view(-1) of it has to COPY
                    perm = list(range(t.dim()))[::-1]
                    store = torch.zeros([t.shape[i] for i in perm], dtype=t.dtype)
                    view = store.permute(*perm)
                else:
                    big = torch.zeros(tuple(t.shape) + (2,), dtype=t.dtype)
                    view = big[..., 0]
                view.copy_(g)
                g = view
            t.grad = g


def n_rows(outputs) -> int:
    return sum(o.numel() for o in outputs)


def expected_update(prog2: gen.Program, idx, agg):
    """Oracle on the twin: aggregate the reference Jacobian, split by an independent layout."""
    inputs2 = [prog2.grad_leaves[i] for i in idx]
    J = gen.ref_jacobian(prog2.outputs, inputs2)
    v = agg(J)
    return J, gen.split_like(v, inputs2)


def reach_scales(J: torch.Tensor, inputs) -> list:
    """Per input (a block of columns of J, in the order of ``inputs``): the magnitude max_i max_j |J[i, j]| over the
    rows i that reach the input at all (J[i, block] != 0), 0.0 when no row does.  Rounding errors of a backward pass
    are relative to the magnitude of the cotangents of that pass, i.e. of the row; an input only reached by rows of
    magnitude s must therefore be updated with an error relative to s (and not to the largest row of J)."""
    res, start = [], 0
    rowmag = J.abs().amax(dim=1) if J.numel() else torch.zeros(J.shape[0], dtype=J.dtype)
    for inp in inputs:
        n = inp.numel()
        block = J[:, start:start + n]
        reach = (block != 0).any(dim=1) if n else torch.zeros(J.shape[0], dtype=torch.bool)
        res.append(float(rowmag[reach].max()) if bool(reach.any()) else 0.0)
        start += n
    return res


def increase_ok(after, pre, upd, rtol: float, atol: float, scale: float) -> bool:
    """Is ``after`` = (pre or nothing) + upd?  The INCREASE after - pre is compared with upd, entrywise, within
    rtol * |upd| + atol * scale (scale: magnitude of the Jacobian rows reaching this input, see reach_scales) plus the
    rounding of the addition into the pre-existing value and of the subtraction (4 eps (|pre| + |upd|)): a tiny
    update must be visible in .grad as far as the dtype can show it, whatever the magnitude of the other updates."""
    if after is None or after.shape != upd.shape:
        return False
    eps = torch.finfo(upd.dtype).eps
    inc = after if pre is None else after - pre
    bound = rtol * upd.abs() + atol * scale + 4.0 * eps * (upd.abs() + (0.0 if pre is None else pre.abs()))
    err = (inc - upd).abs()
    return bool((err <= bound).all()) and not bool(torch.isnan(err).any())


AGG_TOL = {"UPGrad": (2e-5, 2e-6), "DualProj": (2e-5, 2e-6), "MGDA": (1e-6, 1e-7), "Krum": (1e-9, 1e-9)}


# ----------------------------------------------------------------------------- state snapshots (C06, C13, C20)


def _grad_of(t):
    import warnings

    with warnings.catch_warnings():  # reading .grad of a non-leaf warns
        warnings.simplefilter("ignore")
        return t.grad


def full_state(tensors) -> list:
    """Per tensor: dict(data clone, data_ptr, version, grad object id / clone / version / storage ptr)."""
    res = []
    for t in tensors:
        g = _grad_of(t)
        res.append({
            "data": t.detach().clone(),
            "ptr": t.data_ptr(),
            "ver": t._version,
            "gid": None if g is None else id(g),
            "g": None if g is None else g.detach().clone(),
            "gver": None if g is None else g._version,
            "gptr": None if g is None else g.data_ptr(),
        })
    return res


def state_changes(before: list, after: list, bitwise_grad: bool = True) -> list:
    """List of (index, what) for every observable difference between two full_state() snapshots."""
    out = []
    for i, (b, a) in enumerate(zip(before, after)):
        if a["ptr"] != b["ptr"]:
            out.append((i, "data_ptr"))
        if a["ver"] != b["ver"]:
            out.append((i, "_version"))
        if not _same(a["data"], b["data"]):
            out.append((i, "data"))
        if (a["g"] is None) != (b["g"] is None):
            out.append((i, "grad None-ness"))
        elif a["g"] is not None:
            if not _same(a["g"], b["g"]):
                out.append((i, "grad value"))
            elif bitwise_grad and (a["gid"] != b["gid"] or a["gver"] != b["gver"] or a["gptr"] != b["gptr"]):
                out.append((i, "grad object/version"))
    return out


def _same(x, y) -> bool:
    if x.shape != y.shape or x.dtype != y.dtype:
        return False
    return bool(torch.equal(x, y) or (torch.isnan(x) == torch.isnan(y)).all() and torch.equal(
        torch.nan_to_num(x), torch.nan_to_num(y)))


def storage_range(t) -> tuple:
    """[begin, end) byte range of the storage backing t (empty storages give begin == end)."""
    s = t.untyped_storage()
    return (s.data_ptr(), s.data_ptr() + s.nbytes())


def overlaps(r1, r2) -> bool:
    return r1[0] < r2[1] and r2[0] < r1[1] and r1[0] != r1[1] and r2[0] != r2[1]


# ----------------------------------------------------------------------------- mtl helpers (C02, C05, C06, C13, C20)


def as_container(lst, how: str):
    """Present a list of tensors as another Iterable kind."""
    if how == "list":
        return list(lst)
    if how == "tuple":
        return tuple(lst)
    if how == "iter":
        return iter(list(lst))
    if how == "gen":
        return (t for t in list(lst))
    if how == "dictkeys":  # insertion-ordered, re-iterable, not a Sequence
        return {t: None for t in lst}.keys()
    raise KeyError(how)


def mtl_kwargs(prog: gen.MTLProgram, tp: str = "list", sp: str = "list", feat: str = "list") -> dict:
    """Valid keyword arguments of mtl_backward for a gen.build_mtl program.
    tp / sp: 'default' (argument omitted) or a container kind of as_container;  feat: 'list' | 'tuple' |
    'single' (the bare tensor, only when there is one feature)."""
    kw = {"losses": list(prog.losses)}
    if feat == "single" and len(prog.features) == 1:
        kw["features"] = prog.features[0]
    elif feat == "tuple":
        kw["features"] = tuple(prog.features)
    else:
        kw["features"] = list(prog.features)
    if tp != "default":
        outer = [as_container(g, tp) for g in prog.tasks_params]
        kw["tasks_params"] = tuple(outer) if tp == "tuple" else outer
    if sp != "default":
        kw["shared_params"] = as_container(prog.shared, sp)
    return kw


def mtl_reference(prog2: gen.MTLProgram, agg):
    """Oracle on the twin: (J over shared params with row i = d losses[i] / d shared, dict id(param) -> update)
    using one torch.autograd.grad call per loss."""
    upd = {}
    rows = []
    for i, loss in enumerate(prog2.losses):
        if prog2.shared:
            gs = torch.autograd.grad(loss, prog2.shared, retain_graph=True, allow_unused=True)
            rows.append(torch.cat([(g if g is not None else torch.zeros_like(s)).reshape(-1)
                                   for g, s in zip(gs, prog2.shared)]))
        else:  # no shared parameter listed: the Jacobian has no column, nothing is aggregated
            rows.append(torch.zeros(0, dtype=loss.dtype))
        own = prog2.tasks_params[i]
        if own:
            go = torch.autograd.grad(loss, own, retain_graph=True, allow_unused=True)
            for p, g in zip(own, go):
                g = g if g is not None else torch.zeros_like(p)
                upd[id(p)] = upd[id(p)] + g if id(p) in upd else g.clone()
    J = torch.stack(rows)
    if J.shape[1] == 0:
        return J, upd
    v = agg(J)
    for s, u in zip(prog2.shared, gen.split_like(v, prog2.shared)):
        upd[id(s)] = u
    return J, upd


SHARED_MODES = ["all", "empty", "subset"]
TASKS_MODES = ["asis", "all_empty", "first_empty", "last_empty", "some_empty", "subsets"]


def mtl_restrict(prog: gen.MTLProgram, shared_mode: str, tasks_mode: str, seed: int) -> None:
    """Edit IN PLACE which parameters of a gen.build_mtl program are LISTED in the call (deterministic in the
    arguments, so twins get the same edit).  The graph is unchanged; a parameter that is no longer listed anywhere
    is moved to ``other_leaves``: it still influences the losses but must not be touched.
    shared_mode: 'all' | 'empty' (shared_params is an explicitly empty container: frozen trunk) | 'subset' (a strict
    non-empty subset, order kept; with one shared parameter this is 'all').
    tasks_mode: 'asis' | 'all_empty' (every task lists zero parameters) | 'first_empty' | 'last_empty' | 'some_empty'
    (a random non-empty set of positions lists zero parameters) | 'subsets' (every task lists a random, possibly
    empty, subset of its parameters)."""
    rng = random.Random(seed * 7919 + 13)
    before = prog.shared + [p for tp in prog.tasks_params for p in tp]
    if shared_mode == "empty":
        prog.shared = []
    elif shared_mode == "subset" and len(prog.shared) >= 2:
        k = rng.randint(1, len(prog.shared) - 1)
        keep = sorted(rng.sample(range(len(prog.shared)), k))
        prog.shared = [prog.shared[i] for i in keep]
    elif shared_mode not in ("all", "subset"):
        raise KeyError(shared_mode)
    t = len(prog.tasks_params)
    if tasks_mode == "all_empty":
        drop = set(range(t))
    elif tasks_mode == "first_empty":
        drop = {0}
    elif tasks_mode == "last_empty":
        drop = {t - 1}
    elif tasks_mode == "some_empty":
        drop = set(rng.sample(range(t), rng.randint(1, t)))
    elif tasks_mode in ("asis", "subsets"):
        drop = set()
    else:
        raise KeyError(tasks_mode)
    new = []
    for i, own in enumerate(prog.tasks_params):
        if i in drop:
            new.append([])
        elif tasks_mode == "subsets":
            new.append([p for p in own if rng.random() < 0.6])
        else:
            new.append(list(own))
    prog.tasks_params = new
    listed = {id(p) for p in prog.shared} | {id(p) for tp in prog.tasks_params for p in tp}
    seen = {id(p) for p in prog.other_leaves}
    for p in before:
        if id(p) not in listed and id(p) not in seen:
            seen.add(id(p))
            prog.other_leaves.append(p)


def mtl_all_tensors(prog: gen.MTLProgram) -> list:
    """Every tensor of an MTL program whose state is observed (leaves first, then features and losses)."""
    return prog.all_leaves() + list(prog.features) + list(prog.losses)


# ----------------------------------------------------------------------------- ties (excluded by the properties)


def selection_ambiguous(agg_spec: dict, J: torch.Tensor) -> bool:
    """True when the aggregator's result on J is decided by a tie (or a near-tie at rounding level), so that two
    Jacobians equal up to rounding may legitimately give different results.  Only Krum selects rows by comparing
    scores: with n - f - 2 == 1 neighbours the two closest rows ALWAYS have the same score (their mutual distance),
    so n_selected == 1 is a structural tie there.  Scores as in Blanchard et al. (sum of the distances to the
    n - f - 2 closest other rows), computed independently of torchjd in float64."""
    if agg_spec.get("name") != "Krum":
        return False
    f, k = agg_spec.get("f", 0), agg_spec.get("k", 1)
    M = J.detach().to(torch.float64)
    m = M.shape[0]
    if k >= m:
        return False
    D = torch.cdist(M, M, compute_mode="donot_use_mm_for_euclid_dist")
    n_closest = m - f - 2
    scores = []
    for i in range(m):
        others = sorted(float(D[i, j]) for j in range(m) if j != i)
        scores.append(sum(others[:n_closest]))
    s = sorted(scores)
    gap = s[k] - s[k - 1]
    rel = 1e-6 if J.dtype == torch.float64 else 1e-3
    return gap <= rel * max(1.0, s[k])
