"""C08 [B]: weighted aggregators stay in the row span and only look at the Gramian; column layout is irrelevant.

Finding keys:
  C08.span        every weighted aggregator (and ConFIG): A(J) = weighting(J) @ J and the residual of the least-squares
                  projection of A(J) onto the row space of J is zero up to rounding (matrices with rank < n).
  C08.orthogonal  A(J Q) = A(J) Q for Haar-random orthogonal Q (float64): UPGrad, DualProj, MGDA, PCGrad (fixed seed),
                  CAGrad, IMTLG, AlignedMTL, ConFIG, Krum, Mean, Sum, Constant, Random (fixed seed).
  C08.colperm     A(J[:, p]) = A(J)[p] for column permutations p: the same list + TrimmedMean + NashMTL (fresh instance).
  C08.zerocol     inserting all-zero columns anywhere: the other coordinates are unchanged, the new ones are zero.

Tolerances (relative to S = sum_i |w_i| |g_i| for weighted aggregators, |A(J)| + sigma_max(J) otherwise), from the
mathematics of each aggregator: closed-form weights independent of the columns (Mean, Sum, Constant, Random, Krum away
from score ties, TrimmedMean) 64 (m+n) eps; PCGrad (piecewise-linear, non-expansive projections on Gramian entries)
1e-10; IMTLG / AlignedMTL 64 (m+n) cond^2 eps and ConFIG 64 (m+n) cond eps (pinv / eigh of the Gramian resp. of the
unit rows); UPGrad / DualProj 1e-7 (exact active-set QP on a Gramian regularised by reg_eps = 1e-4: Lipschitz constant
1/reg_eps); MGDA 1e-6 (Frank-Wolfe iterates on generic inputs, no argmin ties); CAGrad 1e-3 (CLARABEL stops at gap
1e-8 on a problem whose reduced coordinates depend on SVD signs: argmin accuracy ~ sqrt(gap)).
NashMTL: NO tolerance can be derived for two runs on differently ROUNDED Gramians.  Its outer loop runs <= 20 linearised
ECOS solves and stops on |G a - 1/a| < 1e-3 evaluated on the Frobenius-normalised Gramian (not the fixed-point equation of
the problem it solves), so the returned weights are not a converged quantity and the number of iterations can change with
rounding-level changes of J J^T (measured on the unchanged tree: 1e-2 relative under a column permutation of a 6x4
matrix, 3e-3 under 20000 zero columns next to a 5x5 matrix of condition number 30).  For the colperm / zerocol clauses
NashMTL is therefore run ONLY on small-integer matrices times a power of two ('ints'): every product and partial sum of
J J^T is exact in any summation order / blocking, so the solver sees bit-identical input whatever the column layout and
the closed-form tolerance 64 (m+n) eps applies (only the final combination w @ J is rounded).  The span clause uses one
input only and keeps all families.
GradDrop is random per column and hence outside "every deterministic aggregator".
None of these tolerances depends on the number of inserted zero columns, on the basis (Q) or on the scale.

Families added for the thresholds of the code under test (everything an aggregator compares against a constant must be
a function of J J^T and must not depend on the layout):
  'thr'   (orthogonal) wide matrices, n in {16, 32, 64}, with conflicting rows, rescaled so that the largest singular
          value is threshold * 10^U(-1, 2.5) (half of the cases: 10^U(-0.3, 0.7)) for threshold in {norm_eps, 100
          norm_eps}, norm_eps as configured in {1e-6, 1e-4, 1e-2} for UPGrad / DualProj / CAGrad: around the guard of
          the normalised Gramian and where every ENTRY is below it while sigma_max is above; Q is Haar or a Householder
          reflection that maps a row of J onto a coordinate axis (concentrates the row in one entry) or the first axis
          onto a random direction (see `_q`).  Cases with |sigma_max/norm_eps - 1| <= 64 (m+n) eps are outside (the
          guard may fall on either side by rounding).
  'wide'  (all transformation clauses) scale log-uniform over 1e-12..1e12.
  'many'  (zerocol) 300 / 3000 / 20000 zero columns appended, prepended or split around the matrix, condition numbers
          up to 100 for the pinv/eigh based aggregators: no tolerance inside the code may grow with the column count.
"""
from __future__ import annotations

import itertools
import random

import numpy as np
import torch

from tjv.rt.aggs import gen_matrix, make_agg
from ._aggb import eps_of, fail, np64, ok
from .C16 import krum_scores

RULE = ("aggregator x matrix family (gauss, nonconflict, rowscales over 2 decades, lowrank for the span clause; "
        "'wellcond' cond <= 30 with m <= n for the pinv/eigh based IMTLG, AlignedMTL, ConFIG; for IMTLG also float32 'wellcond' + one exactly duplicated row) x transformation "
        "(Haar-random orthogonal Q from the QR of a Gaussian matrix with sign fix; column permutation; insertion of 1-3 "
        "zero columns at the start / inside / at the end) + the threshold families: orthogonal on wide (n <= 64) "
        "conflicting matrices with sigma_max around norm_eps and 100 norm_eps under Haar and row-concentrating "
        "Householder Q; scales log-uniform over 1e-12..1e12; 300..20000 inserted zero columns. PCGrad, Random: torch.manual_seed(case seed) before every "
        "call; NashMTL: a fresh instance per call, and in colperm / zerocol only small-integer matrices x 2^k whose Gramian "
        "is exact in every summation order (bit-identical solver input; no tolerance is derivable for its truncated "
        "iteration under rounding-level changes of J J^T); Krum: cases whose selection is within 1e-6 of a score tie are "
        "trivial. distinct = (clause, aggregator spec, matrix spec, transformation). non-trivial: m >= 2, n >= 2, "
        "non-zero matrix, transformation not the identity (span: rank < n)")
BOUNDS = "m <= 6 rows, n <= 8 columns (threshold family n <= 64; <= 20000 inserted zero columns), float64 (float32 for the closed-form aggregators in colperm / zerocol)"
EXHAUSTIVE = "thorough: all column permutations for n = 2..5 (2 + 6 + 24 + 120) for every aggregator of the list"

PREF = {"rand": 5}
GRAM_AGGS = [
    {"name": "UPGrad"}, {"name": "UPGrad", "pref": PREF}, {"name": "DualProj"}, {"name": "DualProj", "pref": PREF},
    {"name": "MGDA"}, {"name": "PCGrad"}, {"name": "CAGrad", "c": 0.5}, {"name": "IMTLG"}, {"name": "AlignedMTL"},
    {"name": "AlignedMTL", "pref": PREF}, {"name": "ConFIG"}, {"name": "ConFIG", "pref": PREF},
    {"name": "Krum", "f": 1, "k": 2}, {"name": "Mean"}, {"name": "Sum"}, {"name": "Constant", "kind": "signed", "wseed": 3},
    {"name": "Random"},
]
LAYOUT_AGGS = GRAM_AGGS + [{"name": "TrimmedMean", "b": 1}, {"name": "NashMTL"}]
SPAN_AGGS = [a for a in GRAM_AGGS] + [{"name": "NashMTL"}]
PINV_BASED = {"IMTLG", "AlignedMTL", "ConFIG"}
CLOSED = {"Mean", "Sum", "Constant", "Random", "Krum", "TrimmedMean"}


def _wide_scale(rng):
    return 10.0 ** rng.uniform(-12, 12)


def _thr_spec(rng, agg):
    """Wide matrix with conflicting rows whose largest singular value lies around a threshold of the code."""
    name = agg["name"]
    m_min = 4 if name == "Krum" else 2
    n = rng.choice([16, 32, 64])
    # the guard of the aggregator itself when it has one (norm_eps, as configured), else the default constants
    thr = agg["norm_eps"] * rng.choice([1.0, 1.0, 1.0, 100.0]) if "norm_eps" in agg else rng.choice([1e-4, 1e-4, 1e-2])
    # half of the cases within [thr/2, 5 thr]: with n >= 16 columns every entry is below thr while sigma_max is not
    smax = thr * 10.0 ** (rng.uniform(-0.3, 0.7) if rng.random() < 0.5 else rng.uniform(-1.0, 2.5))
    if name in PINV_BASED:
        return {"kind": "wellcond", "m": rng.randint(2, 5), "n": n, "seed": rng.randrange(10**9),
                "cond": rng.choice([1.0, 3.0, 30.0]), "smax": smax, "dtype": "float64"}
    return {"kind": rng.choice(["antiparallel", "stationary", "gauss", "imbstationary"]), "m": rng.randint(m_min, 6),
            "n": n, "seed": rng.randrange(10**9), "smax": smax, "dtype": "float64"}


def _matrix_spec(rng, agg, clause, n_fixed=None, wide=False, cond=None):
    spec = _matrix_spec0(rng, agg, clause, n_fixed)
    if wide:
        # 'ints' (NashMTL): a power of two keeps the Gramian exact
        spec["scale"] = 2.0 ** rng.randint(-40, 40) if spec["kind"] == "ints" else _wide_scale(rng)
    if cond is not None and spec["kind"] == "wellcond":
        spec["cond"] = cond
    return spec


def _matrix_spec0(rng, agg, clause, n_fixed=None):
    name = agg["name"]
    m_min = 4 if name == "Krum" else (3 if name == "TrimmedMean" else 2)
    if name == "NashMTL" and clause in ("colperm", "zerocol", "orthogonal"):
        return {"kind": "ints", "m": rng.randint(2, 6), "n": n_fixed if n_fixed is not None else rng.randint(2, 8),
                "seed": rng.randrange(10**9), "scale": 2.0 ** rng.choice([-7, 0, 7]), "dtype": "float64"}
    if name in PINV_BASED:
        m = rng.randint(2, 5)
        n = n_fixed if n_fixed is not None else rng.randint(m + (1 if clause == "span" else 0), 8)
        m = min(m, n - 1 if clause == "span" else n)
        return {"kind": "wellcond", "m": max(m, 1), "n": n, "seed": rng.randrange(10**9), "cond": rng.choice([1.0, 3.0, 30.0]),
                "scale": rng.choice([1e-2, 1.0, 1e2]), "dtype": "float64"}
    m = rng.randint(m_min, 6)
    if clause == "span":
        kind = rng.choice(["gauss", "lowrank", "nonconflict"])
        n = rng.randint(m + 1, 8) if kind != "lowrank" else rng.randint(3, 8)
    else:
        kind = rng.choice(["gauss", "gauss", "nonconflict", "rowscales"])
        n = n_fixed if n_fixed is not None else rng.randint(2, 8)
    spec = {"kind": kind, "m": m, "n": n, "seed": rng.randrange(10**9), "scale": rng.choice([1e-2, 1.0, 1e2]),
            "dtype": "float32" if (name in CLOSED and clause in ("colperm", "zerocol") and rng.random() < 0.3) else "float64"}
    if kind == "lowrank":
        spec["rank"] = rng.randint(1, max(1, min(m, n) - 1))
    if kind == "rowscales":
        spec["decades"] = 2
    return spec


def cases(tier, seed, focus=None):
    rng = random.Random(800 + seed)
    thorough = tier != "quick"
    out = []
    rep = 20 if thorough else 3
    for agg in SPAN_AGGS:
        for _ in range(rep if agg["name"] != "NashMTL" else max(2, rep // 4)):
            out.append({"clause": "span", "agg": agg, "matrix": _matrix_spec(rng, agg, "span"), "rseed": rng.randrange(10**6)})
    for agg in GRAM_AGGS:
        for _ in range(30 if thorough else 4):
            out.append({"clause": "orthogonal", "agg": agg, "matrix": _matrix_spec(rng, agg, "orthogonal"),
                        "qseed": rng.randrange(10**6), "rseed": rng.randrange(10**6)})
    for agg in LAYOUT_AGGS:
        slow = agg["name"] in ("NashMTL",)
        if thorough:
            for n in (2, 3, 4, 5):
                specs = [_matrix_spec(rng, agg, "colperm", n_fixed=n) for _ in range(1 if slow else 2)]
                for spec in specs:
                    for perm in itertools.permutations(range(n)):
                        out.append({"clause": "colperm", "agg": agg, "matrix": spec, "perm": list(perm),
                                    "rseed": spec["seed"] % 10**6})
            for _ in range(10):
                spec = _matrix_spec(rng, agg, "colperm")
                out.append({"clause": "colperm", "agg": agg, "matrix": spec, "perm": rng.sample(range(spec["n"]), spec["n"]),
                            "rseed": rng.randrange(10**6)})
        else:
            for _ in range(3):
                spec = _matrix_spec(rng, agg, "colperm")
                out.append({"clause": "colperm", "agg": agg, "matrix": spec, "perm": rng.sample(range(spec["n"]), spec["n"]),
                            "rseed": rng.randrange(10**6)})
        for _ in range(20 if thorough else 3):
            spec = _matrix_spec(rng, agg, "zerocol")
            k = rng.randint(1, 3)
            pos = sorted(rng.choice([0, spec["n"], rng.randint(0, spec["n"])]) for _ in range(k))
            out.append({"clause": "zerocol", "agg": agg, "matrix": spec, "positions": pos, "rseed": rng.randrange(10**6)})
    # ---- families around the thresholds of the code under test (own random stream: the cases above are unchanged)
    rng = random.Random(80800 + seed)
    for agg in GRAM_AGGS:
        guarded = agg["name"] in ("UPGrad", "DualProj", "CAGrad")
        for j in range((80 if guarded else 40) if thorough else (16 if guarded else 8)):  # threshold family
            if guarded:  # the guard follows the configured norm_eps
                agg = dict(agg, norm_eps=rng.choice([1e-4, 1e-4, 1e-2, 1e-6]))
            out.append({"clause": "orthogonal", "agg": agg, "matrix": _thr_spec(rng, agg),
                        "q": ["haar", "house_row", "house_row", "house_axis"][j % 4], "qrow": rng.randrange(6),
                        "qseed": rng.randrange(10**6), "rseed": rng.randrange(10**6)})
        for _ in range(10 if thorough else 2):  # scale family
            out.append({"clause": "orthogonal", "agg": agg, "matrix": _matrix_spec(rng, agg, "orthogonal", wide=True),
                        "q": rng.choice(["haar", "house_row"]), "qrow": rng.randrange(6),
                        "qseed": rng.randrange(10**6), "rseed": rng.randrange(10**6)})
    for agg in [a for a in GRAM_AGGS if a["name"] == "Krum"]:
        # rows clustered around a large common gradient (float32): distances recovered from the Gramian
        # (|x|^2 + |y|^2 - 2<x,y>) are rounding noise there, the true pairwise distances are not
        for j in range(24 if thorough else 8):
            # (every third case with more than 25 rows: torch.cdist's DEFAULT mode switches to the Gramian formula there)
            spec = {"kind": "offset", "m": rng.randint(6, 9) if j % 3 else rng.choice([26, 28, 32]), "n": rng.choice([24, 40]), "seed": rng.randrange(10**9),
                    "ratio": rng.choice([300.0, 500.0]), "spread": rng.choice([0.05, 0.1]), "hetero": True, "scale": 1.0, "dtype": "float32"}
            if spec["m"] > 25:
                spec.update(ratio=rng.choice([3000.0, 10000.0]), tight=2, spread=0.1)  # (Krum(f=1, k=2): the two tight rows are selected)
            if j % 2 == 0:
                out.append({"clause": "orthogonal", "agg": agg, "matrix": spec, "q": "haar", "qrow": 0,
                            "qseed": rng.randrange(10**6), "rseed": rng.randrange(10**6)})
            else:
                out.append({"clause": "colperm", "agg": agg, "matrix": spec, "perm": rng.sample(range(spec["n"]), spec["n"]),
                            "rseed": rng.randrange(10**6)})
    # ConFIG only uses the DIRECTION of its preference vector: a tiny one (1e-8 scale) on a wide matrix makes every entry of the
    # intermediate direction tiny although its norm is not zero; a reflection concentrates it on one coordinate
    for j in range(24 if thorough else 6):
        m0 = rng.choice([2, 3])
        agg = {"name": "ConFIG", "pref": [rng.choice([2e-8, 4e-8]) * (1.0 + 0.5 * i) for i in range(m0)]}
        spec = {"kind": "wellcond", "m": m0, "n": rng.choice([128, 256]), "seed": rng.randrange(10**9), "cond": rng.choice([1.0, 3.0]),
                "scale": rng.choice([1e-2, 1.0, 1e2]), "dtype": "float64"}
        out.append({"clause": "orthogonal", "agg": agg, "matrix": spec, "q": "house_row", "qrow": rng.randrange(m0),
                    "qseed": rng.randrange(10**6), "rseed": rng.randrange(10**6)})
    for agg in [a for a in LAYOUT_AGGS if a["name"] == "IMTLG"]:
        # float32, 2e5 zero columns, condition number 50..100 (rank unambiguous): a cut-off of a pseudo-inverse that grows with
        # the NUMBER OF COLUMNS (pinv of J instead of J J^T) drops genuine singular values only here
        for j in range(6 if thorough else 2):
            spec = {"kind": "wellcond", "m": 3, "n": rng.choice([4, 6]), "seed": rng.randrange(10**9), "cond": [50.0, 100.0][j % 2],
                    "scale": 1.0, "dtype": "float32"}
            out.append({"clause": "zerocol", "agg": agg, "matrix": spec, "blocks": [[spec["n"], 200000]], "rseed": rng.randrange(10**6)})
    for agg in [a for a in LAYOUT_AGGS if a["name"] == "IMTLG"]:
        # float32, two objectives with EXACTLY the same gradient: the Gramian is exactly singular, its computed null singular value
        # is <= 1e-7 of the largest while the others are >= 1e-2 of it (rank unambiguous: measured gap to the default cut-off of
        # torch.linalg.pinv >= 4x over 3000 matrices): a pseudo-inverse that keeps the rounding-level value explodes
        for j in range(60 if thorough else 8):
            m0 = rng.randint(2, 4)
            spec = {"kind": "wellcond", "m": m0, "n": rng.randint(m0 + 1, 8), "seed": rng.randrange(10**9), "cond": rng.choice([1.0, 3.0, 10.0]),
                    "dup": True, "scale": rng.choice([1e-2, 1.0, 1e2]), "dtype": "float32"}
            if j % 2 == 0:
                out.append({"clause": "orthogonal", "agg": agg, "matrix": spec, "q": "haar", "qrow": 0,
                            "qseed": rng.randrange(10**6), "rseed": rng.randrange(10**6)})
            else:
                out.append({"clause": "colperm", "agg": agg, "matrix": spec, "perm": rng.sample(range(spec["n"]), spec["n"]),
                            "rseed": rng.randrange(10**6)})
    for agg in LAYOUT_AGGS:
        for j in range(8 if thorough else 3):  # many zero columns (parameters that influence nothing)
            count = [20000, 3000, 300][j % 3]
            # the largest count goes with the worst conditioning whose rank is still unambiguous (most sensitive probe
            # of a tolerance that grows with the number of columns)
            cond = rng.choice([30.0, 100.0]) if count == 20000 else rng.choice([3.0, 30.0, 100.0])
            spec = _matrix_spec(rng, agg, "zerocol", cond=cond, wide=(j % 3 == 2))
            where = rng.choice(["end", "start", "split"])
            blocks = {"end": [[spec["n"], count]], "start": [[0, count]],
                      "split": [[0, count // 2], [rng.randint(0, spec["n"]), count - count // 2]]}[where]
            out.append({"clause": "zerocol", "agg": agg, "matrix": spec, "blocks": blocks, "rseed": rng.randrange(10**6)})
        for _ in range(6 if thorough else 1):
            spec = _matrix_spec(rng, agg, "colperm", wide=True)
            out.append({"clause": "colperm", "agg": agg, "matrix": spec, "perm": rng.sample(range(spec["n"]), spec["n"]),
                        "rseed": rng.randrange(10**6)})
    return out


# ------------------------------------------------------------------------------------------------ helpers


def _apply(agg_spec, J, rseed, weights=False):
    """A fresh aggregator (NashMTL is stateful) applied under a fixed seed (PCGrad / Random draw numbers)."""
    agg = make_agg(agg_spec, J.shape[0], J.dtype)
    torch.manual_seed(rseed)
    if weights:
        return agg.weighting(J)
    return agg(J)


def _exact_gramian(Jn):
    """Every entry is an integer q_ij times ONE power of two with n max|q|^2 < 2^53: all products and partial sums of
    J J^T are exact, in any summation order."""
    import math

    vals = [float(v) for v in Jn.reshape(-1) if v != 0]
    if not vals:
        return True
    low = []
    for v in vals:  # exponent of the lowest set bit of v
        mant, ex = math.frexp(abs(v))
        M = int(mant * 2**53)
        low.append(ex - 53 + ((M & -M).bit_length() - 1))
    qmax = max(abs(v) for v in vals) / 2.0 ** min(low)
    return qmax * qmax * max(1, Jn.shape[1]) < 2.0**53


def _rtol(agg_spec, Jn, eps):
    name = agg_spec["name"]
    m, n = Jn.shape
    base = 64 * (m + n) * eps
    if name in CLOSED or (name == "NashMTL" and _exact_gramian(Jn)):
        return base
    if name == "PCGrad":
        return max(base, 1e-10)
    if name in PINV_BASED:
        if name == "ConFIG":
            d = np.linalg.norm(Jn, axis=1)
            s = np.linalg.svd(Jn / d[:, None], compute_uv=False)
            return base * float(s[0] / s[-1])
        s = np.linalg.svd(Jn, compute_uv=False)
        s = s[s > 1e-5 * s[0]]  # exactly dependent rows ('dup' family): the condition number of the non-null part
        return base * float(s[0] / s[-1]) ** 2
    # (a NashMTL case whose Gramian is not exact does not occur in the generated cases: no derived tolerance exists)
    return {"UPGrad": 1e-7, "DualProj": 1e-7, "MGDA": 1e-6, "CAGrad": 1e-3}[name]


def _scale(agg_spec, J, rseed):
    """Magnitude of the terms that are summed in the output."""
    Jn = np64(J)
    smax = float(np.linalg.svd(Jn, compute_uv=False)[0]) if min(Jn.shape) else 0.0
    if agg_spec["name"] in ("ConFIG", "TrimmedMean"):
        return float(np.linalg.norm(np64(_apply(agg_spec, J, rseed)))) + smax
    w = np.abs(np64(_apply(agg_spec, J, rseed, weights=True)))
    return float(w @ np.linalg.norm(Jn, axis=1)) + 1e-300


def _krum_tie(agg_spec, Jn, margin=1e-6):
    if agg_spec["name"] != "Krum":
        return False
    sc = np.sort(krum_scores(Jn, agg_spec["f"]))
    k = agg_spec["k"]
    return k < len(sc) and (sc[k] - sc[k - 1]) <= margin * (sc[k] + sc[k - 1])


def _nontrivial(Jn):
    return Jn.shape[0] >= 2 and Jn.shape[1] >= 2 and bool(np.any(Jn != 0))


def _span(case, sig):
    agg_spec, rseed = case["agg"], case["rseed"]
    J = gen_matrix(case["matrix"])
    Jn = np64(J)
    m, n = Jn.shape
    eps = eps_of(J)
    out = np64(_apply(agg_spec, J, rseed))
    U, S, Vt = np.linalg.svd(Jn, full_matrices=False)
    rank = int((S > max(m, n) * 2.3e-16 * S[0]).sum()) if S.size and S[0] > 0 else 0
    basis = Vt[:rank]
    nontrivial = _nontrivial(Jn) and rank < n
    resid = out - basis.T @ (basis @ out)
    if agg_spec["name"] == "ConFIG":
        scale = float(np.linalg.norm(out)) + float(S[0])
        w = None
    else:
        w = np64(_apply(agg_spec, J, rseed, weights=True))
        scale = float(np.abs(w) @ np.linalg.norm(Jn, axis=1)) + 1e-300
        comb = w @ Jn
        if w.shape != (m,) or not (float(np.abs(out - comb).max()) <= 64 * (m + n) * eps * scale):  # (NaN-proof)
            return fail(sig, nontrivial, "C08.span", "output differs from weighting(J) @ J", out, comb, weights=w)
    tol = max(_rtol(agg_spec, Jn, eps), 64 * (m + n) * eps) * scale if agg_spec["name"] == "ConFIG" else 64 * (m + n) * eps * scale
    if not (float(np.linalg.norm(resid)) <= tol):
        return fail(sig, nontrivial, "C08.span", "output has a component outside the row space of J",
                    float(np.linalg.norm(resid)), {"tol": tol}, out=out, rank=rank)
    return ok(sig, nontrivial)


def _haar(n, seed):
    g = torch.Generator().manual_seed(seed)
    Z = torch.randn(n, n, generator=g, dtype=torch.float64)
    Q, R = torch.linalg.qr(Z)
    return Q * torch.sign(torch.diagonal(R)).unsqueeze(0)


def _compare(case, sig, key, J, J2, back, what, extra_zero=None):
    """A(J2) mapped back by ``back`` must equal A(J)."""
    agg_spec, rseed = case["agg"], case["rseed"]
    Jn = np64(J)
    eps = eps_of(J)
    nontrivial = _nontrivial(Jn)
    # rows with a large common component (kind 'offset', float32): the rounding of J2 = J Q itself moves the distances by about
    # eps * |row|, so the selection must be clear by a wider margin to be meaningful
    if _krum_tie(agg_spec, Jn, 1e-6 if case["matrix"].get("kind") != "offset" else 2e-2):
        return ok(sig, False, "Krum selection within the margin of a score tie")
    a = np64(_apply(agg_spec, J, rseed))
    b_full = np64(_apply(agg_spec, J2, rseed))
    b = back(b_full)
    if agg_spec["name"] == "Krum":
        # the weights of Krum are a selection (k-hot / k): away from score ties they must be the SAME rows, whatever the
        # magnitude of the rows (a value comparison is blind to which of several nearby rows was averaged)
        wa, wb = np64(_apply(agg_spec, J, rseed, weights=True)), np64(_apply(agg_spec, J2, rseed, weights=True))
        if wa.shape != wb.shape or float(np.abs(wa - wb).max(initial=0.0)) > 1e-6:
            return fail(sig, nontrivial, key, what + " (Krum selects different rows)", wb, wa, J=Jn if Jn.size <= 400 else None)
    tol = _rtol(agg_spec, Jn, eps) * _scale(agg_spec, J, rseed)
    if a.shape != b.shape or not np.all(np.isfinite(b_full)) or not (float(np.abs(a - b).max()) <= tol):
        return fail(sig, nontrivial, key, what, b, a, tol=tol, J=Jn)
    if extra_zero is not None:
        z = b_full[extra_zero]
        if not (float(np.abs(z).max(initial=0.0)) <= tol):
            return fail(sig, nontrivial, key, "the coordinates of the inserted zero columns are not zero", z, 0.0)
    return ok(sig, nontrivial)


def _householder(x, y):
    """The reflection H = I - 2 v v^T / v^T v with H x/|x| = y/|y| (identity when they already agree)."""
    n = x.shape[0]
    v = x / x.norm() - y / y.norm()
    if float(v.norm()) < 1e-8:
        return torch.eye(n, dtype=torch.float64)
    v = v / v.norm()
    return torch.eye(n, dtype=torch.float64) - 2.0 * torch.outer(v, v)


def _q(case, J):
    """Orthogonal Q (float64).  'haar' (default); 'house_row': the Householder reflection that maps row `qrow` of J onto
    a coordinate axis, so that J Q has a row with ONE entry equal to its norm (entry-wise quantities change as much as
    they can while J J^T is unchanged); 'house_axis': the reflection that maps the first axis to a random direction."""
    n = J.shape[1]
    kind = case.get("q", "haar")
    if kind == "haar":
        return _haar(n, case["qseed"])
    g = torch.Generator().manual_seed(case["qseed"])
    axis = torch.zeros(n, dtype=torch.float64)
    axis[int(torch.randint(n, (1,), generator=g))] = 1.0
    if kind == "house_row":
        row = J[case.get("qrow", 0) % J.shape[0]].to(torch.float64)
        if float(row.norm()) == 0.0:
            return _haar(n, case["qseed"])
        return _householder(row, axis)
    if kind == "house_axis":
        return _householder(axis, torch.randn(n, generator=g, dtype=torch.float64))
    raise KeyError(kind)


def _near_guard(agg_spec, Jn):
    """sigma_max within rounding of the norm_eps guard of the normalised Gramian: the two sides of A(J Q) = A(J) Q may
    legitimately fall on different sides of it (the statement is about the function of J J^T, which jumps there)."""
    if agg_spec["name"] not in ("UPGrad", "DualProj", "CAGrad") or not min(Jn.shape):
        return False
    ne = agg_spec.get("norm_eps", 1e-4)
    s = float(np.linalg.svd(Jn, compute_uv=False)[0])
    return abs(s / ne - 1.0) <= 64 * sum(Jn.shape) * 2.220446049250313e-16


def _orthogonal(case, sig):
    J = gen_matrix(case["matrix"])
    n = J.shape[1]
    if _near_guard(case["agg"], np64(J)):
        return ok(sig, False, "sigma_max within rounding of norm_eps")
    Q = _q(case, J)
    Qn = np64(Q)
    JQ = (J.double() @ Q.double()).to(J.dtype)   # the rotated matrix, rounded once to the dtype of J
    return _compare(case, sig, "C08.orthogonal", J, JQ, lambda v: v @ Qn.T, "A(J Q) Q^T differs from A(J)")


def _colperm(case, sig):
    J = gen_matrix(case["matrix"])
    perm = case["perm"]
    inv = np.argsort(perm)
    r = _compare(case, sig, "C08.colperm", J, J[:, perm], lambda v: v[inv], f"A(J[:, p])[p^-1] differs from A(J) for p = {perm}")
    if perm == sorted(perm):
        r["nontrivial"] = False
    return r


def _zerocol(case, sig):
    J = gen_matrix(case["matrix"])
    m, n = J.shape
    cols = [J[:, j:j + 1] for j in range(n)]
    new, keep, zero_idx = [], [], []
    if "blocks" in case:  # [[position, count], ...]: `count` zero columns in front of column `position`
        pos = [list(b) for b in case["blocks"]]
        width = 0
        for j in range(n + 1):
            for (p_, cnt) in pos:
                if p_ == j and cnt > 0:
                    zero_idx.extend(range(width, width + cnt))
                    new.append(torch.zeros(m, cnt, dtype=J.dtype))
                    width += cnt
            if j < n:
                keep.append(width)
                new.append(cols[j])
                width += 1
    else:
        pos = list(case["positions"])
        for j in range(n + 1):
            for _ in range(pos.count(j)):
                zero_idx.append(len(new))
                new.append(torch.zeros(m, 1, dtype=J.dtype))
            if j < n:
                keep.append(len(new))
                new.append(cols[j])
    J2 = torch.cat(new, dim=1)
    return _compare(case, sig, "C08.zerocol", J, J2, lambda v: v[keep],
                    f"inserting zero columns at {pos} changed the other coordinates", extra_zero=zero_idx)


def run_case(case):
    sig = "|".join(f"{k}={case[k]}" for k in sorted(case))
    return {"span": _span, "orthogonal": _orthogonal, "colperm": _colperm, "zerocol": _zerocol}[case["clause"]](case, sig)
