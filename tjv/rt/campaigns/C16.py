"""C16 [B]: Byzantine-robust aggregators (TrimmedMean, Krum) — bounded campaign on the real classes.

Clauses (finding keys):
  C16.tm_value    TrimmedMean(b)(J)[c] = mean of column c after removing its b largest and b smallest entries
                  (oracle: numpy sort in float64 on the exact input values).
  C16.tm_robust   replacing <= b rows by arbitrary finite values (up to 1e12 x the honest scale) keeps every output
                  coordinate within [min, max] of the untouched rows of that column.
  C16.krum_value  Krum(f,k): the weights are 1/k on exactly k distinct rows and 0 elsewhere, the selected rows have the
                  smallest scores (score_i = sum of the distances from row i to its m-f-2 nearest OTHER rows, brute
                  force in float64), and the output is the plain average of the selected rows.
  C16.reject      ValueError iff m < 2b+1 (TrimmedMean), iff m < f+3 or m < k (Krum); constructors reject b < 0,
                  f < 0, k < 1 and accept everything else.
"""
from __future__ import annotations

import itertools
import random

import numpy as np
import torch

from ._aggb import dt, eps_of, fail, np64, ok

RULE = ("matrices m x n from three families (gauss, small integers with ties/duplicate rows, clustered honest rows) at "
        "scales 1e-6..1e6, float64 and float32, optionally with a chosen subset of rows replaced by corrupted values "
        "(huge: +-1e12 x scale, mixed magnitudes 1e-3..1e12 x scale, colluding identical rows, values inside the honest "
        "range); every admissible b resp. (f,k) for the row count; + the 'large' family: 26..40 rows (beyond the row "
        "counts at which library kernels switch algorithm, e.g. torch.cdist's matmul formulation above 25 rows), up to "
        "64 columns, honest rows = a common offset + a spread with offset/spread up to 3e4 (float32) / 1e8 (float64) - "
        "distances are badly conditioned unless computed from differences - and f corrupted rows only 5 spreads away "
        "('near') or huge, k in {1, m-f, random}; the oracle scores are brute-force float64 on the exact input "
        "values. distinct = (clause, m, n, parameters, family, "
        "corruption subset and kind, dtype, seed). non-trivial: tm_value b>=1 and m-2b>=1 with a non-constant column; "
        "tm_robust >=1 corrupted row; krum_value k<m and the k-th and (k+1)-th smallest oracle scores differ by more "
        "than the rounding tolerance (selection unique); reject: every grid point")
BOUNDS = ("m <= 9 rows (reject grid: 0..9), n <= 6 columns, b <= 4, f <= 6, k <= 9, corruption <= 1e12 x honest scale; large "
          "family: m <= 40, n <= 64, f <= 8, offset/spread <= 3e4 (float32), 1e8 (float64)")
EXHAUSTIVE = ("thorough: all admissible b (m<=9) and (f,k) (m<=9); all subsets of <= b corrupted rows for every "
              "(m,b) with m<=9; the full reject grid m in 0..9 x b in 0..5 resp. f in 0..7 x k in 1..10")

FAMILIES = ["gauss", "ints", "cluster"]  # + "offset" (large family only)
CORRUPT = ["huge", "mixed", "collude", "inside"]  # + "near" (large family only)
RATIOS = {"float32": [1e2, 1e3, 3e4], "float64": [1e4, 1e6, 1e8]}


# ------------------------------------------------------------------------------------------------ generation


def honest_matrix(family, m, n, seed, scale, ratio=1.0):
    rng = np.random.default_rng(seed)
    if family == "offset":  # a large common component (ratio x the spread of the rows around it)
        H = rng.standard_normal((1, n)) * ratio + rng.standard_normal((m, n))
    elif family == "gauss":
        H = rng.standard_normal((m, n))
    elif family == "ints":
        H = rng.integers(-2, 3, size=(m, n)).astype(np.float64)
    elif family == "cluster":
        H = rng.standard_normal((1, n)) * 3.0 + 0.3 * rng.standard_normal((m, n))
    else:
        raise KeyError(family)
    return H * scale


def corrupt(H, rows, kind, seed, scale):
    """Returns a copy of H with the given rows replaced."""
    rng = np.random.default_rng(seed + 7919)
    J = H.copy()
    n = H.shape[1]
    if not rows:
        return J
    if kind == "huge":
        for r in rows:
            J[r] = rng.choice([-1.0, 1.0], size=n) * 1e12 * scale * rng.uniform(0.1, 1.0, size=n)
    elif kind == "mixed":
        for r in rows:
            J[r] = rng.choice([-1.0, 1.0], size=n) * scale * 10.0 ** rng.uniform(-3, 12, size=n)
    elif kind == "collude":
        v = rng.choice([-1.0, 1.0], size=n) * 1e12 * scale
        for r in rows:
            J[r] = v
    elif kind == "inside":
        lo, hi = H.min(axis=0), H.max(axis=0)
        for r in rows:
            J[r] = lo + (hi - lo) * rng.uniform(0, 1, size=n)
    elif kind == "near":  # only 5 honest spreads away from the honest centre: clearly worse scores, same magnitude
        c = H.mean(axis=0)
        sd = float((H - c).std()) or scale
        for r in rows:
            J[r] = c + 5.0 * sd * rng.standard_normal(n)
    else:
        raise KeyError(kind)
    return J


def _matrix(case):
    dtype = dt(case["dtype"])
    H = honest_matrix(case["family"], case["m"], case["n"], case["seed"], case["scale"], case.get("ratio", 1.0))
    J = corrupt(H, case.get("rows", []), case.get("ckind", "huge"), case["seed"], case["scale"])
    # the honest part as the aggregator sees it (after the cast)
    return torch.tensor(J, dtype=torch.float64).to(dtype), dtype


def _scale(rng, dtype):
    if dtype == "float32":
        return rng.choice([1e-3, 1.0, 1.0, 1e3])
    return rng.choice([1e-6, 1e-2, 1.0, 1.0, 1e3, 1e6])


def _base(rng, m, n=None):
    dtype = rng.choice(["float64", "float64", "float32"])
    return {"m": m, "n": n if n is not None else rng.randint(1, 6), "family": rng.choice(FAMILIES),
            "seed": rng.randrange(10**9), "scale": _scale(rng, dtype), "dtype": dtype}


def cases(tier, seed, focus=None):
    rng = random.Random(1600 + seed)
    out = []
    thorough = tier != "quick"
    # ---- tm_value: all admissible b for m <= 9
    reps = 4 if thorough else 1
    for m in range(1, 10):
        for b in range(0, (m - 1) // 2 + 1):
            for _ in range(reps):
                c = _base(rng, m)
                c.update(clause="tm_value", b=b)
                if rng.random() < 0.5 and b >= 1:
                    c["rows"] = sorted(rng.sample(range(m), rng.randint(1, b)))
                    c["ckind"] = rng.choice(CORRUPT)
                out.append(c)
    # ---- tm_robust
    for m in range(3, 10):
        for b in range(1, (m - 1) // 2 + 1):
            subsets = [list(s) for cnum in range(1, b + 1) for s in itertools.combinations(range(m), cnum)]
            if not thorough:
                subsets = rng.sample(subsets, min(3, len(subsets)))
            for rows in subsets:
                c = _base(rng, m)
                c.update(clause="tm_robust", b=b, rows=rows, ckind=rng.choice(CORRUPT))
                out.append(c)
    # ---- krum_value: all admissible (f,k) for m <= 9
    combos = [(m, f, k) for m in range(3, 10) for f in range(0, m - 2) for k in range(1, m + 1)]
    if not thorough:
        combos = rng.sample(combos, 90)
    reps = 6 if thorough else 1
    for (m, f, k) in combos:
        for _ in range(reps):
            c = _base(rng, m)
            c.update(clause="krum_value", f=f, k=k)
            if f >= 1 and rng.random() < 0.5:
                c["rows"] = sorted(rng.sample(range(m), rng.randint(1, f)))
                c["ckind"] = rng.choice(CORRUPT)
            out.append(c)
    # ---- large family (own random stream: the cases above are unchanged)
    rng_l = random.Random(16160 + seed)
    for i in range(60 if not thorough else 1500):
        r = rng_l
        m = r.choice([26, 27, 30, 33, 40])
        f = r.randint(1, 8)
        k = [1, m - f, r.randint(1, m)][i % 3]
        dtype = "float32" if i % 3 != 2 else "float64"
        c = {"m": m, "n": r.choice([8, 32, 64]), "family": "offset" if i % 5 else r.choice(FAMILIES),
             "seed": r.randrange(10**9), "scale": _scale(r, dtype), "dtype": dtype, "ratio": r.choice(RATIOS[dtype]),
             "clause": "krum_value", "f": f, "k": k}
        if i % 4:
            c["rows"] = sorted(r.sample(range(m), r.randint(1, f)))
            c["ckind"] = r.choice(["near", "near", "huge", "inside"])
        out.append(c)
    for i in range(12 if not thorough else 200):
        r = rng_l
        m = r.choice([26, 30, 33, 40])
        b = r.randint(0, (m - 1) // 2)
        dtype = r.choice(["float32", "float64"])
        c = {"m": m, "n": r.choice([8, 64]), "family": "offset", "seed": r.randrange(10**9), "scale": _scale(r, dtype),
             "dtype": dtype, "ratio": r.choice(RATIOS[dtype]), "clause": "tm_value" if i % 2 else "tm_robust", "b": b}
        if b >= 1:
            c["rows"] = sorted(r.sample(range(m), r.randint(1, b)))
            c["ckind"] = r.choice(["near", "huge", "mixed"])
        elif c["clause"] == "tm_robust":
            c["rows"] = []
        out.append(c)
    # tall matrices with FEW trimmed rows and huge outliers (generation 7: a sum-minus-extremes 'fast path' taken only
    # above a row-count threshold per trimmed value lets an outlier absorb the honest values)
    for i in range(8 if not thorough else 120):
        r = rng_l
        dtype = "float32" if i % 2 else "float64"
        c = {"m": r.choice([18, 20, 33, 40]), "n": r.choice([3, 8]), "family": r.choice(FAMILIES), "seed": r.randrange(10**9),
             "scale": _scale(r, dtype), "dtype": dtype, "clause": "tm_value" if i % 4 == 3 else "tm_robust",
             "b": r.choice([1, 1, 2]), "ckind": "huge"}
        c["rows"] = sorted(r.sample(range(c["m"]), r.randint(1, c["b"])))
        out.append(c)
    # ---- reject grid
    grid = [{"clause": "reject", "agg": "TrimmedMean", "b": b, "m": m, "n": n}
            for m in range(0, 10) for b in range(0, 6) for n in (1, 3)]
    grid += [{"clause": "reject", "agg": "Krum", "f": f, "k": k, "m": m, "n": n}
             for m in range(0, 10) for f in range(0, 8) for k in range(1, 11) for n in (1, 3)]
    ctor = [{"clause": "reject", "agg": "TrimmedMean.ctor", "b": b} for b in (-3, -1, 0, 1, 7)]
    ctor += [{"clause": "reject", "agg": "Krum.ctor", "f": f, "k": k} for f in (-2, -1, 0, 3) for k in (-1, 0, 1, 4)]
    if not thorough:
        grid = rng.sample(grid, 60)
    out += grid + ctor
    return out


# ------------------------------------------------------------------------------------------------ checks


def _sig(case):
    return "|".join(f"{k}={case[k]}" for k in sorted(case))


def _call(thunk):
    """The real call; the exceptions the property is about (a rejection of admissible arguments) become findings."""
    try:
        return np64(thunk()), None
    except (ValueError, RuntimeError, IndexError, TypeError) as e:
        return None, f"{type(e).__name__}: {str(e)[:120]}"


def _tm_value(case, sig):
    from torchjd.aggregation import TrimmedMean

    J, dtype = _matrix(case)
    m, n, b = case["m"], case["n"], case["b"]
    out, err = _call(lambda: TrimmedMean(b)(J))
    if err:
        return fail(sig, b >= 1, "C16.reject", f"TrimmedMean({b}) rejected an admissible {m}-row matrix", err, "a vector")
    A = np.sort(np64(J), axis=0)[b:m - b]
    k = m - 2 * b
    exp = A.mean(axis=0)
    tol = 4 * k * eps_of(dtype) * np.abs(A).max(axis=0) + 1e-300
    nontrivial = b >= 1 and bool((np64(J).max(axis=0) != np64(J).min(axis=0)).any())
    if out.shape != exp.shape or not np.all(np.abs(out - exp) <= tol):
        return fail(sig, nontrivial, "C16.tm_value", "output differs from the per-column mean of the entries left after "
                    "removing the b largest and b smallest", out, exp, J=np64(J), tol=tol)
    return ok(sig, nontrivial)


def _tm_robust(case, sig):
    from torchjd.aggregation import TrimmedMean

    J, dtype = _matrix(case)
    m, b, rows = case["m"], case["b"], case["rows"]
    out, err = _call(lambda: TrimmedMean(b)(J))
    if err:
        return fail(sig, True, "C16.reject", f"TrimmedMean({b}) rejected an admissible {m}-row matrix", err, "a vector")
    Jn = np64(J)
    untouched = np.array([i for i in range(m) if i not in rows])
    lo, hi = Jn[untouched].min(axis=0), Jn[untouched].max(axis=0)
    slack = 4 * (m - 2 * b) * eps_of(dtype) * np.maximum(np.abs(lo), np.abs(hi)) + 1e-300
    nontrivial = len(rows) >= 1
    if not (np.all(np.isfinite(out)) and np.all(out >= lo - slack) and np.all(out <= hi + slack)):
        return fail(sig, nontrivial, "C16.tm_robust", f"<= b corrupted rows {rows} moved an output coordinate outside "
                    "[min,max] of the untouched rows", out, {"lo": lo, "hi": hi}, J=Jn)
    return ok(sig, nontrivial)


def krum_scores(Jn: np.ndarray, f: int) -> np.ndarray:
    """Brute force: for each row, the sum of the distances to its m-f-2 nearest OTHER rows."""
    m = Jn.shape[0]
    q = m - f - 2
    scores = np.zeros(m)
    for i in range(m):
        d = sorted(float(np.sqrt(((Jn[i] - Jn[j]) ** 2).sum())) for j in range(m) if j != i)
        scores[i] = sum(d[:q])
    return scores


def _krum_value(case, sig):
    from torchjd.aggregation import Krum

    J, dtype = _matrix(case)
    m, n, f, k = case["m"], case["n"], case["f"], case["k"]
    agg = Krum(n_byzantine=f, n_selected=k)
    w, err = _call(lambda: agg.weighting(J))
    out, err2 = _call(lambda: agg(J))
    if err or err2:
        return fail(sig, True, "C16.reject", f"Krum({f},{k}) rejected an admissible {m}-row matrix", err or err2,
                    "a vector")
    Jn = np64(J)
    eps = eps_of(dtype)
    scores = krum_scores(Jn, f)
    q = m - f - 2
    c = 8 * (n + q + 2) * eps
    order = np.sort(scores)
    gap_ok = k < m and (order[k] - order[k - 1]) > c * (order[k] + order[k - 1]) + 1e-300
    nontrivial = bool(gap_ok)
    sel = [i for i in range(m) if w[i] != 0.0]
    one_over_k = float(np64(torch.tensor(1.0, dtype=dtype) / k))
    if w.shape != (m,) or len(sel) != k or any(abs(w[i] - one_over_k) > 2 * eps / k for i in sel):
        return fail(sig, nontrivial, "C16.krum_value", "weights are not 1/k on exactly k distinct rows and 0 elsewhere",
                    w, f"{k} entries equal to {one_over_k}", J=Jn)
    rest = [i for i in range(m) if i not in sel]
    if rest:
        max_s, min_r = max(scores[i] for i in sel), min(scores[i] for i in rest)
        if max_s > min_r + c * (max_s + min_r) + 1e-300:
            return fail(sig, nontrivial, "C16.krum_value", "a selected row has a larger score (sum of distances to its "
                        "m-f-2 nearest other rows) than a row that was not selected", {"selected": sel, "weights": w},
                        {"scores": scores, "best": np.argsort(scores)[:k]}, J=Jn)
    exp = Jn[sel].mean(axis=0)
    tol = 4 * (k + 2) * eps * np.abs(Jn[sel]).max(axis=0) + 1e-300
    if out.shape != exp.shape or not np.all(np.abs(out - exp) <= tol):
        return fail(sig, nontrivial, "C16.krum_value", "output is not the plain average of the selected rows", out, exp,
                    J=Jn, selected=sel)
    return ok(sig, nontrivial)


def _expect(sig, label, thunk, should_raise):
    try:
        thunk()
        raised = None
    except ValueError as e:
        raised = "ValueError"
    except Exception as e:  # any other exception on these argument checks is a contract failure
        raised = type(e).__name__
    if should_raise and raised != "ValueError":
        return fail(sig, True, "C16.reject", f"{label}: expected ValueError", raised, "ValueError")
    if not should_raise and raised is not None:
        return fail(sig, True, "C16.reject", f"{label}: admissible arguments were rejected", raised, "no exception")
    return ok(sig, True)


def _reject(case, sig):
    from torchjd.aggregation import Krum, TrimmedMean

    a = case["agg"]
    if a == "TrimmedMean.ctor":
        return _expect(sig, f"TrimmedMean({case['b']})", lambda: TrimmedMean(case["b"]), case["b"] < 0)
    if a == "Krum.ctor":
        f, k = case["f"], case["k"]
        return _expect(sig, f"Krum({f},{k})", lambda: Krum(n_byzantine=f, n_selected=k), f < 0 or k < 1)
    m, n = case["m"], case["n"]
    g = torch.Generator().manual_seed(m * 31 + n)
    J = torch.randn(m, n, generator=g, dtype=torch.float64)
    if a == "TrimmedMean":
        b = case["b"]
        agg = TrimmedMean(b)
        return _expect(sig, f"TrimmedMean({b}) on {m} rows", lambda: agg(J), m < 2 * b + 1)
    f, k = case["f"], case["k"]
    agg = Krum(n_byzantine=f, n_selected=k)
    return _expect(sig, f"Krum({f},{k}) on {m} rows", lambda: agg(J), m < f + 3 or m < k)


def run_case(case):
    sig = _sig(case)
    cl = case["clause"]
    if cl == "tm_value":
        return _tm_value(case, sig)
    if cl == "tm_robust":
        return _tm_robust(case, sig)
    if cl == "krum_value":
        return _krum_value(case, sig)
    if cl == "reject":
        return _reject(case, sig)
    raise KeyError(cl)
