"""C01 [B]: backward() deposits the aggregation of the true Jacobian — bounded campaign.

Executable rendering of the postcondition `C01.backward.post` enforced on the real backward()."""
from __future__ import annotations

import random

import torch

from tjv.rt import gen
from tjv.rt.aggs import make_agg
from ._autojac import (AGG_TOL, choose_inputs, expected_update, increase_ok, n_rows, reach_scales,
                       selection_ambiguous, set_pregrads)

RULE = ("random autograd programs (tjv.rt.gen.build: DAGs with reuse, unused leaves, leaves not requiring "
        "grad, 0-d..4-d shapes, multi-output unbind) x aggregator x parallel_chunk_size x dtype x pre-existing "
        ".grad x subset/order of inputs x container of inputs (list, reversed list, tuple, set, generator) x optional "
        "zero-element output tensor (shape (0,) or (2,0)) inserted among the outputs (regression family of the "
        "repaired defect F6, key C01.zero_numel); oracle = aggregator applied to a row-by-row torch.autograd.grad "
        "Jacobian of a twin graph, sliced by an independent layout. distinct = distinct (op trace, agg, chunk, "
        "inputs) signature; non-trivial = Jacobian has >=2 rows, >=2 columns and a non-zero entry")
BOUNDS = "<=5 leaves, <=9 ops, <=3 outputs, tensor dims <=4 of size <=3"

AGGS = [
    {"name": "Constant", "kind": "distinct"},
    {"name": "Constant", "kind": "signed", "wseed": 3},
    {"name": "Mean"},
    {"name": "Sum"},
    {"name": "UPGrad"},
    {"name": "UPGrad", "pref": "distinct"},
    {"name": "Krum", "f": 0, "k": 2},
    {"name": "TrimmedMean", "b": 1},
]


def cases(tier, seed, focus=None):
    n = 200 if tier == "quick" else 5000
    rng = random.Random(1000 + seed)
    rng2 = random.Random(1001000 + seed)
    for i in range(n):
        case = {
            "prog": {"seed": rng.randrange(10**9), "n_leaves": rng.randint(1, 5), "n_ops": rng.randint(2, 9),
                     "n_outputs": rng.randint(1, 3), "dtype": rng.choice(["float64", "float64", "float32"])},
            "agg": AGGS[i % len(AGGS)],
            "chunk": rng.choice([None, 1, 2, 3, "R", "R+1"]),
            "inputs": rng.choice(["all", "subset", "subset"]),
            "sel_seed": rng.randrange(10**6),
            "pre": rng.choice(["none", "some", "all"]),
            "retain": rng.random() < 0.3,
            "inputs_as": rng.choice(["list", "list", "reversed", "tuple", "set", "gen"]),
            "zero_out": None,
        }
        if i % 5 == 4:  # zero-element output tensor(s) next to the non-empty ones
            case["zero_out"] = [{"pos": rng.randrange(4), "shape": rng.choice(["0", "2x0"]), "src": rng.randrange(8)}
                                for _ in range(rng.choice([1, 1, 2]))]
        # later families draw from a stream of their own (the cases above are those of the earlier versions)
        r2 = random.Random(rng2.randrange(10**9))
        case["out_scales"] = None
        if i % 4 == 3:  # tiny / huge Jacobians: the outputs are multiplied by constants
            if r2.random() < 0.6:
                case["out_scales"] = [r2.choice(SCALES)] * 3
            else:
                case["out_scales"] = [r2.choice(SCALES + [1.0, 1.0]) for _ in range(3)]
            case["pre"] = r2.choice(["zeros", "zeros", "all", "some", "all_unscaled", "none"])
            case["agg"] = SCALE_FREE_AGGS[(i // 4) % len(SCALE_FREE_AGGS)]
        if i % 4 == 1:  # chunk sizes just below the number of rows / larger constants; one-shot iterators
            case["chunk"] = r2.choice(["R-1", "R-1", "R-2", 4, 5])
            case["inputs_as"] = r2.choice(["iter", "gen", "list", "tuple"])
            case["pre"] = r2.choice(["none", "some", "all", "zeros"])
        if i % 5 == 2:  # a leaf parameter listed among the tensors to differentiate (inputs are always explicit here)
            case["leaf_out"] = {"src": r2.randrange(8), "pos": r2.randrange(4)}
            if r2.random() < 0.5:
                case["inputs"] = "all"
        yield case
    # LARGE Jacobians (millions of parameter scalars, 2 rows): size thresholds, "memory optimisations", per-input shortcuts
    rl = random.Random(1002000 + seed)
    for j in range(1 if tier == "quick" else 6):
        yield {"large": {"N": [1_100_000, 1_050_000, 2_100_000][j % 3], "seed": rl.randrange(10**6),
                         "agg": [{"name": "UPGrad"}, {"name": "MGDA"}, {"name": "DualProj"}][j % 3],
                         "chunk": [None, 1, 2][(j // 2) % 3], "dtype": ["float64", "float32"][(j // 3) % 2]}}


SCALES = [1e-12, 1e-9, 1e-9, 1e-6, 1e6, 1e9]
# aggregators whose result is a per-column function of the Jacobian (a tiny column block gives a tiny slice whose
# error is relative to that block); the others either normalise / regularise with absolute constants or are tested
# for ties with absolute gaps
SCALE_FREE_AGGS = [
    {"name": "Mean"},
    {"name": "Constant", "kind": "distinct"},
    {"name": "Sum"},
    {"name": "Constant", "kind": "signed", "wseed": 3},
    {"name": "TrimmedMean", "b": 1},
]


def _scale_outputs(prog, out_scales):
    """Multiplies output number o by out_scales[o] (same construction on both twins)."""
    if out_scales:
        prog.outputs = [o * out_scales[j % len(out_scales)] for j, o in enumerate(prog.outputs)]
        prog.desc.append("SCALE:" + ",".join(f"{out_scales[j % len(out_scales)]:g}" for j in range(len(prog.outputs))))


def _add_zero_outputs(prog, zero_out):
    """Inserts differentiable zero-element tensors among the outputs (same construction on both twins)."""
    for z in zero_out or []:
        cands = [t for t in prog.grad_leaves + prog.nodes if t.dim() >= 1] or None
        src = cands[z["src"] % len(cands)] if cands else prog.grad_leaves[0].reshape(1)
        e = src.reshape(-1)[:0] * 3.0
        if z["shape"] == "2x0":
            e = e.reshape(2, 0)
        prog.outputs.insert(z["pos"] % (len(prog.outputs) + 1), e)
        prog.desc.append(f"ZERO{z['shape']}@{z['pos']}")


def _add_leaf_output(prog, leaf_out):
    """Lists a LEAF that requires grad among the outputs (same construction on both twins): its rows of the Jacobian are identity
    rows w.r.t. itself, on top of what the other outputs contribute to it."""
    if leaf_out:
        x = prog.grad_leaves[leaf_out["src"] % len(prog.grad_leaves)]
        prog.outputs.insert(leaf_out["pos"] % (len(prog.outputs) + 1), x)
        prog.desc.append(f"LEAFOUT{leaf_out['src']}@{leaf_out['pos']}")


def _present(inputs, how):
    if how == "reversed":
        return list(reversed(inputs))
    if how == "tuple":
        return tuple(inputs)
    if how == "set":
        return set(inputs)
    if how == "gen":
        return (t for t in inputs)
    if how == "iter":
        return iter(list(inputs))
    return list(inputs)


def _run_large(case):
    """Two requested inputs of N scalars each, two scalar outputs whose gradients are known in closed form: the rows CONFLICT on
    the first input's block and agree (and dominate) on the second's, so aggregating the whole Jacobian differs from aggregating
    each input's block on its own."""
    from torchjd import backward
    c = case["large"]
    N, dtype = c["N"], (torch.float64 if c["dtype"] == "float64" else torch.float32)
    g = torch.Generator().manual_seed(c["seed"])
    a = torch.randn(N, generator=g, dtype=dtype).requires_grad_(True)
    b = torch.randn(N, generator=g, dtype=dtype).requires_grad_(True)
    c1 = torch.rand(N, generator=g, dtype=dtype) + 0.5
    c2 = torch.rand(N, generator=g, dtype=dtype) + 2.0
    c4 = torch.rand(N, generator=g, dtype=dtype) + 2.0
    y1 = (a * c1).sum() + (b * c2).sum()
    y2 = -0.5 * (a * c1).sum() + (b * c4).sum()
    sig = f"LARGE|N{N}|{c['agg']}|{c['chunk']}|{c['dtype']}|{c['seed']}"
    agg = make_agg(c["agg"], 2, dtype)
    try:
        backward([y1, y2], agg, inputs=[a, b], parallel_chunk_size=c["chunk"])
    except (RuntimeError, ValueError) as e:
        return {"ok": False, "sig": sig, "nontrivial": True, "key": "C01.value", "what": "valid backward call raised (large Jacobian)",
                "observed": f"{type(e).__name__}: {str(e)[:160]}", "expected": "success"}
    J = torch.stack([torch.cat([c1, c2]), torch.cat([-0.5 * c1, c4])])
    exp = make_agg(c["agg"], 2, dtype)(J)
    rtol = 1e-6 if dtype == torch.float64 else 2e-3
    for name, got, want in (("first", a.grad, exp[:N]), ("second", b.grad, exp[N:])):
        err = float((got - want).abs().max())
        scale = float(want.abs().max()) + float(exp.abs().max())
        if not err <= rtol * scale:
            return {"ok": False, "sig": sig, "nontrivial": True, "key": "C01.value",
                    "what": f"large Jacobian (2 x {2 * N}): .grad of the {name} input differs from its slice of A(J_ref)",
                    "observed": f"max abs error {err:.3e}; |got|max {float(got.abs().max()):.3e}",
                    "expected": f"|want|max {float(want.abs().max()):.3e} (tolerance {rtol * scale:.3e})"}
    return {"ok": True, "sig": sig, "nontrivial": True}


def run_case(case):
    if "large" in case:
        return _run_large(case)
    res = _run_case(case)
    if not res["ok"] and case.get("zero_out"):
        # is the zero-element output the cause?  the same case without it, on fresh twins
        plain = _run_case(dict(case, zero_out=None))
        if not plain["ok"]:
            return dict(plain, sig=res["sig"])
        res = dict(res, key="C01.zero_numel", what="only with a zero-element tensor among the outputs: " + res["what"])
    return res


def _run_case(case):
    from torchjd import backward

    p1, p2 = gen.build(case["prog"]), gen.build(case["prog"])
    _scale_outputs(p1, case.get("out_scales"))
    _scale_outputs(p2, case.get("out_scales"))
    _add_zero_outputs(p1, case.get("zero_out"))
    _add_zero_outputs(p2, case.get("zero_out"))
    _add_leaf_output(p1, case.get("leaf_out"))
    _add_leaf_output(p2, case.get("leaf_out"))
    m = n_rows(p1.outputs)
    dtype = p1.outputs[0].dtype
    agg = make_agg(case["agg"], m, dtype)
    sig = ("|".join(p1.desc) + f"|{case['agg']}|{case['chunk']}|{case['inputs']}{case['sel_seed']}|"
           f"{case.get('inputs_as')}|{case['pre']}")
    if agg is None:
        return {"ok": True, "sig": sig, "nontrivial": False, "note": "row requirement not met"}
    idx = choose_inputs(p1, case["sel_seed"], case["inputs"])
    chunk = case["chunk"]
    if isinstance(chunk, str):
        chunk = max(1, m + {"R": 0, "R+1": 1, "R-1": -1, "R-2": -2}[chunk])
    pre_mode, pre_scale = case["pre"], 1.0
    if case.get("out_scales") and pre_mode in ("all", "some"):  # pre-existing .grad of the magnitude of the update
        pre_scale = min(case["out_scales"][j % len(case["out_scales"])] for j in range(case["prog"]["n_outputs"]))
    pre_mode = "all" if pre_mode == "all_unscaled" else pre_mode
    set_pregrads(p1.leaves, case["sel_seed"], pre_mode, pre_scale)
    set_pregrads(p2.leaves, case["sel_seed"], pre_mode, pre_scale)
    before = [None if t.grad is None else t.grad.clone() for t in p2.leaves]
    inputs1 = [p1.grad_leaves[i] for i in idx]
    try:
        backward(p1.outputs, agg, inputs=_present(inputs1, case.get("inputs_as", "list")),
                 retain_graph=case["retain"], parallel_chunk_size=chunk)
    except (RuntimeError, ValueError) as e:  # the call is valid: it must be accepted
        return {"ok": False, "sig": sig, "nontrivial": m >= 2, "key": "C01.value",
                "what": "valid backward call raised",
                "observed": f"{type(e).__name__}: {str(e)[:160]}", "expected": "success"}
    J, exp = expected_update(p2, idx, make_agg(case["agg"], m, dtype))
    rtol, atol = AGG_TOL.get(case["agg"]["name"], gen.tol(dtype))
    if dtype == torch.float32:
        rtol, atol = max(rtol, 3e-4), max(atol, 3e-4)
    nontrivial = J.shape[0] >= 2 and J.shape[1] >= 2 and bool((J != 0).any())
    if selection_ambiguous(case["agg"], J):  # ties are excluded: the selected rows depend on rounding
        return {"ok": True, "sig": sig, "nontrivial": False, "note": "Krum scores tie"}
    sel = {id(p1.grad_leaves[i]): k for k, i in enumerate(idx)}
    scales = reach_scales(J, [p2.grad_leaves[i] for i in idx])
    for li, (t1, t2) in enumerate(zip(p1.leaves, p2.leaves)):
        pre = before[li]
        if id(t1) in sel:
            upd = exp[sel[id(t1)]]
            want = upd if pre is None else pre + upd
            if not increase_ok(t1.grad, pre, upd, rtol, atol, scales[sel[id(t1)]]):
                return {"ok": False, "sig": sig, "nontrivial": nontrivial, "key": "C01.value",
                        "what": f"input leaf {li}: the increase of .grad differs from the leaf's slice of A(J_ref)",
                        "observed": None if t1.grad is None else t1.grad.tolist(), "expected": want.tolist(),
                        "previous": None if pre is None else pre.tolist(), "J_ref": J.tolist()}
        else:
            same = (t1.grad is None and pre is None) or (t1.grad is not None and pre is not None and torch.equal(t1.grad, pre))
            if not same:
                return {"ok": False, "sig": sig, "nontrivial": nontrivial, "key": "C01.frame",
                        "what": f"leaf {li} is not a requested input but its .grad changed",
                        "observed": None if t1.grad is None else t1.grad.tolist(),
                        "expected": None if pre is None else pre.tolist()}
    return {"ok": True, "sig": sig, "nontrivial": nontrivial}
