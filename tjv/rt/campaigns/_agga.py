"""Shared, independent float64 oracles of the aggregator campaigns C03, C04, C09, C10, C11.

Nothing here calls into torchjd: the spec Gramian, the QP minimiser (active-set enumeration) and the
min-norm point of a convex hull (support enumeration) are recomputed from the mathematics with numpy.
"""
from __future__ import annotations

import itertools

import numpy as np
import torch

EPS = {"float32": float(np.finfo(np.float32).eps), "float64": float(np.finfo(np.float64).eps)}


def tdtype(name: str):
    return torch.float64 if name == "float64" else torch.float32


def eps_of(t: torch.Tensor) -> float:
    return float(torch.finfo(t.dtype).eps)


def to64(t: torch.Tensor) -> np.ndarray:
    return t.detach().cpu().numpy().astype(np.float64)


def sigma_max(J64: np.ndarray) -> float:
    if J64.size == 0:
        return 0.0
    return float(np.linalg.svd(J64, compute_uv=False)[0])


def spec_gramian(J64: np.ndarray, norm_eps: float, reg_eps: float) -> tuple[np.ndarray, float]:
    """RNG(J, norm_eps, reg_eps) := (0 if s < norm_eps else J J^T / s^2) + reg_eps I, and s."""
    m = J64.shape[0]
    s = sigma_max(J64)
    if s < norm_eps:
        G = np.zeros((m, m))
    else:
        Jn = J64 / s  # divide first: no overflow of J J^T at the ends of the scale range
        G = Jn @ Jn.T
    return G + reg_eps * np.eye(m), s


def qp_enum(G: np.ndarray, u: np.ndarray) -> tuple[np.ndarray, float]:
    """argmin v^T G v  s.t.  v >= u  for positive definite G, by enumeration of the 2^m active sets.

    For the active set A (v_A = u_A) the free part solves G_FF v_F = -G_FA u_A; the candidate is the
    minimiser iff v_F >= u_F and the multipliers (G v)_A >= 0.  Returns the candidate with the smallest
    scaled KKT violation, and that violation (0 up to rounding for the true active set)."""
    m = len(u)
    best, best_viol = None, np.inf
    scale = max(1.0, float(np.abs(u).max()))
    for mask in range(2**m):
        act = [i for i in range(m) if mask >> i & 1]
        free = [i for i in range(m) if not mask >> i & 1]
        v = np.array(u, dtype=np.float64)
        if free:
            rhs = -G[np.ix_(free, act)] @ u[act] if act else np.zeros(len(free))
            try:
                v[free] = np.linalg.solve(G[np.ix_(free, free)], rhs)
            except np.linalg.LinAlgError:
                continue
        Gv = G @ v
        viol = 0.0
        if free:
            viol = max(viol, float(np.max(u[free] - v[free])) / scale)
        if act:
            gs = max(1e-300, float(np.abs(G).max()) * max(float(np.abs(v).max()), 1e-300))
            viol = max(viol, float(np.max(-Gv[act])) / gs)
        if viol < best_viol:
            best, best_viol = v, viol
    return best, max(best_viol, 0.0)


def kkt_residuals(G: np.ndarray, u: np.ndarray, w: np.ndarray) -> dict:
    """Scaled KKT residuals of w for min v^T G v, v >= u: primal (u - w)+, dual (-(G w))+,
    complementarity |(w-u) . (G w)|, all relative to natural magnitudes."""
    Gw = G @ w
    wn = max(float(np.abs(w).max()), float(np.abs(u).max()), 1e-300)
    gn = max(float((np.abs(G) @ np.abs(w)).max()), 1e-300)
    return {
        "primal": float(np.max(u - w)) / wn,
        "dual": float(np.max(-Gw)) / gn,
        "compl": float(np.max(np.abs((w - u) * Gw))) / (wn * gn),
    }


def min_norm_enum(J64: np.ndarray) -> tuple[float, np.ndarray]:
    """min |J^T a|^2 over the simplex, by enumeration of supports.

    For each support S the equality-constrained minimiser (KKT system [[G_SS,1],[1^T,0]]) is computed by
    least squares; if it is non-negative (tiny negatives clipped, renormalised) it is a point of the
    hull, so its value is an upper bound of the optimum; the optimal (affinely independent, by
    Caratheodory) support attains it.  Works on the normalised rows J/s to be scale free; returns
    (min-norm^2 in the units of J, a)."""
    m = J64.shape[0]
    s = sigma_max(J64)
    if s == 0.0:
        return 0.0, np.ones(m) / m
    Jn = J64 / s
    best, best_a = np.inf, None
    for k in range(1, m + 1):
        for S in itertools.combinations(range(m), k):
            S = list(S)
            JS = Jn[S]
            GS = JS @ JS.T
            K = np.zeros((k + 1, k + 1))
            K[:k, :k] = GS
            K[:k, k] = 1.0
            K[k, :k] = 1.0
            rhs = np.zeros(k + 1)
            rhs[k] = 1.0
            sol = np.linalg.lstsq(K, rhs, rcond=None)[0]
            a = sol[:k]
            if a.min() < -1e-9:
                continue
            a = np.clip(a, 0.0, None)
            if a.sum() <= 0:
                continue
            a = a / a.sum()
            x = a @ JS
            val = float(x @ x)
            if val < best:
                best = val
                best_a = np.zeros(m)
                best_a[S] = a
    return best * s * s, best_a


def has_negative_inner_product(J64: np.ndarray) -> bool:
    s = sigma_max(J64)
    if s == 0.0:
        return False
    Jn = J64 / s
    G = Jn @ Jn.T
    return bool((G < 0).any())


def cond_number(J64: np.ndarray) -> float:
    sv = np.linalg.svd(J64, compute_uv=False)
    if sv[0] == 0.0:
        return np.inf
    k = min(J64.shape)
    return float(sv[0] / sv[k - 1]) if sv[k - 1] > 0 else np.inf


def krum_scores(J64: np.ndarray, f: int) -> np.ndarray:
    """Independent Krum scores (sum of the m-f-2 smallest distances to the other rows)."""
    m = J64.shape[0]
    s = sigma_max(J64) or 1.0
    Jn = J64 / s
    D = np.sqrt(((Jn[:, None, :] - Jn[None, :, :]) ** 2).sum(-1))
    out = np.zeros(m)
    for i in range(m):
        others = np.sort(np.delete(D[i], i))
        out[i] = others[: m - f - 2].sum()
    return out * s


def fail(key, what, sig, nontrivial, observed=None, expected=None, **extra):
    r = {"ok": False, "sig": sig, "nontrivial": bool(nontrivial), "key": key, "what": what,
         "observed": observed, "expected": expected}
    r.update(extra)
    return r


def small(x, limit=24):
    """JSON-able, small rendering of tensors / arrays for failure reports."""
    if isinstance(x, torch.Tensor):
        x = x.detach().cpu().flatten().tolist()
    elif isinstance(x, np.ndarray):
        x = x.flatten().tolist()
    if isinstance(x, (list, tuple)):
        return [float(v) if isinstance(v, (int, float)) else v for v in list(x)[:limit]]
    return x


def qp_enum_psd(G: np.ndarray, u: np.ndarray, tol: float = 1e-9):
    """An exact solution of the UNREGULARISED problem  min v^T G v, v >= u  for a positive SEMI-definite G, by
    enumeration of active sets with least-squares (minimum-norm) solves on the free part.  KKT (sufficient for a convex
    QP): G_FF v_F + G_FA u_A = 0, v_F >= u_F, (G v)_A >= 0.  Among the candidates that satisfy them up to `tol`
    (relative) the one of smallest Euclidean norm is returned (any solution serves as v0 in C09's bound);
    None if no active set qualifies (numerically ambiguous rank)."""
    m = len(u)
    gmax = max(float(np.abs(G).max()), 1e-300)
    best, best_norm = None, np.inf
    for mask in range(2**m):
        act = [i for i in range(m) if mask >> i & 1]
        free = [i for i in range(m) if not mask >> i & 1]
        v = np.array(u, dtype=np.float64)
        if free:
            rhs = -G[np.ix_(free, act)] @ u[act] if act else np.zeros(len(free))
            GF = G[np.ix_(free, free)]
            vF = np.linalg.lstsq(GF, rhs, rcond=1e-11)[0]
            v[free] = vF
        vs = max(float(np.abs(v).max()), 1e-300)
        Gv = G @ v
        if free:
            if float(np.abs(Gv[free]).max()) > tol * gmax * vs:
                continue  # inconsistent system: not stationary on the free part
            if float(np.max(u[free] - v[free])) > tol * vs:
                continue
        if act and float(np.max(-Gv[act])) > tol * gmax * vs:
            continue
        nv = float(np.linalg.norm(v))
        if nv < best_norm:
            best, best_norm = v, nv
    return best
