"""C13 [E]: retain_graph means what it means in torch.autograd — enumeration of call histories on the real code.

A case is a history of <= 3 differentiation calls on ONE graph, containing at least one torchjd call.  The same
history is executed on a twin graph where every torchjd call is replaced by the torch.autograd.backward call the
property names (same tensors, same inputs, same retain_graph flag).  Success / failure of every step must agree:

  C13.usable      the real history fails at a step where torch.autograd's succeeds (an internal sweep found its
                  path freed, or a retain_graph=True call left the graph unusable)
  C13.freed       the real history succeeds at a step where torch.autograd's fails (the graph was not freed as
                  torch.autograd.backward(..., retain_graph=False) frees it: e.g. a hard-wired retain_graph=True)
  C13.second_call two consecutive identical torchjd calls with retain_graph=True do not add the same update twice
"""
from __future__ import annotations

import itertools
import random

import torch

from tjv.rt import gen
from tjv.rt.aggs import make_agg
from ._autojac import as_container

RULE = ("history = sequence of 1..3 steps over one graph, >=1 step a torchjd call. backward family (templates "
        "nosave / save / mixed: ops that save no tensor such as x*2, ops that do such as x*x, sin, exp): steps "
        "(private: y1 and y2 share no node besides the leaves, both with saved tensors) jd = torchjd.backward(T, A, inputs=[a,b], retain_graph=r, parallel_chunk_size=k), tb = "
        "torch.autograd.backward(T, ones, inputs=[a,b], retain_graph=r), ag = torch.autograd.grad(T, [a,b], ones, "
        "retain_graph=r) with T in {[y1],[y2],[y1,y2]}, r in {F,T}, k in {None,1,2}. mtl family (trunk / heads each "
        "with or without saved tensors, heads sharing no node besides the features): steps mtl = mtl_backward(all "
        "losses, features, A, tasks_params, shared_params, r, k), jdf = torchjd.backward(features, A, inputs=shared, "
        "r, k), tb = loss_i.backward(retain_graph=r), agh = autograd.grad(loss_i, task_params_i, r) (head only), "
        "agt = autograd.grad(features, shared, r) (trunk only). Twin: jd/jdf -> torch.autograd.backward(T, ones, "
        "inputs=..., retain_graph=r); mtl -> torch.autograd.backward(losses, inputs=all params, retain_graph=r). "
        "Comparison stops after the first failing step. Variants of the mtl programs (field var): 2 or 3 tasks; "
        "DEAD heads whose loss has an exactly zero gradient (multiplied by 0.0 / by a zero mask tensor / relu of a "
        "negative number) so that a chunk of rows of the Jacobian has an all-zero cotangent (last chunk, first chunk, "
        "all chunks); tasks that list NO parameter (empty tasks_params entry: the head's parameter is not listed, or "
        "is frozen = does not require grad) with or without saved tensors in the head; extra probe agf = "
        "autograd.grad(loss_i, features) (works for parameter-free heads); chunk sizes up to 3. Variants of the "
        "backward programs: dead outputs (multiplied by 0.0); a zero-element tensor with a private graph among the tensors, then probed alone. Parameter lists of the torchjd calls are given as list "
        "/ tuple / one-shot iterator / generator (field cont). "
        "distinct = (family, template, variant, history); non-trivial = a "
        "torchjd step is followed by another step (its effect on the graph is observed)")
BOUNDS = "histories of <= 3 calls; 4 + 4 program templates; 2 inputs / 2 shared params, 2 outputs / 2..3 tasks"
EXHAUSTIVE = ("thorough: ALL histories of length <= 3 containing a torchjd call over the step alphabets above "
              "(28 steps for the backward family x 4 templates, 22 steps for the mtl family x 4 templates); ALL "
              "histories of length <= 2 containing a torchjd call over the extended mtl alphabet (k up to 3, probes "
              "of every task, agf) x 4 templates x every variant of VARIANTS (dead / empty / frozen patterns over 2 "
              "and 3 tasks); ALL 576 (first torchjd call, probe) pairs of the zero-element-tensor variant of the backward programs")

BW_TEMPLATES = ["nosave", "save", "mixed", "private"]
MTL_TEMPLATES = ["save_save", "nosave_nosave", "save_nosave", "nosave_save"]  # trunk_heads
AGGS = [{"name": "Sum"}, {"name": "Constant", "kind": "distinct"}, {"name": "UPGrad"}]


def _bw_alphabet():
    al = []
    for t in ([0], [1], [0, 1]):
        for r in (False, True):
            for k in (None, 1, 2):
                al.append({"op": "jd", "t": t, "r": r, "k": k})
            al.append({"op": "tb", "t": t, "r": r})
    for t in ([0], [1]):
        for r in (False, True):
            al.append({"op": "ag", "t": t, "r": r})
    return al


def _mtl_alphabet():
    al = []
    for r in (False, True):
        for k in (None, 1, 2):
            al.append({"op": "mtl", "r": r, "k": k})
            al.append({"op": "jdf", "r": r, "k": k})
        for i in (0, 1):
            al.append({"op": "tb", "i": i, "r": r})
            al.append({"op": "agh", "i": i, "r": r})
        al.append({"op": "agt", "r": r})
    return al


def _mtl_alphabet_ext(nt):
    """Alphabet of the variant programs: nt tasks, chunk sizes up to 3, the probe agf of every task."""
    al = []
    for r in (False, True):
        for k in (None, 1, 2, 3):
            al.append({"op": "mtl", "r": r, "k": k})
            al.append({"op": "jdf", "r": r, "k": k})
        for i in range(nt):
            al.append({"op": "tb", "i": i, "r": r})
            al.append({"op": "agh", "i": i, "r": r})
            al.append({"op": "agf", "i": i, "r": r})
        al.append({"op": "agt", "r": r})
    return al


def _var(nt, dead=None, dk="mul0", empty=None, frozen=None):
    z = [0] * nt
    return {"nt": nt, "dead": dead or z, "dk": dk, "empty": empty or z, "frozen": frozen or z}


DEAD_KINDS = ["mul0", "mask", "relu"]
# patterns in which the LAST chunk of rows is dead while an earlier one is alive come first (then the mirrors)
DEAD_PATTERNS = {2: [[0, 1], [1, 0], [1, 1]], 3: [[0, 0, 1], [0, 1, 1], [1, 0, 0], [0, 1, 0], [1, 1, 0], [1, 1, 1]]}
EMPTY_PATTERNS = {2: [[0, 1], [1, 0], [1, 1]], 3: [[0, 0, 1], [1, 0, 0], [0, 1, 1], [1, 1, 1]]}
VARIANTS = ([_var(nt, dead=d, dk=dk) for nt in (2, 3) for d in DEAD_PATTERNS[nt] for dk in DEAD_KINDS]
            + [_var(nt, empty=e) for nt in (2, 3) for e in EMPTY_PATTERNS[nt]]
            + [_var(nt, frozen=e) for nt in (2, 3) for e in EMPTY_PATTERNS[nt][:3]]
            + [_var(2, dead=[0, 1], empty=[0, 1]), _var(2, dead=[0, 1], empty=[1, 0]),
               _var(3, dead=[0, 0, 1], dk="mask", empty=[0, 1, 1]), _var(3)])

_JD = ("jd", "jdf", "mtl")


def _histories(alphabet):
    for n in (1, 2, 3):
        for h in itertools.product(alphabet, repeat=n):
            if any(s["op"] in _JD for s in h):
                yield list(h)


def cases(tier, seed, focus=None):
    rng = random.Random(13000 + seed)
    if tier == "thorough":
        i = 0
        for fam, tpls, al in (("bw", BW_TEMPLATES, _bw_alphabet()), ("mtl", MTL_TEMPLATES, _mtl_alphabet())):
            for tpl in tpls:
                for h in _histories(al):
                    i += 1
                    yield {"fam": fam, "tpl": tpl, "steps": h, "agg": AGGS[i % 3], "seed": i % 17,
                           "dtype": "float64" if i % 4 else "float32"}
        for var in VARIANTS:
            al = _mtl_alphabet_ext(var["nt"])
            for tpl in MTL_TEMPLATES:
                for h in itertools.product(al, repeat=2):
                    if any(s["op"] in _JD for s in h):
                        i += 1
                        yield {"fam": "mtl", "tpl": tpl, "steps": list(h), "agg": AGGS[i % 3], "seed": i % 17,
                               "dtype": "float64" if i % 4 else "float32", "var": var,
                               "cont": CONTAINERS[i % len(CONTAINERS)]}
        # a zero-element tensor with a private saved-tensor graph among the tensors: every (tensors, retain, chunk) first call x
        # every probe of one tensor
        for tpl in BW_TEMPLATES:
            # (not [2] alone: a Jacobian without any row is outside every property - the aggregators are specified for m >= 1 - and
            # the unchanged library raises ZeroDivisionError / a vmap ValueError from Jac there; DESIGN section 5, observation O1)
            for t in ([0, 1, 2], [2, 0], [1, 2]):
                for r in (False, True):
                    for k in (None, 1, 2, 3):
                        for op in ("ag", "tb"):
                            for pt in ([2], [0], [1]):
                                i += 1
                                yield {"fam": "bw", "tpl": tpl, "steps": [{"op": "jd", "t": t, "r": r, "k": k}, {"op": op, "t": pt, "r": False}],
                                       "agg": AGGS[i % 3], "seed": i % 17, "dtype": "float64" if i % 4 else "float32",
                                       "cont": CONTAINERS[i % len(CONTAINERS)], "var": {"dead": [0, 0], "empty_out": True}}
        return
    out = []
    rng2 = random.Random(13013000 + seed)  # stream of the later families (the earlier cases are kept as they were)
    for fam, tpls, al in (("bw", BW_TEMPLATES, _bw_alphabet()), ("mtl", MTL_TEMPLATES, _mtl_alphabet())):
        jd = [s for s in al if s["op"] in _JD]
        for j in range(200):
            n = rng.choice([2, 3, 3])
            h = [rng.choice(al) for _ in range(n)]
            if j % 4 == 0:  # a torchjd call first, then probes
                h[0] = rng.choice(jd)
            if j % 8 == 1:  # identical retained second call
                s = dict(rng.choice(jd), r=True)
                h[0], h[1] = s, dict(s)
            if j % 8 == 2:  # an unretained torchjd call observed by a probe of one part of the graph only
                probes = [s for s in al if s["op"] in ("agh", "agt", "ag", "tb")]
                h = [dict(rng.choice(jd), r=False), rng.choice(probes)] + h[2:]
            if not any(s["op"] in _JD for s in h):
                h[rng.randrange(n)] = rng.choice(jd)
            case = {"fam": fam, "tpl": rng.choice(tpls), "steps": h, "agg": rng.choice(AGGS),
                    "seed": rng.randrange(17), "dtype": rng.choice(["float64", "float32"])}
            r2 = random.Random(rng2.randrange(10**9))
            if j % 2 == 1:
                case["cont"] = r2.choice(CONTAINERS)
            if fam == "bw" and j % 4 == 1:
                case["var"] = {"dead": r2.choice([[0, 1], [1, 0], [1, 1]])}
            if fam == "mtl" and j % 4 in (1, 2):
                _quick_variant(case, j, r2)
            out.append(case)
    # variant programs again, in cases of their own: half of them the dead-head shape, a quarter the empty-entry shape
    al = _mtl_alphabet_ext(3)
    for j in range(160):
        r2 = random.Random(rng2.randrange(10**9))
        nsteps = r2.choice([2, 3, 3])
        h = [dict(r2.choice(_mtl_alphabet())) for _ in range(nsteps)]
        shape = [2, 1, 2, 5][j % 4]
        if shape == 1:
            s = dict(r2.choice([x for x in al if x["op"] in _JD]), r=True)
            h[0], h[1] = s, dict(s)
        if not any(x["op"] in _JD for x in h):
            h[r2.randrange(nsteps)] = dict(r2.choice([x for x in al if x["op"] in _JD]))
        case = {"fam": "mtl", "tpl": r2.choice(MTL_TEMPLATES), "steps": h, "agg": r2.choice(AGGS),
                "seed": r2.randrange(17), "dtype": r2.choice(["float64", "float32"]), "cont": r2.choice(CONTAINERS)}
        _quick_variant(case, shape, r2)
        out.append(case)
    # directed: an UNRETAINED (or retained) chunked torchjd call over both tensors, then a probe of ONE tensor, on every
    # backward template - in particular 'private', where freeing only part of the graph is observable
    for tpl in BW_TEMPLATES:
        for k in (None, 1, 2, 3):
            for probe_t in ([0], [1]):
                r2 = random.Random(rng2.randrange(10**9))
                h = [{"op": "jd", "t": [0, 1], "r": r2.random() < 0.2, "k": k},
                     {"op": r2.choice(["ag", "tb"]), "t": probe_t, "r": r2.random() < 0.5}]
                out.append({"fam": "bw", "tpl": tpl, "steps": h, "agg": r2.choice(AGGS), "seed": r2.randrange(17),
                            "dtype": r2.choice(["float64", "float32"]), "cont": r2.choice(CONTAINERS)})
    # directed: a zero-element tensor among the differentiated ones, then a probe of that tensor alone
    for tpl in BW_TEMPLATES:
        for k in (None, 1, 3):
            r2 = random.Random(rng2.randrange(10**9))
            retained = r2.random() < 0.25
            h = [{"op": "jd", "t": r2.choice([[0, 1, 2], [2, 0], [1, 2]]), "r": retained, "k": k},
                 {"op": r2.choice(["ag", "tb"]), "t": [2], "r": False}]
            out.append({"fam": "bw", "tpl": tpl, "steps": h, "agg": r2.choice(AGGS), "seed": r2.randrange(17),
                        "dtype": r2.choice(["float64", "float32"]), "cont": r2.choice(CONTAINERS),
                        "var": {"dead": [0, 0], "empty_out": True}})
    for c in out:
        yield c


CONTAINERS = ["list", "iter", "gen", "tuple"]


def _quick_variant(case, j, r2):
    """Gives an mtl case a program variant; the directed shapes of histories get the variants they are about."""
    nt = r2.choice([2, 3])
    al = _mtl_alphabet_ext(nt)
    var = _var(nt, dk=r2.choice(DEAD_KINDS))
    pats_d, pats_e = DEAD_PATTERNS[nt], EMPTY_PATTERNS[nt]
    h = case["steps"]
    if j % 8 == 1:  # identical retained calls: with tasks that list no parameter
        key = "frozen" if r2.random() < 0.3 else "empty"
        var[key] = r2.choice(pats_e)
        if h[0]["op"] != "mtl" and r2.random() < 0.6:
            h[0] = h[1] = {"op": "mtl", "r": True, "k": r2.choice([None, 1, 2, 3])}
        if len(h) > 2 or r2.random() < 0.5:  # then a probe of one head
            probe = {"op": r2.choice(["agf", "agh", "tb"]), "i": r2.randrange(nt), "r": r2.random() < 0.5}
            h[2:] = [probe]
    elif j % 8 == 2:  # unretained call then a probe of one part: with dead heads (zero cotangent chunks)
        var["dead"] = r2.choice(pats_d[:2] + pats_d)
        if r2.random() < 0.7:
            h[0] = {"op": "mtl", "r": False, "k": r2.choice([1, 1, 2, 3])}
            h[1] = r2.choice([s for s in al if s["op"] in ("agt", "jdf", "agf", "agh")])
            case["tpl"] = r2.choice(["save_save", "save_nosave", "save_save", "nosave_save"])
    else:
        if r2.random() < 0.5:
            var["dead"] = r2.choice(pats_d)
        if r2.random() < 0.5:
            var["frozen" if r2.random() < 0.3 else "empty"] = r2.choice(pats_e)
        for q in range(len(h)):  # steps of the extended alphabet (third task, agf, k = 3)
            if r2.random() < 0.4:
                h[q] = r2.choice(al)
        if not any(s["op"] in _JD for s in h):
            h[0] = r2.choice([s for s in al if s["op"] in _JD])
    case["var"] = var


# ----------------------------------------------------------------------------- programs


def _rt(g, shape, dtype):
    return (torch.rand(shape, generator=g, dtype=torch.float64) + 0.25).to(dtype)


def build_bw(tpl, seed, dtype, var=None):
    g = torch.Generator().manual_seed(seed)
    a = _rt(g, (3,), dtype).requires_grad_(True)
    b = _rt(g, (2,), dtype).requires_grad_(True)
    if tpl == "nosave":  # only ops whose backward needs no saved tensor (measured: +, -, neg, sum, mean, cat,
        # unsqueeze, cumsum, flip, unbind, narrow, add(alpha=) can be differentiated twice; x*2.0 cannot)
        h = a.sum() + torch.add(b.sum(), b.mean(), alpha=2.0)
        y1 = torch.cat([h.unsqueeze(0), (h + h).unsqueeze(0), (-h).unsqueeze(0)]) + a.cumsum(0)
        y2 = h - a.unbind(0)[0] + b.mean()
    elif tpl == "save":
        h = (a * a).sum() * b.sin().sum()
        y1 = torch.stack([h * h, h.exp(), h * a[1]])
        y2 = h.tanh() * b[0]
    elif tpl == "mixed":  # y1 through ops without saved tensors only; y2 through both kinds
        n = a.sum() + torch.add(b.sum(), b.mean(), alpha=2.0)
        t = (a * a).sum() + (b * b).sum()
        y1 = torch.cat([n.unsqueeze(0), (n + n).unsqueeze(0), (n + n + n).unsqueeze(0)]) + a.flip(0)
        y2 = t * 1.5 + n
    elif tpl == "private":  # y1 and y2 share NO node besides the leaves, and both sub-graphs hold saved tensors: freeing
        # the graph of one of them (a sweep that differentiates only some of the tensors) leaves the other one usable
        y1 = torch.stack([(a * a).sum() * b.exp().sum(), (a.sin() * a).sum(), (b * b).sum()])
        y2 = (a.exp().sum() * (b * b * b).sum()).tanh()
    else:
        raise KeyError(tpl)
    outs = [y1, y2]
    if var:  # dead outputs: exactly zero rows of the Jacobian
        outs = [o * 0.0 if d else o for o, d in zip(outs, var["dead"])]
    if var and var.get("empty_out"):
        # a third tensor WITHOUT ANY ELEMENT (per-sample losses under an all-False mask) whose private graph holds saved tensors: it
        # adds no row to the Jacobian, but torch.autograd.backward executes - and frees - its graph like any other
        outs.append((a.exp() * a)[:0] * b.exp().sum())
    return {"outs": outs, "inputs": [a, b], "leaves": [a, b]}


def build_mtl(tpl, seed, dtype, var=None):
    """var (see _var): nt tasks; dead[i]: the loss of task i has an exactly zero gradient (dk: how); empty[i]: the
    parameter of head i is NOT listed in tasks_params; frozen[i]: it does not require grad (and is not listed)."""
    var = var or _var(2)
    g = torch.Generator().manual_seed(seed)
    trunk_save, heads_save = [x == "save" for x in tpl.split("_")]
    s1 = _rt(g, (3,), dtype).requires_grad_(True)
    s2 = _rt(g, (2,), dtype).requires_grad_(True)
    if trunk_save:
        f1 = (s1 * s1)[:2] * s2
        f2 = s1.sin().sum() * s2.sum()
    else:
        f1 = s1.narrow(0, 0, 2) + torch.add(s2, s2.flip(0), alpha=2.0)
        f2 = s1.sum() + s2.mean() - s1.unbind(0)[2]
    losses, tps, ps = [], [], []
    for i in range(var["nt"]):
        p = _rt(g, (2,), dtype).requires_grad_(not var["frozen"][i])
        ps.append(p)
        if heads_save:
            loss = (f1 * p).sum() * f2 + (p * p).sum() * (i + 1.0)
        else:
            loss = f1.sum() if i == 0 else f1.cumsum(0).sum()
            loss = torch.add(loss, f2, alpha=2.0 - 3.0 * i) + torch.add(p.sum(), p.mean(), alpha=i + 1.0)
        if var["dead"][i]:
            if var["dk"] == "mul0":
                loss = loss * 0.0
            elif var["dk"] == "mask":
                loss = (torch.zeros((), dtype=dtype) * loss).sum()
            else:
                loss = torch.relu(-(loss * loss) - 1.0)
        losses.append(loss)
        tps.append([] if var["empty"][i] or var["frozen"][i] else [p])
    listed = [s1, s2] + [q for tp in tps for q in tp]
    return {"losses": losses, "features": [f1, f2], "tasks_params": tps, "shared": [s1, s2],
            "listed": listed, "leaves": [s1, s2] + [q for q in ps if q.requires_grad],
            "head_inputs": [[q] if q.requires_grad else [f1, f2] for q in ps]}


# ----------------------------------------------------------------------------- executing one step


def _ones(ts):
    return [torch.ones_like(t) for t in ts]


def _step(fam, prog, step, agg_spec, real: bool, cont: str = "list"):
    """Executes one step on prog; raises what the underlying call raises."""
    from torchjd import backward, mtl_backward

    op, r = step["op"], step["r"]
    dtype = prog["leaves"][0].dtype
    if fam == "bw":
        T = [prog["outs"][i] for i in step["t"]]
        ins = prog["inputs"]
        if op == "jd" and real:
            m = sum(t.numel() for t in T)
            backward(T, make_agg(agg_spec, m, dtype), inputs=as_container(ins, cont), retain_graph=r,
                     parallel_chunk_size=step["k"])
        elif op in ("jd", "tb"):
            torch.autograd.backward(T, _ones(T), inputs=ins, retain_graph=r)
        elif op == "ag":
            torch.autograd.grad(T, ins, _ones(T), retain_graph=r)
        else:
            raise KeyError(op)
        return
    feats, shared = prog["features"], prog["shared"]
    if op == "mtl":
        if real:
            mtl_backward(prog["losses"], feats, make_agg(agg_spec, len(prog["losses"]), dtype),
                         tasks_params=[as_container(tp, cont) for tp in prog["tasks_params"]],
                         shared_params=as_container(shared, cont), retain_graph=r, parallel_chunk_size=step["k"])
        else:
            torch.autograd.backward(prog["losses"], retain_graph=r, inputs=prog["listed"])
    elif op == "jdf":
        if real:
            m = sum(f.numel() for f in feats)
            backward(feats, make_agg(agg_spec, m, dtype), inputs=as_container(shared, cont), retain_graph=r,
                     parallel_chunk_size=step["k"])
        else:
            torch.autograd.backward(feats, _ones(feats), inputs=shared, retain_graph=r)
    elif op == "tb":
        prog["losses"][step["i"]].backward(retain_graph=r)
    elif op == "agh":  # head only: w.r.t. the head's parameter (the features when that parameter is frozen)
        torch.autograd.grad(prog["losses"][step["i"]], prog["head_inputs"][step["i"]], retain_graph=r,
                            allow_unused=True)
    elif op == "agf":  # head only, whatever the head's parameters
        torch.autograd.grad(prog["losses"][step["i"]], feats, retain_graph=r, allow_unused=True)
    elif op == "agt":
        torch.autograd.grad(feats, shared, _ones(feats), retain_graph=r)
    else:
        raise KeyError(op)


def _grads(prog):
    return [None if t.grad is None else t.grad.detach().clone() for t in prog["leaves"]]


def _delta(after, before):
    return [None if a is None else (a if b is None else a - b) for a, b in zip(after, before)]


def run_case(case):
    fam, tpl, steps = case["fam"], case["tpl"], case["steps"]
    dtype = torch.float64 if case["dtype"] == "float64" else torch.float32
    build = build_bw if fam == "bw" else build_mtl
    var, cont = case.get("var"), case.get("cont", "list")
    p1, p2 = build(tpl, case["seed"], dtype, var), build(tpl, case["seed"], dtype, var)
    sig = f"{fam}|{tpl}|" + ";".join(
        f"{s['op']}{s.get('t', s.get('i', ''))}{'R' if s['r'] else 'F'}{s.get('k', '')}" for s in steps)
    if var:
        sig += "|" + ",".join(f"{k}{''.join(map(str, v)) if isinstance(v, list) else v}" for k, v in sorted(var.items()))
    first_jd = next(i for i, s in enumerate(steps) if s["op"] in _JD)
    base = {"sig": sig, "nontrivial": first_jd < len(steps) - 1}
    prev_delta = None
    for i, step in enumerate(steps):
        before = _grads(p1)
        torch.manual_seed(0)
        real_err = twin_err = None
        try:
            _step(fam, p1, step, case["agg"], real=True, cont=cont)
        except Exception as e:  # success / failure of the step IS the observation
            real_err = e
        try:
            _step(fam, p2, step, case["agg"], real=False)
        except RuntimeError as e:
            twin_err = e
        hist = sig.split("|")[2].split(";")[: i + 1]
        if real_err is not None and twin_err is None:
            return dict(base, ok=False, key="C13.usable",
                        what=f"step {i} ({hist[-1]}) fails although the same history driven by torch.autograd succeeds",
                        observed=f"{type(real_err).__name__}: {str(real_err)[:140]}", expected="success",
                        history=hist)
        if real_err is None and twin_err is not None:
            return dict(base, ok=False, key="C13.freed",
                        what=f"step {i} ({hist[-1]}) succeeds although the same history driven by torch.autograd "
                             "fails: the graph was not freed as torch.autograd.backward frees it",
                        observed="success", expected=f"RuntimeError: {str(twin_err)[:100]}", history=hist)
        if real_err is not None:
            return dict(base, ok=True, note=f"both fail at step {i}")
        delta = _delta(_grads(p1), before)
        if i > 0 and step["op"] in _JD and step["r"] and steps[i - 1] == step and prev_delta is not None:
            rtol, atol = (1e-9, 1e-10) if dtype == torch.float64 else (1e-4, 1e-5)
            for li, (d1, d2) in enumerate(zip(prev_delta, delta)):
                if (d1 is None) != (d2 is None) or (d1 is not None and not gen.close(d2, d1, rtol, atol * max(
                        1.0, float(d1.abs().max())))):
                    return dict(base, ok=False, key="C13.second_call",
                                what=f"identical second call with retain_graph=True (step {i}) adds a different "
                                     f"update to leaf {li}",
                                observed=None if d2 is None else d2.tolist(),
                                expected=None if d1 is None else d1.tolist(), history=hist)
        prev_delta = delta
    return dict(base, ok=True)
