"""C14 [E]: transform pipelines are key-typed — exhaustive enumeration of transform terms on the real classes.

An independent reference "type checker" (``ref_sig``: required/output keys or "cannot be built"; ``ref_apply``: abstract
interpretation over (dictionary class, per-key value kind)) predicts for every term whether the real constructor accepts
it, what ``required_keys``/``output_keys`` it declares, and what calling it on a dictionary gives.

Finding keys:
  C14.compose      Composition(outer, inner) is accepted iff outer.required_keys == inner.output_keys; declared keys.
  C14.conjunction  Conjunction(ts) is accepted iff all members require the same keys and output disjoint keys; declared keys.
  C14.construct    the other constructors: Select (keys subset of required_keys), Stack (same required keys),
                   Diagonalize (no duplicate keys), Init/Accumulate (always); declared keys.
  C14.call_keys    calling a transform on a dictionary whose key set differs from required_keys raises ValueError (and
                   writes no .grad).
  C14.output       on the right key set the call behaves as the reference predicts: it succeeds with exactly output_keys,
                   the predicted dictionary class (most specific common class of the parts) and value shapes, or raises
                   where the value shapes contradict the dictionary type.
  C14.assoc        (t1 o t2) o t3 == t1 o (t2 o t3); t1|t2 == t2|t1; (t1|t2)|t3 == t1|(t2|t3) == Conjunction([t1,t2,t3]):
                   same declared keys, and same class/keys/values/.grad whenever both applications succeed.
  C14.immutable    the six dictionary classes raise TypeError on setitem, delitem, update, pop, popitem, clear,
                   setdefault and keep their content.
  C14.shape_check  Gradients, Jacobians, GradientVectors, JacobianMatrices, EmptyTensorDict accept exactly the key/value
                   shape combinations their type allows (grid 0-d..3-d keys, 0-d..4-d values, one and two pairs).
  C14.lca          _least_common_ancestor on all 6 x 6 class pairs = the least upper bound in the class lattice.
"""
from __future__ import annotations

import itertools
import random

import torch

from ._aggb import fail, ok

RULE = ("terms over the key universe {a: shape (), b: shape (2,), c: shape (1,2)} (leaf tensors requiring grad): atoms "
        "Init(K), Select(K,R) (K subset of R), Diagonalize(K), Accumulate(R) for all K,R (51 atoms); composites "
        "Composition(t,u), Conjunction([t]), Conjunction([t,u]), Stack([t]), Stack([t,u]) over ALL ordered pairs of "
        "constructible terms of smaller depth. One case = one (constructor, left child) row of the enumeration: every "
        "right child is tried, each attempt is compared with the reference (accept/reject, declared keys) and every "
        "accepted term is called on the dictionaries {Gradients, Jacobians(m=2), plain TensorDict} over its required "
        "keys (EmptyTensorDict/Gradients({})/Jacobians({}) when none) and on dictionaries over wrong key sets (all 7 "
        "other subsets at depth <= 2, two of them at depth 3). .grad of the universe is reset before every call. "
        "distinct = (clause, constructor, left child | grid point); non-trivial row: >=1 accepted and >=1 rejected "
        "construction")
BOUNDS = "3 keys, nesting depth <= 3, conjunction/stack arity <= 2 in the enumeration (arity 0 and 3 in dedicated cases)"
EXHAUSTIVE = ("thorough: all 3.9e6 construction attempts of depth <= 3 (1136 constructible terms of depth <= 2 as "
              "children) and all ~5e5 constructible depth-3 terms called; associativity/commutativity over all triples "
              "of atoms; 6x6 LCA table; immutability: 6 classes x all mutators; shape grid 13 key shapes x 30 value "
              "shapes x 5 types. quick: depth <= 2 exhaustively + a sample of depth-3 rows")

KEY_SHAPES = [(), (2,), (1, 2)]
NUMEL = [1, 2, 2]
FULL = 7


def bits(mask):
    return [i for i in range(3) if mask >> i & 1]


def submasks(R):
    return [K for K in range(8) if K & ~R == 0]


# ================================================================================================ reference

ATOMS = ([("init", K) for K in range(8)] + [("sel", K, R) for R in range(8) for K in submasks(R)]
         + [("diag", K) for K in range(8)] + [("acc", R) for R in range(8)])
CTORS = ["comp", "conj", "stack", "conj1", "stack1"]


def ref_sig(t):
    """(required mask, output mask) or None when the term cannot be built."""
    k = t[0]
    if k == "init":
        return (0, t[1])
    if k == "sel":
        return (t[2], t[1]) if t[1] & ~t[2] == 0 else None
    if k == "diag":
        return (t[1], t[1])
    if k == "acc":
        return (t[1], 0)
    subs = [ref_sig(c) for c in t[1:]]
    if any(s is None for s in subs):
        return None
    return ref_combine(k, subs)


def ref_combine(k, subs):
    if k == "comp":
        so, si = subs
        return (si[0], so[1]) if so[0] == si[1] else None
    req = 0
    for s in subs:
        req |= s[0]
    if any(s[0] != req for s in subs):
        return None
    out = 0
    for s in subs:
        if k.startswith("conj") and out & s[1]:
            return None
        out |= s[1]
    return (req, out)


MIDDLE = {"Gradients", "Jacobians", "GradientVectors", "JacobianMatrices"}


def ref_lca(x, y):
    """Least upper bound in the lattice EmptyTensorDict < {Gradients, Jacobians, GradientVectors, JacobianMatrices}
    < TensorDict."""
    if x == y:
        return x
    if x == "EmptyTensorDict":
        return y
    if y == "EmptyTensorDict":
        return x
    return "TensorDict"


OK, RAISE, UNSPEC = "ok", "raise", "unspec"


def ref_apply(t, ad):
    """Abstract application.  ad = (class name, kinds) with kinds[i] in {None (absent), 'g' (value shaped like the key),
    int m (value of shape (m,) + key shape)}.  Precondition: the present keys are exactly the required keys of t.
    Returns (OK, class, kinds) | (RAISE, allowed exception names) | (UNSPEC,)."""
    k = t[0]
    cls, kinds = ad
    if k == "init":
        return (OK, "Gradients", tuple("g" if t[1] >> i & 1 else None for i in range(3)))
    if k == "sel":
        return (OK, cls, tuple(kinds[i] if t[1] >> i & 1 else None for i in range(3)))
    if k == "diag":
        if t[1] == 0:
            return (UNSPEC,)  # torch.cat of an empty list: not a key-typing question
        n = sum(NUMEL[i] * (1 if kinds[i] == "g" else kinds[i]) for i in bits(t[1]))
        return (OK, "Jacobians", tuple(n if t[1] >> i & 1 else None for i in range(3)))
    if k == "acc":
        if all(kinds[i] == "g" for i in bits(t[1])):
            return (OK, "EmptyTensorDict", (None, None, None))
        return (UNSPEC,)  # .grad of another shape: rejected by torch itself
    if k == "comp":
        r = ref_apply(t[2], ad)
        if r[0] != OK:
            return r
        return ref_apply(t[1], (r[1], r[2]))
    rs = []
    for c in t[1:]:
        r = ref_apply(c, ad)
        if r[0] != OK:
            return r
        rs.append(r)
    if k.startswith("conj"):
        c_out = "EmptyTensorDict"
        merged = [None, None, None]
        for r in rs:
            c_out = ref_lca(c_out, r[1])
            for i in range(3):
                if r[2][i] is not None:
                    merged[i] = r[2][i]
        if c_out == "Jacobians" and len({m for m in merged if m is not None}) > 1:
            return (RAISE, ("ValueError",))  # first dimensions contradict the Jacobians type
        return (OK, c_out, tuple(merged))
    # stack
    merged = [None, None, None]
    for i in range(3):
        present = [r[2][i] for r in rs if r[2][i] is not None]
        if present:
            if any(p != "g" for p in present):
                return (RAISE, ("ValueError", "RuntimeError"))  # a stacked value cannot have the Jacobian shape
            merged[i] = len(rs)
    return (OK, "Jacobians", tuple(merged))


# ================================================================================================ the real side


class World:
    """One universe of key tensors, the real transforms of the pool built over it, and the input dictionaries."""

    def __init__(self):
        import torchjd.autojac._transform as T

        self.T = T
        g = torch.Generator().manual_seed(14)
        self.keys = [torch.randn(s, generator=g, dtype=torch.float64).requires_grad_(True) for s in KEY_SHAPES]
        self.gvals = [torch.randn(s, generator=g, dtype=torch.float64) for s in KEY_SHAPES]
        self.jvals = [torch.randn((2,) + s, generator=g, dtype=torch.float64) for s in KEY_SHAPES]
        self.key_index = {id(k): i for i, k in enumerate(self.keys)}
        self.cache = {}

    def kset(self, mask):
        return [self.keys[i] for i in bits(mask)]

    def mask_of(self, tensors):
        m = 0
        for t in tensors:
            m |= 1 << self.key_index[id(t)]
        return m

    def build(self, t):
        """Real transform for a term (children cached); raises what the real constructors raise."""
        if t in self.cache:
            return self.cache[t]
        T, k = self.T, t[0]
        if k == "init":
            r = T.Init(self.kset(t[1]))
        elif k == "sel":
            r = T.Select(self.kset(t[1]), self.kset(t[2]))
        elif k == "diag":
            r = T.Diagonalize(self.kset(t[1]))
        elif k == "acc":
            r = T.Accumulate(self.kset(t[1]))
        else:
            r = self.combine(k, [self.build(c) for c in t[1:]])
        self.cache[t] = r
        return r

    def try_build(self, t):
        """(real, None) or (None, failure dict): a term the reference accepts must be constructible."""
        try:
            return self.build(t), None
        except ValueError as e:
            return None, {"key": KEYS_OF.get(t[0], "C14.construct"),
                          "what": f"a well-keyed sub-term of {_desc(t)} was rejected: {str(e)[:60]}",
                          "observed": "ValueError", "expected": "constructed"}

    def combine(self, k, subs):
        T = self.T
        if k == "comp":
            return T.Composition(subs[0], subs[1])
        if k.startswith("conj"):
            return T.Conjunction(subs)
        return T.Stack(subs)

    def reset_grads(self):
        for k in self.keys:
            k.grad = None

    def grads(self):
        return [None if k.grad is None else k.grad.clone() for k in self.keys]

    def make_input(self, cls, mask):
        T = self.T
        if cls == "Gradients":
            return T.Gradients({self.keys[i]: self.gvals[i] for i in bits(mask)}), ("Gradients", self._kinds(mask, "g"))
        if cls == "Jacobians":
            return T.Jacobians({self.keys[i]: self.jvals[i] for i in bits(mask)}), ("Jacobians", self._kinds(mask, 2))
        if cls == "TensorDict":
            return T.TensorDict({self.keys[i]: self.gvals[i] for i in bits(mask)}), ("TensorDict", self._kinds(mask, "g"))
        if cls == "EmptyTensorDict":
            assert mask == 0
            return T.EmptyTensorDict(), ("EmptyTensorDict", (None, None, None))
        raise KeyError(cls)

    @staticmethod
    def _kinds(mask, kind):
        return tuple(kind if mask >> i & 1 else None for i in range(3))


_WORLD = None
_POOLS = {}


def world():
    global _WORLD
    if _WORLD is None:
        _WORLD = World()
    return _WORLD


def pool(depth):
    """All constructible terms of nesting depth <= depth (by the reference), with their reference signatures."""
    if depth in _POOLS:
        return _POOLS[depth]
    if depth == 1:
        res = [(a, ref_sig(a)) for a in ATOMS]
    else:
        prev = pool(depth - 1)
        older = len(pool(depth - 2)) if depth >= 3 else 0
        res = list(prev)
        for ctor in CTORS:
            for i, (a, sa) in enumerate(prev):
                if ctor.endswith("1"):
                    if i >= older:
                        s = ref_combine(ctor, [sa])
                        if s is not None:
                            res.append(((ctor, a), s))
                    continue
                for j, (b, sb) in enumerate(prev):
                    if i < older and j < older:
                        continue  # already a term of smaller depth
                    s = ref_combine(ctor, [sa, sb])
                    if s is not None:
                        res.append(((ctor, a, b), s))
    _POOLS[depth] = res
    return res


KEYS_OF = {"comp": "C14.compose", "conj": "C14.conjunction", "conj1": "C14.conjunction", "stack": "C14.construct",
           "stack1": "C14.construct"}


def _desc(t):
    k = t[0]
    names = "abc"
    ks = lambda m: "{" + ",".join(names[i] for i in bits(m)) + "}"
    if k == "init":
        return f"Init{ks(t[1])}"
    if k == "sel":
        return f"Select({ks(t[1])}<={ks(t[2])})"
    if k == "diag":
        return f"Diag{ks(t[1])}"
    if k == "acc":
        return f"Acc{ks(t[1])}"
    if k == "comp":
        return f"({_desc(t[1])} o {_desc(t[2])})"
    return ("Conj[" if k.startswith("conj") else "Stack[") + ", ".join(_desc(c) for c in t[1:]) + "]"


def check_construct(W, ctor, subs_terms, subs_real, expect):
    """Real constructor vs reference.  Returns (real transform or None, failure dict or None)."""
    key = KEYS_OF[ctor]
    try:
        real = W.combine(ctor, subs_real)
        err = None
    except ValueError:
        real, err = None, "ValueError"
    except Exception as e:
        real, err = None, type(e).__name__
    term = (ctor,) + tuple(subs_terms)
    if expect is None:
        if err != "ValueError":
            return None, {"key": key, "what": f"{_desc(term)}: ill-keyed term was not rejected with ValueError",
                          "observed": err or "constructed", "expected": "ValueError"}
        return None, None
    if err is not None:
        return None, {"key": key, "what": f"{_desc(term)}: well-keyed term was rejected", "observed": err,
                      "expected": "constructed"}
    req, out = W.mask_of(real.required_keys), W.mask_of(real.output_keys)
    if (req, out) != expect or len(real.required_keys) != len(bits(req)) or len(real.output_keys) != len(bits(out)):
        return real, {"key": key, "what": f"{_desc(term)}: declared (required, output) keys differ from the reference",
                      "observed": [bits(req), bits(out)], "expected": [bits(expect[0]), bits(expect[1])]}
    return real, None


def input_classes(req):
    return ["EmptyTensorDict", "Gradients", "Jacobians"] if req == 0 else ["Gradients", "Jacobians", "TensorDict"]


def call_real(W, real, d):
    W.reset_grads()
    try:
        return real(d), None
    except Exception as e:
        return None, type(e).__name__


def check_calls(W, term, real, sig_, wrong_masks):
    """Calls the real transform on right and wrong key sets; returns a failure dict or None, and the call count."""
    req, out = sig_
    n = 0
    for wm in wrong_masks:
        if wm == req:
            continue
        d, _ = W.make_input("Jacobians" if (wm + req) % 3 == 0 else "Gradients", wm)
        res, err = call_real(W, real, d)
        n += 1
        if err != "ValueError" or any(k.grad is not None for k in W.keys):
            return {"key": "C14.call_keys", "what": f"{_desc(term)} called on keys {bits(wm)} != required {bits(req)}: "
                    "no ValueError (or .grad written)", "observed": err or "returned", "expected": "ValueError"}, n
    for cls in input_classes(req):
        d, ad = W.make_input(cls, req)
        pred = ref_apply(term, ad)
        res, err = call_real(W, real, d)
        n += 1
        if pred[0] == UNSPEC:
            if err is None:
                f = _check_result(W, res, out, None, None)
                if f:
                    return {"key": "C14.output", "what": f"{_desc(term)} on {cls}: {f}", "observed": f, "expected": "output_keys"}, n
            continue
        if pred[0] == RAISE:
            if err not in pred[1]:
                return {"key": "C14.output", "what": f"{_desc(term)} on {cls}: value shapes contradict the dictionary "
                        "type yet no rejection", "observed": err or f"returned {type(res).__name__}",
                        "expected": list(pred[1])}, n
            continue
        if err is not None:
            return {"key": "C14.output" if err != "ValueError" else "C14.call_keys",
                    "what": f"{_desc(term)} on {cls} over its required keys raised", "observed": err,
                    "expected": f"{pred[1]} over {bits(out)}"}, n
        f = _check_result(W, res, out, pred[1], pred[2])
        if f:
            return {"key": "C14.output", "what": f"{_desc(term)} on {cls}: {f}", "observed": f,
                    "expected": f"{pred[1]} over {bits(out)} kinds {pred[2]}"}, n
    return None, n


def _check_result(W, res, out, cls, kinds):
    if not isinstance(res, W.T.TensorDict):
        return f"result is a {type(res).__name__}, not a TensorDict"
    try:
        got = W.mask_of(res.keys())
    except KeyError:
        return "result has a key outside the universe"
    if got != out or len(res) != len(bits(out)):
        return f"result keys {bits(got)} differ from output_keys {bits(out)}"
    if cls is not None and type(res).__name__ != cls:
        return f"result class {type(res).__name__} differs from the most specific common class {cls}"
    if kinds is not None:
        for i in bits(out):
            want = KEY_SHAPES[i] if kinds[i] == "g" else (kinds[i],) + KEY_SHAPES[i]
            if tuple(res[W.keys[i]].shape) != tuple(want):
                return f"value of key {i} has shape {tuple(res[W.keys[i]].shape)}, expected {want}"
    return None


# ================================================================================================ clauses


def _row(case, sig):
    """One row of the enumeration: constructor x fixed left child x every (or sampled) right child."""
    W = world()
    depth, ctor, li = case["depth"], case["ctor"], case["left"]
    P = pool(depth - 1)
    older = len(pool(depth - 2)) if depth >= 3 else 0
    lt, ls = P[li]
    lreal, f = W.try_build(lt)
    if f:
        return fail(sig, True, f["key"], f["what"], f["observed"], f["expected"])
    n_ok = n_rej = n_calls = 0
    if ctor.endswith("1"):
        rights = [None]
    elif "sample" in case:
        r = random.Random(case["sample"])
        cand = [j for j in range(len(P)) if not (li < older and j < older)]
        rights = r.sample(cand, min(case["n_right"], len(cand)))
    else:
        rights = [j for j in range(len(P)) if not (li < older and j < older)]
    for j in rights:
        if j is None:
            terms, reals, sigs = [lt], [lreal], [ls]
        else:
            rt, rs = P[j]
            rreal, f = W.try_build(rt)
            if f:
                return fail(sig, True, f["key"], f["what"], f["observed"], f["expected"])
            terms, reals, sigs = [lt, rt], [lreal, rreal], [ls, rs]
        expect = ref_combine(ctor, sigs)
        real, f = check_construct(W, ctor, terms, reals, expect)
        if f:
            return fail(sig, True, f["key"], f["what"], f["observed"], f["expected"])
        if real is None:
            n_rej += 1
            continue
        n_ok += 1
        term = (ctor,) + tuple(terms)
        if depth <= 2:
            wrong = range(8)
        else:
            req = expect[0]
            wrong = [(req ^ (1 << ((li + (j or 0)) % 3))), (req + 3) % 8]
        f, n = check_calls(W, term, real, expect, wrong)
        n_calls += n
        if f:
            return fail(sig, True, f["key"], f["what"], f["observed"], f["expected"])
    return ok(sig, n_ok >= 1 and (n_rej >= 1 or ctor.endswith("1")), f"{n_ok} accepted, {n_rej} rejected, {n_calls} calls")


def _atoms(case, sig):
    """Constructor acceptance of the atoms, including ill-formed Select / Diagonalize, arity 0 and 3, then calls."""
    W = world()
    T = W.T
    kind = case["atom"]
    if kind == "select_grid":
        for K in range(8):
            for R in range(8):
                valid = K & ~R == 0
                try:
                    s = T.Select(W.kset(K), W.kset(R))
                    err = None
                except ValueError:
                    err = "ValueError"
                if valid != (err is None):
                    return fail(sig, True, "C14.construct", f"Select(keys={bits(K)}, required={bits(R)})", err or "constructed",
                                "constructed" if valid else "ValueError")
                if valid and (W.mask_of(s.required_keys), W.mask_of(s.output_keys)) != (R, K):
                    return fail(sig, True, "C14.construct", f"Select({bits(K)},{bits(R)}): declared keys", None, [R, K])
        return ok(sig, True)
    if kind == "diag_dup":
        for lst in ([0, 0], [0, 1, 0], [2, 1, 2], [1, 1, 1]):
            try:
                T.Diagonalize([W.keys[i] for i in lst])
                return fail(sig, True, "C14.construct", f"Diagonalize with duplicate keys {lst} was accepted", "constructed",
                            "ValueError")
            except ValueError:
                pass
        for perm in itertools.permutations(range(3)):
            d = T.Diagonalize([W.keys[i] for i in perm])
            if W.mask_of(d.required_keys) != FULL or W.mask_of(d.output_keys) != FULL:
                return fail(sig, True, "C14.construct", "Diagonalize declared keys", None, FULL)
        return ok(sig, True)
    if kind == "atom_calls":
        for t, s in pool(1):
            real = W.build(t)
            if (W.mask_of(real.required_keys), W.mask_of(real.output_keys)) != s:
                return fail(sig, True, "C14.construct", f"{_desc(t)}: declared keys differ from the reference",
                            [bits(W.mask_of(real.required_keys)), bits(W.mask_of(real.output_keys))], [bits(s[0]), bits(s[1])])
            f, _ = check_calls(W, t, real, s, range(8))
            if f:
                return fail(sig, True, f["key"], f["what"], f["observed"], f["expected"])
        return ok(sig, True)
    if kind == "arity":
        # arity 0 and arity 3 conjunctions / stacks over atoms (sampled triples)
        for ctor in ("conj", "stack"):
            real, f = check_construct(W, ctor, [], [], (0, 0))
            if f:
                return fail(sig, True, f["key"], f["what"], f["observed"], f["expected"])
            f, _ = check_calls(W, (ctor,), real, (0, 0), range(8))
            if f:
                return fail(sig, True, f["key"], f["what"], f["observed"], f["expected"])
        r = random.Random(case["seed"])
        P = pool(2)
        for _ in range(case["n"]):
            ctor = r.choice(["conj", "stack"])
            base = P[r.randrange(len(P))]
            same_req = [p for p in P if p[1][0] == base[1][0]]
            trip = [base] + [r.choice(same_req if r.random() < 0.8 else P) for _ in range(2)]
            expect = ref_combine(ctor, [p[1] for p in trip])
            terms = [p[0] for p in trip]
            built = [W.try_build(t) for t in terms]
            for _, f in built:
                if f:
                    return fail(sig, True, f["key"], f["what"], f["observed"], f["expected"])
            real, f = check_construct(W, ctor, terms, [b for b, _ in built], expect)
            if f:
                return fail(sig, True, f["key"], f["what"], f["observed"], f["expected"])
            if real is not None:
                f, _ = check_calls(W, (ctor,) + tuple(terms), real, expect, range(8))
                if f:
                    return fail(sig, True, f["key"], f["what"], f["observed"], f["expected"])
        return ok(sig, True)
    raise KeyError(kind)


def _same_result(W, realA, realB, cls, req):
    """Both applications on the same input; compares class, keys, values and .grad when both succeed."""
    d, _ = W.make_input(cls, req)
    ra, ea = call_real(W, realA, d)
    ga = W.grads()
    d, _ = W.make_input(cls, req)
    rb, eb = call_real(W, realB, d)
    gb = W.grads()
    if ea is not None or eb is not None:
        return None, False
    if type(ra) is not type(rb):
        return f"classes differ: {type(ra).__name__} vs {type(rb).__name__}", True
    if set(map(id, ra.keys())) != set(map(id, rb.keys())):
        return "key sets differ", True
    for k in ra.keys():
        if ra[k].shape != rb[k].shape or not torch.equal(ra[k], rb[k]):
            return "values differ", True
    for x, y in zip(ga, gb):
        if (x is None) != (y is None) or (x is not None and not torch.equal(x, y)):
            return ".grad side effects differ", True
    return None, True


def _assoc(case, sig):
    W = world()
    P = pool(case["depth"])
    i, j, k = case["triple"]
    (t1, s1), (t2, s2), (t3, s3) = P[i], P[j], P[k]
    T = W.T
    compared = 0
    try:
        return _assoc_checked(W, T, case, sig, (t1, s1), (t2, s2), (t3, s3))
    except ValueError as e:
        if "keys" not in str(e):
            raise
        return fail(sig, True, "C14.assoc", f"a re-association of {_desc(t1)}, {_desc(t2)}, {_desc(t3)} could not be built",
                    str(e)[:80], "constructed")


def _assoc_checked(W, T, case, sig, p1, p2, p3):
    (t1, s1), (t2, s2), (t3, s3) = p1, p2, p3
    r1, r2, r3 = W.build(t1), W.build(t2), W.build(t3)
    compared = 0
    if case["law"] == "comp":
        c12, c23 = ref_combine("comp", [s1, s2]), ref_combine("comp", [s2, s3])
        if c12 is None or c23 is None:
            return ok(sig, False, "not composable")
        A = T.Composition(T.Composition(r1, r2), r3)
        B = T.Composition(r1, T.Composition(r2, r3))
        C = (r1 << r2) << r3
        variants = [("(t1 o t2) o t3 vs t1 o (t2 o t3)", A, B), ("operator << vs Composition", C, B)]
    else:
        if ref_combine("conj", [s1, s2, s3]) is None:
            return ok(sig, False, "not conjoinable")
        A = T.Conjunction([T.Conjunction([r1, r2]), r3])
        B = T.Conjunction([r1, T.Conjunction([r2, r3])])
        F = T.Conjunction([r1, r2, r3])
        X, Y = T.Conjunction([r1, r2]), T.Conjunction([r2, r1])
        O = (r1 | r2) | r3
        variants = [("(t1|t2)|t3 vs t1|(t2|t3)", A, B), ("(t1|t2)|t3 vs [t1,t2,t3]", A, F), ("t1|t2 vs t2|t1", X, Y),
                    ("[t3,t1,t2] vs [t1,t2,t3]", T.Conjunction([r3, r1, r2]), F), ("operator | vs Conjunction", O, A)]
    for name, a, b in variants:
        ka = (W.mask_of(a.required_keys), W.mask_of(a.output_keys))
        kb = (W.mask_of(b.required_keys), W.mask_of(b.output_keys))
        if ka != kb:
            return fail(sig, True, "C14.assoc", f"{name}: declared keys differ for {_desc(t1)}, {_desc(t2)}, {_desc(t3)}", ka, kb)
        for cls in input_classes(ka[0]):
            msg, both = _same_result(W, a, b, cls, ka[0])
            compared += both
            if msg:
                return fail(sig, True, "C14.assoc", f"{name} on {cls}: {msg} for {_desc(t1)}, {_desc(t2)}, {_desc(t3)}", msg, "equal")
    return ok(sig, compared > 0)


CLASSES = ["TensorDict", "Gradients", "Jacobians", "GradientVectors", "JacobianMatrices", "EmptyTensorDict"]


def _valid_content(T, cls, k1, k2):
    return {"TensorDict": {k1: torch.ones(5), k2: torch.zeros(1, 1)},
            "Gradients": {k1: torch.ones(2, 3), k2: torch.zeros(2)},
            "Jacobians": {k1: torch.ones(4, 2, 3), k2: torch.zeros(4, 2)},
            "GradientVectors": {k1: torch.ones(6), k2: torch.zeros(2)},
            "JacobianMatrices": {k1: torch.ones(4, 6), k2: torch.zeros(4, 2)},
            "EmptyTensorDict": {}}[cls]


MUTATORS = ["setitem_existing", "setitem_new", "delitem_existing", "delitem_missing", "update_dict", "update_kwargs",
            "update_empty", "update_pairs", "pop_existing", "pop_missing_default", "popitem", "clear",
            "setdefault_existing", "setdefault_new"]


def _immutable(case, sig):
    import torchjd.autojac._transform as T

    cls, op = case["cls"], case["op"]
    k1, k2, k3 = torch.randn(2, 3), torch.randn(2), torch.randn(())
    content = _valid_content(T, cls, k1, k2)
    d = getattr(T, cls)(content) if cls != "EmptyTensorDict" else T.EmptyTensorDict()
    before = [(id(k), id(v)) for k, v in d.items()]
    ex = k1 if content else k3
    v_ok = content[k1] if content else torch.zeros(())
    actions = {
        "setitem_existing": lambda: d.__setitem__(ex, v_ok), "setitem_new": lambda: d.__setitem__(k3, torch.zeros(())),
        "delitem_existing": lambda: d.__delitem__(ex), "delitem_missing": lambda: d.__delitem__(k3),
        "update_dict": lambda: d.update({k3: torch.zeros(())}), "update_kwargs": lambda: d.update(x=1),
        "update_empty": lambda: d.update({}), "update_pairs": lambda: d.update([(k3, torch.zeros(()))]),
        "pop_existing": lambda: d.pop(ex), "pop_missing_default": lambda: d.pop(k3, None),
        "popitem": lambda: d.popitem(), "clear": lambda: d.clear(),
        "setdefault_existing": lambda: d.setdefault(ex, v_ok), "setdefault_new": lambda: d.setdefault(k3, torch.zeros(())),
    }
    try:
        actions[op]()
        err = None
    except TypeError:
        err = "TypeError"
    except Exception as e:
        err = type(e).__name__
    after = [(id(k), id(v)) for k, v in d.items()]
    if err != "TypeError" or before != after:
        return fail(sig, True, "C14.immutable", f"{cls}.{op}: expected TypeError and unchanged content",
                    {"raised": err, "content_changed": before != after}, "TypeError, unchanged")
    return ok(sig, True)


GRID_KEYS = [(), (1,), (2,), (3,), (0,), (1, 1), (2, 1), (1, 2), (2, 3), (1, 2, 1), (2, 1, 2), (2, 3, 2), (2, 0)]
GRID_VALUES = GRID_KEYS + [(6,), (4,), (2, 2), (3, 2), (6, 1), (1, 6), (4, 2), (2, 4), (2, 2, 3), (1, 2, 3), (3, 2, 3),
                           (2, 1, 2, 1), (2, 2, 1, 2), (1, 2, 1, 2), (3, 2, 3, 2), (12,), (2, 12)]


def _numel(s):
    n = 1
    for x in s:
        n *= x
    return n


def shape_rule(cls, ks, vs):
    """Does a value of shape vs fit a key of shape ks in a dictionary of class cls?"""
    if cls == "Gradients":
        return tuple(vs) == tuple(ks)
    if cls == "Jacobians":
        return len(vs) >= 1 and tuple(vs[1:]) == tuple(ks)
    if cls == "GradientVectors":
        return len(vs) == 1 and vs[0] == _numel(ks)
    if cls == "JacobianMatrices":
        return len(vs) == 2 and vs[1] == _numel(ks)
    raise KeyError(cls)


def _shape_check(case, sig):
    import torchjd.autojac._transform as T

    cls = case["cls"]
    if cls == "EmptyTensorDict":
        for arg, valid in ((None, True), ({}, True), ({torch.zeros(()): torch.zeros(())}, False),
                           ({torch.zeros(2): torch.zeros(2)}, False), ({torch.zeros(0): torch.zeros(0)}, False)):
            try:
                d = T.EmptyTensorDict(arg) if arg is not None else T.EmptyTensorDict()
                err = None
            except (ValueError, IndexError) as e:
                err = type(e).__name__
            if valid != (err is None) or (valid and len(d) != 0):
                return fail(sig, True, "C14.shape_check", f"EmptyTensorDict({'None' if arg is None else len(arg)} pairs)",
                            err or "created", "created" if valid else "rejected")
        return ok(sig, True)
    ks = tuple(case["key_shape"])
    ctor = getattr(T, cls)
    n_acc = n_rej = 0
    for vs in GRID_VALUES:
        valid = shape_rule(cls, ks, vs)
        key = torch.zeros(ks)
        try:
            d = ctor({key: torch.zeros(vs)})
            err = None
        except (ValueError, IndexError) as e:
            err = type(e).__name__
        if valid != (err is None):
            return fail(sig, True, "C14.shape_check", f"{cls}: key shape {ks}, value shape {vs}", err or "created",
                        "created" if valid else "rejected")
        n_acc += valid
        n_rej += not valid
        if valid and (len(d) != 1 or type(d).__name__ != cls):
            return fail(sig, True, "C14.shape_check", f"{cls}: created dictionary has wrong content", len(d), 1)
    # two pairs: first dimensions must agree for Jacobians / JacobianMatrices
    ks2 = tuple(case["key_shape2"])
    for m1 in (0, 1, 3):
        for m2 in (0, 1, 3):
            if cls == "Jacobians":
                v1, v2 = (m1,) + ks, (m2,) + ks2
            elif cls == "JacobianMatrices":
                v1, v2 = (m1, _numel(ks)), (m2, _numel(ks2))
            else:
                continue
            valid = m1 == m2
            try:
                ctor({torch.zeros(ks): torch.zeros(v1), torch.zeros(ks2): torch.zeros(v2)})
                err = None
            except (ValueError, IndexError) as e:
                err = type(e).__name__
            if valid != (err is None):
                return fail(sig, True, "C14.shape_check", f"{cls}: two pairs with first dimensions {m1}, {m2}",
                            err or "created", "created" if valid else "rejected")
    # one bad pair next to a good one is enough to reject
    good_v = {"Gradients": ks, "Jacobians": (2,) + ks, "GradientVectors": (_numel(ks),), "JacobianMatrices": (2, _numel(ks))}[cls]
    bad_v = {"Gradients": ks2 + (2,), "Jacobians": (2,) + ks2 + (2,), "GradientVectors": (_numel(ks2) + 1,),
             "JacobianMatrices": (2, _numel(ks2) + 1)}[cls]
    for order in (0, 1):
        pairs = [(torch.zeros(ks), torch.zeros(good_v)), (torch.zeros(ks2), torch.zeros(bad_v))]
        if order:
            pairs.reverse()
        try:
            ctor(dict(pairs))
            return fail(sig, True, "C14.shape_check", f"{cls}: a dictionary with one ill-shaped pair was created",
                        "created", "rejected")
        except (ValueError, IndexError):
            pass
    return ok(sig, n_acc >= 1 and n_rej >= 1)


def _lca(case, sig):
    import torchjd.autojac._transform as T
    from torchjd.autojac._transform.tensor_dict import _least_common_ancestor

    x, y = case["pair"]
    got = _least_common_ancestor(getattr(T, x), getattr(T, y)).__name__
    want = ref_lca(x, y)
    # independent cross-check of the reference against the real MRO lattice: the LCA is a common ancestor that is a
    # subclass of every other common ancestor
    cx, cy = getattr(T, x), getattr(T, y)
    commons = [c for c in cx.mro() if issubclass(cy, c) and issubclass(c, T.TensorDict)]
    least = [c for c in commons if all(issubclass(c, o) for o in commons)]
    assert len(least) == 1 and least[0].__name__ == want, (x, y, least, want)
    if got != want:
        return fail(sig, True, "C14.lca", f"_least_common_ancestor({x}, {y})", got, want)
    return ok(sig, x != y)


# ================================================================================================ cases


def cases(tier, seed, focus=None):
    rng = random.Random(1400 + seed)
    thorough = tier != "quick"
    out = []
    for a in ("select_grid", "diag_dup", "atom_calls"):
        out.append({"clause": "atoms", "atom": a})
    out.append({"clause": "atoms", "atom": "arity", "seed": rng.randrange(10**6), "n": 400 if thorough else 60})
    # depth 2: exhaustive in both tiers
    n1 = len(ATOMS)
    for ctor in CTORS:
        for li in range(n1):
            out.append({"clause": "row", "depth": 2, "ctor": ctor, "left": li})
    # depth 3
    n2 = 51 + 372 + 234 + 377 + 51 + 51  # size of pool(2); asserted in run_case through the pool itself
    if thorough:
        for ctor in CTORS:
            for li in range(n1 if ctor.endswith("1") else 0, n2):
                out.append({"clause": "row", "depth": 3, "ctor": ctor, "left": li})
    else:
        for _ in range(120):
            ctor = rng.choice(["comp", "comp", "conj", "conj", "stack", "conj1", "stack1"])
            li = rng.randrange(n2) if rng.random() < 0.3 else rng.randrange(n1, n2)
            out.append({"clause": "row", "depth": 3, "ctor": ctor, "left": li, "sample": rng.randrange(10**6), "n_right": 150})
    # associativity / commutativity
    if thorough:
        for i in range(n1):
            out.append({"clause": "assoc_block", "law": "comp", "i": i})
            out.append({"clause": "assoc_block", "law": "conj", "i": i})
        for _ in range(3000):
            out.append({"clause": "assoc", "law": rng.choice(["comp", "conj"]), "depth": 2, "seedtriple": rng.randrange(10**9)})
    else:
        for _ in range(150):
            out.append({"clause": "assoc", "law": rng.choice(["comp", "conj"]), "depth": rng.choice([1, 1, 2]),
                        "seedtriple": rng.randrange(10**9)})
    # dictionaries
    for cls in CLASSES:
        for op in MUTATORS:
            out.append({"clause": "immutable", "cls": cls, "op": op})
    for cls in ["Gradients", "Jacobians", "GradientVectors", "JacobianMatrices"]:
        for qi, ks in enumerate(GRID_KEYS):
            out.append({"clause": "shape_check", "cls": cls, "key_shape": list(ks),
                        "key_shape2": list(GRID_KEYS[(qi * 5 + 3) % len(GRID_KEYS)])})
    out.append({"clause": "shape_check", "cls": "EmptyTensorDict"})
    for x in CLASSES:
        for y in CLASSES:
            out.append({"clause": "lca", "pair": [x, y]})
    return out


def _pick_triple(case):
    """A composable / conjoinable triple drawn from the pool by the case's seed (guided by the reference)."""
    P = pool(case["depth"])
    r = random.Random(case["seedtriple"])
    for _ in range(200):
        j = r.randrange(len(P))
        s2 = P[j][1]
        if case["law"] == "comp":
            outs = [i for i, p in enumerate(P) if p[1][0] == s2[1]]
            ins = [k for k, p in enumerate(P) if p[1][1] == s2[0]]
            if outs and ins:
                return [r.choice(outs), j, r.choice(ins)]
        else:
            c1 = [i for i, p in enumerate(P) if p[1][0] == s2[0] and p[1][1] & s2[1] == 0]
            if c1:
                i = r.choice(c1)
                c3 = [k for k, p in enumerate(P) if p[1][0] == s2[0] and p[1][1] & (s2[1] | P[i][1][1]) == 0]
                if c3:
                    return [i, j, r.choice(c3)]
    return None


def run_case(case):
    cl = case["clause"]
    sig = "|".join(f"{k}={case[k]}" for k in sorted(case))
    if cl == "row":
        assert len(pool(2)) == 1136, len(pool(2))
        return _row(case, sig)
    if cl == "atoms":
        return _atoms(case, sig)
    if cl == "assoc":
        trip = _pick_triple(case)
        if trip is None:
            return ok(sig, False, "no triple found")
        return _assoc({"law": case["law"], "depth": case["depth"], "triple": trip}, sig)
    if cl == "assoc_block":
        # all triples of atoms with first element i
        n1 = len(ATOMS)
        P = pool(1)
        n_cmp = 0
        for j in range(n1):
            for k in range(n1):
                ss = [P[case["i"]][1], P[j][1], P[k][1]]
                if case["law"] == "comp":
                    if ref_combine("comp", ss[:2]) is None or ref_combine("comp", ss[1:]) is None:
                        continue
                elif ref_combine("conj", ss) is None:
                    continue
                r = _assoc({"law": case["law"], "depth": 1, "triple": [case["i"], j, k]}, sig)
                if not r["ok"]:
                    return r
                n_cmp += 1
        return ok(sig, n_cmp > 0, f"{n_cmp} triples")
    if cl == "immutable":
        return _immutable(case, sig)
    if cl == "shape_check":
        return _shape_check(case, sig)
    if cl == "lca":
        return _lca(case, sig)
    raise KeyError(cl)
