"""Shared pieces of the aggregator campaigns C08, C16, C17, C18, C19 (run-time arm, group "agg-b")."""
from __future__ import annotations

import numpy as np
import torch

EPS = {torch.float64: 2.220446049250313e-16, torch.float32: 1.1920928955078125e-07}


def dt(name: str):
    return torch.float64 if name == "float64" else torch.float32


def eps_of(t) -> float:
    return EPS[t.dtype if isinstance(t, torch.Tensor) else t]


def np64(t: torch.Tensor) -> np.ndarray:
    """Exact float64 image of a float32/float64 tensor."""
    return t.detach().to(torch.float64).cpu().numpy().copy()


def ok(sig, nontrivial, note=""):
    r = {"ok": True, "sig": sig, "nontrivial": bool(nontrivial)}
    if note:
        r["note"] = note
    return r


def small(x, limit=40):
    """JSON-able, bounded rendering of arrays/tensors/scalars for failure reports."""
    if isinstance(x, torch.Tensor):
        x = x.detach().to(torch.float64).cpu().numpy() if x.dtype.is_floating_point else x.detach().cpu().numpy()
    if isinstance(x, np.ndarray):
        flat = x.reshape(-1)
        if flat.size > limit:
            return {"shape": list(x.shape), "head": [_py(v) for v in flat[:limit]]}
        return x.tolist()
    if isinstance(x, (np.floating, np.integer, np.bool_)):
        return _py(x)
    if isinstance(x, (list, tuple)):
        return [small(v, limit) for v in x]
    if isinstance(x, dict):
        return {str(k): small(v, limit) for k, v in x.items()}
    return x


def _py(v):
    if isinstance(v, (np.floating, float)):
        return float(v)
    if isinstance(v, (np.integer, int)):
        return int(v)
    if isinstance(v, np.bool_):
        return bool(v)
    return v


def fail(sig, nontrivial, key, what, observed=None, expected=None, **extra):
    r = {"ok": False, "sig": sig, "nontrivial": bool(nontrivial), "key": key, "what": what,
         "observed": small(observed), "expected": small(expected)}
    for k, v in extra.items():
        r[k] = small(v)
    return r


def matrix_from_lists(rows, dtype) -> torch.Tensor:
    return torch.tensor(rows, dtype=torch.float64).to(dtype)
