"""C06 [B]: gradients accumulate; nothing but the requested .grad fields is touched — histories on the real code.

A case is a history of <= 4 calls of backward / mtl_backward on one retained graph, interleaved with user edits of
.grad fields (zero_, None, in-place scale / add, replacement).  Around every call the state of ALL tensors of the
program (leaves, intermediate nodes, outputs: value, data_ptr, _version, .grad value / object / version) is
snapshotted:

  C06.accumulate  a requested input's .grad is not  (previous .grad, or nothing) + the single-call update
                  (update = oracle A(J_ref) of a twin graph, independent of the history)
  C06.frame       a value, or the .grad of a tensor that is not a requested input, changed during a call
  C06.alias       a freshly created .grad shares storage with another tensor or .grad (any tensor of the program,
                  any other .grad, the other fresh ones included), or a user edit of one .grad shows in another
  C06.kfold       k identical calls do not give the first call's update accumulated k times
  C06.kept        the user keeps a reference to EVERY tensor that ever was a .grad (g = p.grad); a tensor that is no
                  longer the .grad of anything (after p.grad = None / a replacement) is written to by a later call, or
                  a .grad created later shares its storage
  C06.accumulate  (also) an existing .grad is replaced by another tensor object instead of being added to in place
"""
from __future__ import annotations

import copy
import random

import torch

from tjv.rt import gen
from tjv.rt.aggs import make_agg
from ._autojac import (AGG_TOL, as_container, choose_inputs, full_state, mtl_all_tensors, mtl_reference, n_rows,
                       overlaps, selection_ambiguous, set_pregrads, state_changes, storage_range, _grad_of)

RULE = ("history = 1..4 calls (each with its own subset/order of requested inputs and chunk size; retained graph, "
        "the last call may free it) x edits between calls (zero_, =None, mul_, add_, replacement of random .grad "
        "fields) x pre-existing .grad none/some/all of arbitrary content x random program (gen.build with reuse, "
        "unused leaves, leaves not requiring grad; gen.build_mtl with overlapping/empty groups) x deterministic "
        "aggregator (Constant distinct, Mean, UPGrad, Krum, TrimmedMean) x dtype. kfold family: k in 2..4 identical "
        "calls without edits. reset family: between two calls EVERY .grad is set to None (zero_grad(set_to_none=True)) "
        "or zeroed in place, while the user keeps the references g = p.grad taken after each call: kept tensors "
        "must keep their values and share no storage with a .grad created later (C06.kept), and a .grad that exists "
        "must stay the same tensor object (added to in place). Parameter lists are given as list / tuple / dict "
        "keys / one-shot iterator / generator; leaves in contiguous / permuted / strided / expanded layouts. distinct = (program trace, aggregator, history); non-trivial = >=2 calls or a "
        "pre-existing .grad on a requested input, and a non-zero update, and at least one leaf that is NOT requested")
BOUNDS = "<=4 calls, <=3 edits between two calls; programs as in C01 / C02 (<=5 leaves, <=8 ops; <=3 shared, <=4 tasks)"
EXHAUSTIVE = ""

AGGS = [
    {"name": "Constant", "kind": "distinct"},
    {"name": "Mean"},
    {"name": "UPGrad"},
    {"name": "Constant", "kind": "signed", "wseed": 11},
    {"name": "Krum", "f": 0, "k": 2},
    {"name": "TrimmedMean", "b": 1},
    {"name": "Sum"},
]
EDITS = ["zero", "none", "scale", "add", "replace"]
ALL_EDITS = ["none_all", "none_all", "zero_all", "none_req"]  # reset family (none_req: only the last call's inputs)
CONTAINERS = ["list", "iter", "gen", "tuple", "dictkeys"]


def cases(tier, seed, focus=None):
    n = 220 if tier == "quick" else 5000
    rng = random.Random(6000 + seed)
    rng2 = random.Random(6006000 + seed)  # stream of the later families (the earlier cases are kept as they were)
    for i in range(n):
        fn = "backward" if i % 3 else "mtl"
        kfold = (i % 5 == 0)
        n_calls = rng.randint(2, 4) if kfold else rng.randint(1, 4)
        if fn == "backward":
            prog = {"seed": rng.randrange(10**9), "n_leaves": rng.randint(2, 5), "n_ops": rng.randint(2, 8),
                    "n_outputs": rng.randint(1, 3), "dtype": rng.choice(["float64", "float64", "float32"])}
        else:
            prog = {"seed": rng.randrange(10**9), "n_shared": rng.randint(1, 3), "n_features": rng.randint(1, 3),
                    "n_tasks": rng.randint(1, 4), "dtype": rng.choice(["float64", "float64", "float32"]),
                    "overlap": rng.random() < 0.5, "empty_task": rng.random() < 0.5,
                    "trunk": rng.choice(["dense", "sparse"])}
        call0 = {"sel": rng.randrange(10**6), "mode": rng.choice(["all", "subset", "subset"]),
                 "chunk": rng.choice([None, 1, 2, 3])}
        calls = [dict(call0) for _ in range(n_calls)] if kfold else [
            {"sel": rng.randrange(10**6), "mode": rng.choice(["all", "subset", "subset"]),
             "chunk": rng.choice([None, 1, 2, 3])} for _ in range(n_calls)]
        edits = [[] if kfold else [{"leaf": rng.randrange(16), "op": rng.choice(EDITS), "seed": rng.randrange(10**6)}
                                   for _ in range(rng.randint(0, 3))] for _ in range(n_calls - 1)]
        case = {"fn": fn, "prog": prog, "agg": AGGS[i % len(AGGS)], "pre": rng.choice(["none", "some", "all"]),
                "pre_seed": rng.randrange(10**6), "calls": calls, "edits": edits, "kfold": kfold,
                "free_last": rng.random() < 0.3}
        r2 = random.Random(rng2.randrange(10**9))
        if i % 2 == 1:  # parameter lists as other kinds of iterables (one-shot ones included)
            for c in calls:
                c["as"] = r2.choice(CONTAINERS)
        if i % 5 in (1, 3) and not kfold:  # reset family
            if len(calls) < 2:
                calls.append(dict(calls[0]) if r2.random() < 0.5 else
                             {"sel": r2.randrange(10**6), "mode": r2.choice(["all", "subset"]),
                              "chunk": r2.choice([None, 1, 2, 3])})
            case["edits"] = [[{"leaf": 0, "op": r2.choice(ALL_EDITS), "seed": 0}] +
                             ([{"leaf": r2.randrange(16), "op": r2.choice(EDITS), "seed": r2.randrange(10**6)}]
                              if r2.random() < 0.3 else []) for _ in range(len(calls) - 1)]
            case["pre"] = r2.choice(["none", "none", "some", "all"])
        if fn == "mtl" and i % 2 == 0:
            # heads with two same-shaped parameters entering through one addition (autograd hands both the SAME gradient tensor),
            # mostly without pre-existing .grad: the .grad fields are created by the call
            prog["twin_bias"] = True
            prog["empty_task"] = False
            if r2.random() < 0.7:
                case["pre"] = "none"
            for c in calls:
                c["mode"] = "all"
        yield case
    # NON-LEAF inputs that retain grad (accepted by the library: `is_leaf or retains_grad`), differentiated without vmap
    # (a single row, or parallel_chunk_size = 1): autograd's own retain_grad hook writes their .grad during the sweep
    r3 = random.Random(6012000 + seed)
    for j in range(6 if tier == "quick" else 60):
        yield {"retained": {"fn": ["backward", "mtl"][j % 2], "seed": r3.randrange(10**6), "rows": [1, 2, 3][j % 3],
                            "pre": [False, True][(j // 2) % 2], "dtype": ["float64", "float32"][(j // 3) % 2]}}


def _run_retained(case):
    """x = leaf * 2 with retain_grad(), passed as an input / a task parameter; chunk size 1 (or one row): no vmap."""
    from torchjd import backward, mtl_backward
    from torchjd.aggregation import Sum
    c = case["retained"]
    dtype = torch.float64 if c["dtype"] == "float64" else torch.float32
    g = torch.Generator().manual_seed(c["seed"])
    m = c["rows"]

    def build():
        leaf = (torch.rand(3, generator=torch.Generator().manual_seed(c["seed"]), dtype=torch.float64) + 0.5).to(dtype).requires_grad_(True)
        x = leaf * 2.0
        x.retain_grad()
        coef = (torch.rand(m, 3, generator=torch.Generator().manual_seed(c["seed"] + 1), dtype=torch.float64) + 0.5).to(dtype)
        return leaf, x, coef
    leaf, x, coef = build()
    pre = None
    if c["pre"]:
        pre = torch.full((3,), 0.25, dtype=dtype)
        x.grad = pre.clone()
    sig = f"RETAINED|{c}"
    try:
        if c["fn"] == "backward":
            y = coef @ (x * x)                      # m scalars, d y_r / d x = 2 coef_r * x
            backward([y], Sum(), inputs=[x], retain_graph=False, parallel_chunk_size=1)
            want = (2.0 * coef * x.detach()).sum(dim=0)
        else:
            shared = torch.ones(3, dtype=dtype, requires_grad=True)
            f = shared * 3.0
            losses = [(f * x * coef[r]).sum() for r in range(m)]   # x is a parameter of EVERY task
            mtl_backward(losses, features=[f], aggregator=Sum(), tasks_params=[[x] for _ in range(m)][:1] + [[] for _ in range(m - 1)],
                         shared_params=[shared], retain_graph=False, parallel_chunk_size=1)
            want = (f.detach() * coef[0])               # only task 0 lists x: its own-task gradient
    except Exception as e:  # noqa: BLE001
        return {"ok": False, "sig": sig, "nontrivial": True, "key": "C06.retained_input", "what": "valid call raised",
                "observed": f"{type(e).__name__}: {str(e)[:160]}", "expected": "success"}
    want = want if pre is None else want + pre
    tol = 1e-9 if dtype == torch.float64 else 1e-4
    got = x.grad
    if got is None or not (float((got - want).abs().max()) <= tol * (1.0 + float(want.abs().max()))):  # (NaN-proof)
        return {"ok": False, "sig": sig, "nontrivial": True, "key": "C06.retained_input",
                "what": f"{c['fn']}: the .grad of a NON-LEAF input that retains grad is not (previous .grad +) its slice of the update: "
                        "autograd's retain_grad hook has already written the gradient(s) of the sweep(s) into it when Accumulate adds the update",
                "observed": None if got is None else got.tolist(), "expected": want.tolist()}
    return {"ok": True, "sig": sig, "nontrivial": True}


# ----------------------------------------------------------------------------- one call on the real program + oracle


class _Ctx:
    """Real program, twin, and how to issue call number j on both."""

    def __init__(self, case):
        self.case = case
        if case["fn"] == "backward":
            self.p1, self.p2 = gen.build(case["prog"]), gen.build(case["prog"])
            self.tensors = self.p1.all_tensors()
            self.leaves1, self.leaves2 = self.p1.leaves, self.p2.leaves
            self.m = n_rows(self.p1.outputs)
            self.dtype = self.p1.outputs[0].dtype
            self.trace = self.p1.desc
        else:
            self.p1, self.p2 = gen.build_mtl(case["prog"]), gen.build_mtl(case["prog"])
            self.tensors = mtl_all_tensors(self.p1)
            self.leaves1, self.leaves2 = self.p1.all_leaves(), self.p2.all_leaves()
            self.m = len(self.p1.losses)
            self.dtype = self.p1.losses[0].dtype
            self.trace = self.p1.desc
        self.pos = {id(t): i for i, t in enumerate(self.tensors)}

    def agg(self):
        return make_agg(self.case["agg"], self.m, self.dtype)

    def _mtl_selection(self, prog, call):
        """Sub-selection of the parameter lists (valid: a task may list any subset of its parameters)."""
        rng = random.Random(call["sel"])
        if call["mode"] == "all":
            return list(prog.shared), [list(g) for g in prog.tasks_params]
        k = rng.randint(1, len(prog.shared))
        sidx = rng.sample(range(len(prog.shared)), k)
        groups = []
        for g in prog.tasks_params:
            keep = [j for j in range(len(g)) if rng.random() < 0.7]
            rng.shuffle(keep)
            groups.append(keep)
        return [prog.shared[j] for j in sidx], [[g[j] for j in keep] for g, keep in zip(prog.tasks_params, groups)]

    def issue(self, call, retain):
        """Runs the real call; returns (requested tensors of p1, dict position-in-self.tensors -> oracle update)."""
        from torchjd import backward, mtl_backward

        if self.case["fn"] == "backward":
            idx = choose_inputs(self.p1, call["sel"], call["mode"])
            ins1 = [self.p1.grad_leaves[i] for i in idx]
            ins2 = [self.p2.grad_leaves[i] for i in idx]
            backward(self.p1.outputs, self.agg(), inputs=as_container(ins1, call.get("as", "list")),
                     retain_graph=retain, parallel_chunk_size=call["chunk"])
            J = gen.ref_jacobian(self.p2.outputs, ins2)
            upd = {self.pos[id(t)]: u for t, u in zip(ins1, gen.split_like(self.agg()(J), ins2))}
            return ins1, upd, J
        sh1, tp1 = self._mtl_selection(self.p1, call)
        sh2, tp2 = self._mtl_selection(self.p2, call)
        how = call.get("as", "list")
        mtl_backward(self.p1.losses, self.p1.features, self.agg(), tasks_params=[as_container(g, how) for g in tp1],
                     shared_params=as_container(sh1, how), retain_graph=retain, parallel_chunk_size=call["chunk"])
        q = copy.copy(self.p2)
        q.shared, q.tasks_params = sh2, tp2
        J, upd2 = mtl_reference(q, self.agg())
        twin_pos = {id(t): i for i, t in enumerate(mtl_all_tensors(self.p2))}
        req, seen = [], set()
        for t in sh1 + [x for g in tp1 for x in g]:
            if id(t) not in seen:
                seen.add(id(t))
                req.append(t)
        upd = {twin_pos[k]: v for k, v in upd2.items()}
        return req, upd, J


def _apply_edit(leaves, e, dtype, last_req=()):
    """Applies a user edit; returns the list of tensors whose .grad was edited."""
    cands = [t for t in leaves if t.requires_grad]
    if e["op"] in ("none_all", "zero_all", "none_req"):
        which = list(last_req) if e["op"] == "none_req" else cands
        for t in which:
            if e["op"] == "zero_all":
                if t.grad is not None:
                    t.grad.zero_()
            else:
                t.grad = None
        return which
    t = cands[e["leaf"] % len(cands)]
    g = torch.Generator().manual_seed(e["seed"])
    rnd = (torch.rand(t.shape, generator=g, dtype=torch.float64) * 6.0 - 3.0).to(dtype)
    op = e["op"]
    if op == "none":
        t.grad = None
    elif op == "replace" or t.grad is None:
        t.grad = rnd
    elif op == "zero":
        t.grad.zero_()
    elif op == "scale":
        t.grad.mul_(-1.5)
    elif op == "add":
        t.grad.add_(rnd)
    return [t]


def run_case(case):
    if "retained" in case:
        return _run_retained(case)
    ctx = _Ctx(case)
    sig = "|".join(ctx.trace) + f"|{case['agg']}|{case['calls']}|{case['edits']}|{case['pre']}"
    if ctx.agg() is None:
        return {"ok": True, "sig": sig, "nontrivial": False, "note": "row requirement not met"}
    set_pregrads(ctx.leaves1, case["pre_seed"], case["pre"])
    rtol, atol = AGG_TOL.get(case["agg"]["name"], gen.tol(ctx.dtype))
    if ctx.dtype == torch.float32:
        rtol, atol = max(rtol, 3e-4), max(atol, 3e-4)
    n_calls = len(case["calls"])
    nontriv_update = False
    had_pre = False
    unrequested = False
    g0 = first_delta = None
    base = {"sig": sig, "nontrivial": False}
    held = {}  # id(g) -> (g, position of the tensor it was the .grad of): the user keeps every .grad tensor ever seen

    def keep_refs():
        for i, t in enumerate(ctx.tensors):
            g = _grad_of(t)
            if g is not None and id(g) not in held:
                held[id(g)] = (g, i)

    keep_refs()
    for j, call in enumerate(case["calls"]):
        retain = not (case["free_last"] and j == n_calls - 1)
        before = full_state(ctx.tensors)
        kept = [(g, i, _grad_of(ctx.tensors[i]) is g, g.detach().clone(), g._version) for g, i in held.values()]
        if j == 0:
            g0 = [b["g"] for b in before]
        try:
            req, upd, J = ctx.issue(call, retain)
        except (RuntimeError, ValueError) as e:
            return dict(base, ok=False, key="C06.raises", what=f"call {j} of a valid history raised",
                        observed=f"{type(e).__name__}: {str(e)[:160]}", expected="success")
        after = full_state(ctx.tensors)
        req_pos = {ctx.pos[id(t)] for t in req}
        scale = max(1.0, float(J.abs().max()) if J.numel() else 1.0)
        nontriv_update |= bool(J.numel() and (J != 0).any())
        unrequested |= any(t.requires_grad and t.is_leaf and ctx.pos[id(t)] not in req_pos for t in ctx.tensors)
        # frame: everything except the .grad of requested inputs
        for (i, what) in state_changes(before, after):
            if i in req_pos and what.startswith("grad"):
                continue
            return dict(base, ok=False, key="C06.frame",
                        what=f"call {j}: {what} of tensor {i} changed, which is not a requested .grad",
                        observed=what, expected="unchanged")
        # accumulate (ties are excluded: with tying Krum scores the selected rows depend on rounding)
        for i in ([] if selection_ambiguous(case["agg"], J) else sorted(req_pos)):
            b, a = before[i], after[i]
            want = upd[i] if b["g"] is None else b["g"] + upd[i]
            had_pre |= b["g"] is not None
            mag = scale * max(1.0, float(want.abs().max()) if want.numel() else 1.0)
            if a["g"] is None or not gen.close(a["g"], want, rtol, atol * mag):
                return dict(base, ok=False, key="C06.accumulate",
                            what=f"call {j}: .grad of requested tensor {i} is not (previous .grad or nothing) + update",
                            observed=None if a["g"] is None else a["g"].tolist(), expected=want.tolist(),
                            previous=None if b["g"] is None else b["g"].tolist())
        # kept references: a tensor that is nobody's .grad any more is not written to; an existing .grad stays the
        # same tensor object (it is added to in place)
        for g, i, attached, val, ver in kept:
            if not attached:
                if g._version != ver or not torch.equal(g, val):
                    return dict(base, ok=False, key="C06.kept",
                                what=f"call {j}: a tensor the user kept (it was the .grad of tensor {i} before that "
                                     ".grad was reset) was written to",
                                observed=g.tolist(), expected=val.tolist())
            elif i in req_pos and _grad_of(ctx.tensors[i]) is not g:
                return dict(base, ok=False, key="C06.accumulate",
                            what=f"call {j}: the existing .grad of requested tensor {i} was replaced by another "
                                 "tensor object instead of being added to in place (a reference kept by the user "
                                 "does not see the update)",
                            observed="p.grad is not the tensor it was", expected="same tensor object, updated in place")
        # alias: fresh grads own their memory
        fresh = [i for i in sorted(req_pos) if before[i]["g"] is None and after[i]["g"] is not None]
        ranges = []
        for g, i, attached, val, ver in kept:
            if not attached:
                ranges.append((f"tensor kept by the user (former .grad of tensor {i})", storage_range(g)))
        for i, t in enumerate(ctx.tensors):
            ranges.append((f"value of tensor {i}", storage_range(t)))
            g = _grad_of(t)
            if g is not None:
                ranges.append((f".grad of tensor {i}", storage_range(g)))
        for i in fresh:
            mine = storage_range(_grad_of(ctx.tensors[i]))
            for name, r in ranges:
                if name == f".grad of tensor {i}":
                    continue
                if overlaps(mine, r):
                    return dict(base, ok=False, key="C06.kept" if name.startswith("tensor kept") else "C06.alias",
                                what=f"call {j}: the freshly created .grad of tensor {i} shares storage with the {name}",
                                observed=[list(mine), list(r)], expected="disjoint storages")
        if case["kfold"]:
            delta = [None if a["g"] is None else (a["g"] if b["g"] is None else a["g"] - b["g"])
                     for a, b in zip(after, before)]
            if j == 0:
                first_delta = delta
            k = j + 1
            for i in sorted(req_pos):
                if after[i]["g"] is None or first_delta[i] is None:
                    return dict(base, ok=False, key="C06.kfold",
                                what=f"after {k} identical calls the .grad of requested tensor {i} is None",
                                observed=None, expected="g0 + k x update")
                want = first_delta[i] * k if g0[i] is None else g0[i] + first_delta[i] * k
                mag = scale * max(1.0, float(want.abs().max()) if want.numel() else 1.0)
                if not gen.close(after[i]["g"], want, max(rtol, 1e-7), max(atol, 1e-7) * mag * k):
                    return dict(base, ok=False, key="C06.kfold",
                                what=f"after {k} identical calls the .grad of tensor {i} is not g0 + {k} x first update",
                                observed=after[i]["g"].tolist(), expected=want.tolist())
        # user edits before the next call: an edit of one .grad must show nowhere else
        keep_refs()
        if j < n_calls - 1:
            for e in case["edits"][j]:
                b2 = full_state(ctx.tensors)
                edited = {ctx.pos[id(t)] for t in _apply_edit(ctx.leaves1, e, ctx.dtype, req)}
                a2 = full_state(ctx.tensors)
                for (i, what) in state_changes(b2, a2):
                    if i not in edited:
                        return dict(base, ok=False, key="C06.alias",
                                    what=f"after call {j}: editing the .grad of tensors {sorted(edited)} ({e['op']}) "
                                         f"changed {what} of tensor {i}",
                                    observed=what, expected="unchanged")
                keep_refs()
    base["nontrivial"] = bool(nontriv_update and unrequested and (n_calls >= 2 or had_pre))
    return dict(base, ok=True)
