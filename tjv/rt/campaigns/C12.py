"""C12 [B]: default parameter discovery finds exactly the leaves that matter.

Every case builds TWIN graphs from one seed.  On the first the real function is called with the parameter list(s)
omitted; on the second it is called with the explicit sets computed by an independent oracle
(``tjv.rt.gen.reachable_leaves``: depth-first walk over ``grad_fn.next_functions`` along (node, output_nr) EDGES, cut at
the edges of the feature tensors).  The two calls must agree on raising (same exception type) and leave the same .grad
state on ALL leaves (None-ness and values).  The oracle for un-cut reachability is itself cross-checked against
``torch.autograd.grad(..., allow_unused=True)`` on a third twin (a disagreement crashes the checker).

Finding keys:
  C12.backward_default     backward(tensors, A) == backward(tensors, A, inputs=leaves reachable from tensors)
  C12.mtl_shared_default   mtl_backward without shared_params == with shared_params = leaves reachable from features
  C12.mtl_tasks_default    mtl_backward without tasks_params == with, per loss, the leaves reachable from the loss
                           without crossing the edge of a feature tensor
  C12.mtl_both_default     both omitted, the two default sets being disjoint: == both explicit
  C12.overlap              both omitted and the two default sets overlap: ValueError
  C12.multioutput          regression (fixed defect F5): a feature that is one output of unbind/split/chunk excludes
                           only its own edge; a loss computed from a sibling output reaches the trunk leaves
"""
from __future__ import annotations

import random

import torch

from tjv.rt import gen
from tjv.rt.aggs import make_agg
from ._aggb import fail, ok
from ._autojac import AGG_TOL, set_pregrads

RULE = ("backward: random DAGs from gen.build_dag / gen.build (diamonds through operand reuse, deep chains, detached "
        "branches, leaves not requiring grad, unbind/split/chunk with sibling outputs, 1-3 output tensors possibly "
        "outputs of multi-output nodes). mtl_backward: gen.build_mtl_dag (trunk DAG, 1-3 features possibly outputs of a "
        "multi-output op, head leaves, head ops whose operands are taken from the features, from the trunk AROUND the "
        "features with probability p_around and from sibling outputs with probability p_sibling, 1-3 losses) in five "
        "modes: shared omitted, tasks omitted (each also with the explicit other set made disjoint so the call "
        "succeeds), both omitted. Pre-existing .grad on a random subset of leaves. distinct = (op trace, mode, "
        "aggregator). non-trivial: backward - >=2 leaves requiring grad of which at least one is NOT reachable or a "
        "multi-output/detached op occurs; mtl - call succeeds with a non-empty default set, or the overlap rejection "
        "is exercised")
BOUNDS = "<=6 leaves, <=10 ops per phase, <=3 outputs/features/losses, tensor dims <=2 of size <=4"
EXHAUSTIVE = ""

AGGS = [{"name": "Mean"}, {"name": "Sum"}, {"name": "UPGrad"}, {"name": "Constant", "kind": "distinct"}]
MTL_MODES = ["shared_default", "shared_default_disjoint", "tasks_default", "tasks_default_disjoint", "both_default"]


def cases(tier, seed, focus=None):
    rng = random.Random(1200 + seed)
    thorough = tier != "quick"
    out = []
    for i in range(3000 if thorough else 110):
        out.append({"clause": "backward", "builder": rng.choice(["dag", "dag", "prog"]),
                    "prog": {"seed": rng.randrange(10**9), "n_leaves": rng.randint(1, 6), "n_ops": rng.randint(1, 10),
                             "n_outputs": rng.randint(1, 3), "dtype": rng.choice(["float64", "float64", "float32"])},
                    "agg": AGGS[i % len(AGGS)], "pre": rng.choice(["none", "some"]), "pre_seed": rng.randrange(10**6),
                    "chunk": rng.choice([None, None, 1, 2])})
    for i in range(6000 if thorough else 220):
        multi = rng.random() < 0.45
        out.append({"clause": "mtl", "mode": MTL_MODES[i % len(MTL_MODES)],
                    "dag": {"seed": rng.randrange(10**9), "dtype": rng.choice(["float64", "float64", "float32"]),
                            "n_trunk_leaves": rng.randint(1, 3), "n_trunk_ops": rng.randint(1, 7),
                            "n_features": rng.randint(1, 3), "n_head_leaves": rng.randint(0, 3),
                            "n_head_ops": rng.randint(1, 6), "n_losses": rng.randint(1, 3),
                            "p_around": rng.choice([0.0, 0.0, 0.0, 0.15, 0.4]), "multi": multi,
                            "p_sibling": rng.choice([0.0, 0.3, 0.6]) if multi else 0.0},
                    "agg": AGGS[(i // len(MTL_MODES)) % 3], "pre": rng.choice(["none", "some"]),
                    "pre_seed": rng.randrange(10**6), "retain": rng.random() < 0.85})
    for i in range(300 if thorough else 45):
        out.append({"clause": "multioutput", "op": ["unbind", "split", "chunk"][i % 3], "feat": rng.randrange(2),
                    "variant": ["both_default", "tasks_default", "tasks_default_mixed", "backward", "loss_is_sibling"][(i // 3) % 5],
                    "shape": rng.choice([[2], [3], [2, 2], [3, 2]]), "seed": rng.randrange(10**6),
                    "agg": AGGS[i % 2]})
    return out


# ------------------------------------------------------------------------------------------------ helpers


def _call(thunk):
    try:
        thunk()
        return None
    except Exception as e:  # the property is about the equivalence of the two calls, exceptions included
        return type(e).__name__


def _grad_state_diff(leaves1, leaves2, rtol, atol):
    for i, (a, b) in enumerate(zip(leaves1, leaves2)):
        if (a.grad is None) != (b.grad is None):
            return i, ("None" if a.grad is None else a.grad.tolist()), ("None" if b.grad is None else b.grad.tolist())
        if a.grad is not None and not gen.close(a.grad, b.grad, rtol, atol):
            return i, a.grad.tolist(), b.grad.tolist()
    return None


def _tol(agg_spec, dtype):
    rtol, atol = AGG_TOL.get(agg_spec["name"], gen.tol(dtype))
    if dtype == torch.float32:
        rtol, atol = max(rtol, 3e-4), max(atol, 3e-4)
    return rtol, atol


def _idx(leaves, subset):
    pos = {id(t): i for i, t in enumerate(leaves)}
    return sorted(pos[id(t)] for t in subset)


def _crosscheck_reachability(leaves3, roots3, oracle_idx):
    """The DFS oracle against autograd itself (third twin): a leaf gets a gradient iff it is reachable."""
    gl = [t for t in leaves3 if t.requires_grad]
    if not gl:
        return
    gs = torch.autograd.grad(sum(r.sum() for r in roots3), gl, allow_unused=True)
    auto = sorted(i for i, t in enumerate(leaves3) if t.requires_grad and gs[[id(x) for x in gl].index(id(t))] is not None)
    assert auto == oracle_idx, f"oracle disagreement: DFS {oracle_idx} vs autograd {auto}"


# ------------------------------------------------------------------------------------------------ backward


def _build_prog(case):
    return gen.build_dag(case["prog"]) if case["builder"] == "dag" else gen.build(case["prog"])


def _backward(case, sig0):
    from torchjd import backward

    p1, p2, p3 = _build_prog(case), _build_prog(case), _build_prog(case)
    sig = "|".join(p1.desc) + f"|{case['agg']['name']}|{case['chunk']}"
    m = sum(o.numel() for o in p1.outputs)
    dtype = p1.outputs[0].dtype
    oracle = gen.reachable_leaves(p2.outputs)
    o_idx = _idx(p2.leaves, oracle)
    _crosscheck_reachability(p3.leaves, p3.outputs, o_idx)
    n_grad = sum(t.requires_grad for t in p1.leaves)
    interesting = any(k in d for d in p1.desc for k in ("unbind", "split", "chunk", "dmix", "dbranch"))
    nontrivial = n_grad >= 2 and (len(o_idx) < n_grad or interesting)
    set_pregrads(p1.leaves, case["pre_seed"], case["pre"])
    set_pregrads(p2.leaves, case["pre_seed"], case["pre"])
    e1 = _call(lambda: backward(p1.outputs, make_agg(case["agg"], m, dtype), parallel_chunk_size=case["chunk"]))
    e2 = _call(lambda: backward(p2.outputs, make_agg(case["agg"], m, dtype), inputs=oracle, parallel_chunk_size=case["chunk"]))
    if e1 != e2:
        return fail(sig, nontrivial, "C12.backward_default", "defaulted and explicit calls disagree on raising",
                    e1 or "returned", e2 or "returned", oracle_inputs=o_idx)
    rtol, atol = _tol(case["agg"], dtype)
    d = _grad_state_diff(p1.leaves, p2.leaves, rtol, atol)
    if d:
        return fail(sig, nontrivial, "C12.backward_default", f"leaf {d[0]}: .grad after backward(tensors, A) differs from "
                    f"backward(tensors, A, inputs=reachable leaves {o_idx})", d[1], d[2])
    return ok(sig, nontrivial and e1 is None)


# ------------------------------------------------------------------------------------------------ mtl_backward


def _mtl(case, sig0):
    from torchjd import mtl_backward

    d1, d2, d3 = gen.build_mtl_dag(case["dag"]), gen.build_mtl_dag(case["dag"]), gen.build_mtl_dag(case["dag"])
    mode = case["mode"]
    sig = "|".join(d1.desc) + f"|{mode}|{case['agg']['name']}"
    dtype = d1.losses[0].dtype
    m = len(d1.losses)
    S2 = gen.reachable_leaves(d2.features)
    T2 = [gen.reachable_leaves([l], d2.features) for l in d2.losses]
    s_idx = _idx(d2.leaves, S2)
    t_idx = [_idx(d2.leaves, t) for t in T2]
    _crosscheck_reachability(d3.leaves, d3.features, s_idx)
    union_t = sorted({i for t in t_idx for i in t})
    overlap = sorted(set(s_idx) & set(union_t))

    def sel(dag, idx):
        return [dag.leaves[i] for i in idx]

    if mode.endswith("_disjoint"):
        if mode.startswith("shared"):
            t_idx = [[i for i in t if i not in s_idx] for t in t_idx]
        else:
            s_idx = [i for i in s_idx if i not in union_t]
    set_pregrads(d1.leaves, case["pre_seed"], case["pre"])
    set_pregrads(d2.leaves, case["pre_seed"], case["pre"])
    agg1, agg2 = make_agg(case["agg"], m, dtype), make_agg(case["agg"], m, dtype)
    # losses of a random DAG may share head nodes: retain_graph=True (most cases) keeps the shared part alive between
    # the per-task differentiations; with retain_graph=False both calls must fail alike
    kw1 = {"retain_graph": case.get("retain", True)}
    if mode.startswith("shared"):
        kw1["tasks_params"] = [sel(d1, t) for t in t_idx]
        key = "C12.mtl_shared_default"
    elif mode.startswith("tasks"):
        kw1["shared_params"] = sel(d1, s_idx)
        key = "C12.mtl_tasks_default"
    else:
        key = "C12.overlap" if overlap else "C12.mtl_both_default"
    e1 = _call(lambda: mtl_backward(d1.losses, d1.features, agg1, **kw1))
    e2 = _call(lambda: mtl_backward(d2.losses, d2.features, agg2, tasks_params=[sel(d2, t) for t in t_idx],
                                    shared_params=sel(d2, s_idx), retain_graph=case.get("retain", True)))
    info = {"shared_oracle": s_idx, "tasks_oracle": t_idx, "overlap": overlap}
    nontrivial = (e2 is None and (len(s_idx) > 0 or len(union_t) > 0)) or (mode == "both_default" and bool(overlap))
    if mode == "both_default" and overlap:
        if e1 != "ValueError":
            return fail(sig, True, "C12.overlap", "the default shared and task parameter sets overlap but the call was "
                        "not rejected with ValueError", e1 or "returned", "ValueError", **info)
        return ok(sig, True)
    if e1 != e2:
        return fail(sig, nontrivial, key, f"{mode}: defaulted and explicit calls disagree on raising", e1 or "returned",
                    e2 or "returned", **info)
    rtol, atol = _tol(case["agg"], dtype)
    d = _grad_state_diff(d1.leaves, d2.leaves, rtol, atol)
    if d:
        return fail(sig, nontrivial, key, f"{mode}: leaf {d[0]} .grad differs from the explicit call", d[1], d[2], **info)
    return ok(sig, nontrivial)


# ------------------------------------------------------------------------------------------------ multi-output regression


def _mo_graph(case):
    """x -> h = x*2 (+ tanh) -> multi-output op -> parts; feature = parts[feat], sibling = another part."""
    g = torch.Generator().manual_seed(case["seed"])
    shape = tuple(case["shape"])
    if case["variant"] == "loss_is_sibling":  # the sibling output itself (a 0-d tensor) is a loss: unbind of a vector
        shape = (shape[0],)
    x = torch.randn(shape, generator=g, dtype=torch.float64).requires_grad_(True)
    z = torch.randn((2,), generator=g, dtype=torch.float64).requires_grad_(True)
    p1 = torch.randn((), generator=g, dtype=torch.float64).requires_grad_(True)
    p2 = torch.randn((), generator=g, dtype=torch.float64).requires_grad_(True)
    h = torch.tanh(x * 2.0)
    op = case["op"] if case["variant"] != "loss_is_sibling" else "unbind"
    parts = h.unbind(0) if op == "unbind" else (h.split(1, 0) if op == "split" else h.chunk(2, 0))
    fi = case["feat"] % len(parts)
    si = (fi + 1) % len(parts)
    return x, z, p1, p2, parts[fi], parts[si]


def _multioutput(case, sig):
    from torchjd import backward, mtl_backward

    v = case["variant"]
    x, z, p1, p2, a, b = _mo_graph(case)
    X, Z, P1, P2, A_, B_ = _mo_graph(case)
    leaves1, leaves2 = [x, z, p1, p2], [X, Z, P1, P2]
    agg1, agg2 = make_agg(case["agg"], 2, torch.float64), make_agg(case["agg"], 2, torch.float64)
    assert a.grad_fn is b.grad_fn or case["op"] != "unbind"  # one node, several outputs
    if v == "backward":
        e1 = _call(lambda: backward([b, a.sum() * z.sum()], make_agg(case["agg"], b.numel() + 1, torch.float64)))
        e2 = _call(lambda: backward([B_, A_.sum() * Z.sum()], make_agg(case["agg"], b.numel() + 1, torch.float64), inputs=[X, Z]))
        exp = "same as inputs=[x, z]"
    elif v == "both_default":
        l1, l2 = (a * p1).sum(), (b * p2).sum()
        e1 = _call(lambda: mtl_backward([l1, l2], [a], agg1))
        if e1 != "ValueError" or any(t.grad is not None for t in leaves1):
            return fail(sig, True, "C12.multioutput", f"feature = one output of {case['op']}, a loss uses a sibling output: "
                        "x belongs to both default sets, the call must be rejected", e1 or "returned", "ValueError")
        return ok(sig, True)
    else:
        f2 = torch.sin(z) * 1.5
        F2 = torch.sin(Z) * 1.5
        if v == "tasks_default":
            l1, l2 = (a * p1).sum() + f2.sum(), (b * p2).sum()
            L1, L2 = (A_ * P1).sum() + F2.sum(), (B_ * P2).sum()
        elif v == "loss_is_sibling":  # the root edge (node, output_nr > 0 or 0) of the loss is not the feature's edge
            l1, l2 = (a * p1).sum() + f2.sum() + p2 * 0.0, b
            L1, L2 = (A_ * P1).sum() + F2.sum() + P2 * 0.0, B_
        else:  # the sibling AND the feature feed the second loss
            l1, l2 = (a * p1).sum() + f2.sum(), (b * p2).sum() + (a * a).sum() * p2
            L1, L2 = (A_ * P1).sum() + F2.sum(), (B_ * P2).sum() + (A_ * A_).sum() * P2
        e1 = _call(lambda: mtl_backward([l1, l2], [a, f2], agg1, shared_params=[z]))
        tp2 = [[P1, P2], [X]] if v == "loss_is_sibling" else [[P1], [P2, X]]
        e2 = _call(lambda: mtl_backward([L1, L2], [A_, F2], agg2, shared_params=[Z], tasks_params=tp2))
        exp = "tasks_params = [[p1, p2], [x]]" if v == "loss_is_sibling" else "tasks_params = [[p1], [p2, x]]"
    if e1 != e2:
        return fail(sig, True, "C12.multioutput", f"{v}: defaulted call and explicit call ({exp}) disagree on raising",
                    e1 or "returned", e2 or "returned")
    d = _grad_state_diff(leaves1, leaves2, 1e-9, 1e-9)
    if d:
        return fail(sig, True, "C12.multioutput", f"{v} with {case['op']}: leaf {'x z p1 p2'.split()[d[0]]} .grad differs "
                    f"from the explicit call ({exp})", d[1], d[2])
    return ok(sig, e1 is None)


def run_case(case):
    sig0 = "|".join(f"{k}={case[k]}" for k in sorted(case))
    cl = case["clause"]
    if cl == "backward":
        return _backward(case, sig0)
    if cl == "mtl":
        return _mtl(case, sig0)
    if cl == "multioutput":
        return _multioutput(case, sig0)
    raise KeyError(cl)
