"""C15 [B]: each building-block transform computes its specified linear map, for all shapes.

Every transform of torchjd.autojac._transform is exercised IN ISOLATION on the real class against a NumPy / row-by-row
reference; the key of a failure names the transform:

  C15.Init  C15.Diagonalize  C15.Select  C15.Stack  C15.Aggregate  C15.Accumulate  C15.TensorDict
  C15.Grad  (vector-Jacobian product, zeros for unreachable inputs)
  C15.Jac   (= G @ J_ref, = Grad row by row, linear in the cotangents, for every chunk size)
  C15.chain (Jac/Grad through intermediate tensors composed with `<<` == end-to-end differentiation)
"""
from __future__ import annotations

import random

import numpy as np
import torch

from tjv.rt import gen
from ._autojac import overlaps, storage_range

RULE = ("transform kind x 1..4 keys x key shapes 0-d..4-d with size-1 dims, in 'equal' mode all keys have the same "
        "number of elements (the layouts where a slice swap is shape-compatible) x key order given to the transform "
        "shuffled against dict insertion order x batch size 1..7 x chunk size None,1..B+1 x random connecting "
        "programs (each output depends on a random subset of the inputs through scalar and reshape paths, some "
        "inputs unreachable) x random cotangents x dtype. References: NumPy loops for the layout transforms; "
        "one-hot row-by-row torch.autograd.grad Jacobian J_ref and G @ J_ref for Grad / Jac / chain. distinct = "
        "(kind, shapes, orders, batch, chunk, seed); non-trivial = >=2 keys (or >=2 rows) and non-zero expected "
        "values that differ between keys")
BOUNDS = "<=4 keys, dims <=4, numel <=6 per key, batch <=7, chunk <=8, <=4 stacked transforms"
EXHAUSTIVE = ("thorough: Jac for every (B, chunk) with B<=7, chunk in {None,1..B+1} x key count 1..4 x "
              "equal/mixed shapes; TensorDict: every class x every (key shape, value shape) pair of a 14-shape pool")

POOLS = {
    1: [(), (1,), (1, 1), (1, 1, 1), (1, 1, 1, 1)],
    2: [(2,), (1, 2), (2, 1), (1, 2, 1), (1, 1, 2, 1)],
    3: [(3,), (1, 3), (3, 1, 1)],
    4: [(4,), (2, 2), (1, 2, 2), (2, 1, 2, 1), (4, 1)],
    6: [(6,), (2, 3), (3, 2), (1, 2, 3), (2, 1, 3, 1)],
}
ALL_SHAPES = [s for v in POOLS.values() for s in v]
KINDS = ["Init", "Diagonalize", "Select", "Stack", "Aggregate", "Accumulate", "TensorDict", "Grad", "Jac", "chain"]
TD_SHAPES = [(), (1,), (2,), (3,), (1, 1), (1, 2), (2, 1), (2, 2), (3, 2), (2, 3), (1, 2, 2), (2, 1, 2), (4,), (6,)]


def _shapes(rng, n, mode):
    if mode == "equal":
        k = rng.choice([1, 2, 3, 4, 6])
        return [list(rng.choice(POOLS[k])) for _ in range(n)]
    return [list(rng.choice(ALL_SHAPES)) for _ in range(n)]


def _mk(rng, kind, **over):
    n = rng.randint(1, 4)
    mode = rng.choice(["equal", "equal", "mixed"])
    B = rng.randint(1, 7)
    c = {"kind": kind, "seed": rng.randrange(10**9), "shapes": _shapes(rng, n, mode), "mode": mode,
         "out_shapes": _shapes(rng, rng.randint(1, 3), rng.choice(["equal", "mixed"])),
         "mid_shapes": _shapes(rng, rng.randint(1, 3), rng.choice(["equal", "mixed"])),
         "B": B, "chunk": rng.choice([None] + list(range(1, B + 2))),
         "dtype": rng.choice(["float64", "float64", "float32"])}
    c.update(over)
    return c


def cases(tier, seed, focus=None):
    rng = random.Random(15000 + seed)
    if tier == "quick":
        per = {"Init": 10, "Diagonalize": 30, "Select": 10, "Stack": 25, "Aggregate": 35, "Accumulate": 15,
               "TensorDict": 25, "Grad": 30, "Jac": 50, "chain": 30}
        for kind, k in per.items():
            for _ in range(k):
                c = _mk(rng, kind)
                if kind == "TensorDict":
                    c.update(cls=rng.choice(["Gradients", "Jacobians", "GradientVectors", "JacobianMatrices"]),
                             kshape=list(rng.choice(TD_SHAPES)), vshape=list(rng.choice(TD_SHAPES)))
                yield c
        return
    for kind in KINDS:
        if kind == "Jac":
            for B in range(1, 8):
                for chunk in [None] + list(range(1, B + 2)):
                    for n in range(1, 5):
                        for mode in ("equal", "mixed"):
                            for rep in range(3):
                                yield _mk(rng, "Jac", B=B, chunk=chunk, shapes=_shapes(rng, n, mode), mode=mode)
        elif kind == "TensorDict":
            for cls in ["Gradients", "Jacobians", "GradientVectors", "JacobianMatrices"]:
                for ks in TD_SHAPES:
                    for vs in TD_SHAPES:
                        yield _mk(rng, kind, cls=cls, kshape=list(ks), vshape=list(vs))
        else:
            for _ in range(600 if kind in ("Diagonalize", "Aggregate", "Stack", "Grad", "chain") else 150):
                yield _mk(rng, kind)


# ----------------------------------------------------------------------------- helpers


def _dt(case):
    return torch.float64 if case["dtype"] == "float64" else torch.float32


def _rand(g, shape, dtype, lo=-1.5, hi=1.5):
    return (torch.rand(tuple(shape), generator=g, dtype=torch.float64) * (hi - lo) + lo).to(dtype)


def _np(t):
    return t.detach().to(torch.float64).numpy().copy()


def _shuffled(rng, lst):
    lst = list(lst)
    rng.shuffle(lst)
    return lst


def _fail(base, key, what, observed=None, expected=None):
    def js(x):
        if isinstance(x, torch.Tensor):
            return x.tolist()
        if isinstance(x, np.ndarray):
            return x.tolist()
        return x
    return dict(base, ok=False, key=key, what=what, observed=js(observed), expected=js(expected))


def connect(rng, g, inputs, out_shapes, dtype):
    """Random differentiable program: every output depends on a random non-empty subset of `inputs` through a
    scalar path (sin, sum, broadcast) and, when the numbers of elements match, through a reshape path (squares);
    an input can be used twice (total derivative) or by nobody (unreachable).  No output is an ancestor of
    another output."""
    outs = []
    for shp in out_shapes:
        shp = tuple(shp)
        k = rng.randint(1, len(inputs))
        used = rng.sample(range(len(inputs)), k)
        if rng.random() < 0.3:
            used.append(used[0])
        o = None
        numel = int(np.prod(shp)) if len(shp) else 1
        for j in used:
            x = inputs[j]
            s = (x * _rand(g, x.shape, dtype)).sin().sum()
            term = s * _rand(g, shp, dtype)
            if x.numel() == numel and rng.random() < 0.7:
                xr = x.reshape(shp)
                term = term + xr * xr * rng.choice([-1.5, 0.5, 2.0]) + xr
            o = term if o is None else o + term
        outs.append(o)
    return outs


def _split_cols(mat, tensors):
    res, start = [], 0
    for t in tensors:
        n = t.numel()
        res.append(mat[..., start:start + n].reshape(mat.shape[:-1] + tuple(t.shape)))
        start += n
    return res


def _tols(dtype, scale):
    if dtype == torch.float64:
        return 1e-9, 1e-10 * max(1.0, scale)
    return 2e-4, 2e-4 * max(1.0, scale)


# ----------------------------------------------------------------------------- layout transforms


def _run_init(case, T, rng, g, dtype, base):
    vals = [_rand(g, s, dtype) for s in case["shapes"]]
    if rng.random() < 0.5:
        vals[0].requires_grad_(True)
    res = T.Init(_shuffled(rng, vals))(T.EmptyTensorDict())
    if type(res) is not T.Gradients or set(map(id, res.keys())) != set(map(id, vals)):
        return _fail(base, "C15.Init", "Init: wrong output type or key set", str(type(res)), "Gradients over values")
    for v in vals:
        r = res[v]
        if r.shape != v.shape or r.dtype != v.dtype or not bool((r == 1).all()):
            return _fail(base, "C15.Init", f"Init: value for a key of shape {tuple(v.shape)} is not ones_like", r,
                         "ones")
    return dict(base, ok=True, nontrivial=True)


def _run_diagonalize(case, T, rng, g, dtype, base):
    shapes = [tuple(s) for s in case["shapes"]]
    if rng.random() < 0.2:  # zero-element tensor next to the others (finding F6 at transform level)
        shapes.insert(rng.randrange(len(shapes) + 1), rng.choice([(0,), (2, 0)]))
    keys = [_rand(g, s, dtype) for s in shapes]
    grads = {k: _rand(g, k.shape, dtype) for k in _shuffled(rng, keys)}
    if rng.random() < 0.3:
        # non-finite gradient entries (an overflowed loss among several): the rows of the OTHER scalars still hold exact zeros there
        for k in keys:
            if k.numel() and rng.random() < 0.6:
                grads[k].reshape(-1)[rng.randrange(k.numel())] = rng.choice([float("inf"), float("-inf"), float("nan")])
    order = _shuffled(rng, keys)
    tr = T.Diagonalize(order)
    if rng.random() < 0.5:
        # the SAME transform object has been applied before, to other values: a transform is a function of its input only
        tr(T.Gradients({k: _rand(g, k.shape, dtype) for k in keys}))
    res = tr(T.Gradients(grads))
    R = sum(k.numel() for k in keys)
    if type(res) is not T.Jacobians or set(map(id, res.keys())) != set(map(id, keys)):
        return _fail(base, "C15.Diagonalize", "Diagonalize: wrong output type or key set")
    off = 0
    for k in order:
        want = np.zeros((R, k.numel()))
        gv = _np(grads[k]).reshape(-1)
        for e in range(k.numel()):
            want[off + e, e] = gv[e]
        want = want.reshape((R,) + tuple(k.shape))
        got = res[k]
        if tuple(got.shape) != want.shape or not np.array_equal(_np(got), want, equal_nan=True):
            return _fail(base, "C15.Diagonalize",
                         f"Diagonalize: block of key #{[id(x) for x in order].index(id(k))} (shape {tuple(k.shape)}, "
                         f"row offset {off}) is not its gradient entries on its own rows and zeros elsewhere",
                         got, want)
        off += k.numel()
    return dict(base, ok=True, nontrivial=len(keys) >= 2 and R >= 2)


def _run_select(case, T, rng, g, dtype, base):
    keys = [_rand(g, s, dtype) for s in case["shapes"]]
    jac = rng.random() < 0.5
    B = case["B"]
    d = {k: _rand(g, ((B,) if jac else ()) + tuple(k.shape), dtype) for k in keys}
    td = (T.Jacobians if jac else T.Gradients)(d)
    sub = [k for k in keys if rng.random() < 0.6]
    res = T.Select(_shuffled(rng, sub), _shuffled(rng, keys))(td)
    if type(res) is not type(td) or set(map(id, res.keys())) != set(map(id, sub)) or any(
            res[k] is not d[k] for k in sub):
        return _fail(base, "C15.Select", "Select: output is not the sub-dictionary (same class, same values)")
    stranger = _rand(g, (2,), dtype)
    try:
        T.Select(sub + [stranger], keys)
        return _fail(base, "C15.Select", "Select: keys not included in required_keys were accepted")
    except ValueError:
        pass
    try:
        T.Select(sub, keys)(T.Gradients({}) if keys else T.Gradients({stranger: stranger}))
        return _fail(base, "C15.Select", "Select: an input with the wrong key set was accepted")
    except ValueError:
        pass
    return dict(base, ok=True, nontrivial=0 < len(sub) < len(keys))


def _run_stack(case, T, rng, g, dtype, base):
    from torchjd.autojac._transform.base import Transform

    class Const(Transform):
        def __init__(self, d):
            self.d = d

        def _compute(self, input):
            return T.Gradients(self.d)

        @property
        def required_keys(self):
            return set()

        @property
        def output_keys(self):
            return set(self.d.keys())

    keys = [_rand(g, s, dtype) for s in case["shapes"]]
    t = rng.randint(1, 4)
    dicts = []
    for i in range(t):
        present = [k for k in _shuffled(rng, keys) if rng.random() < 0.65]
        dicts.append({k: _rand(g, k.shape, dtype) for k in present})
    res = T.Stack([Const(d) for d in dicts])(T.EmptyTensorDict())
    union = [k for k in keys if any(k in d for d in dicts)]
    if type(res) is not T.Jacobians and not (len(union) == 0 and len(res) == 0):
        return _fail(base, "C15.Stack", "Stack: output is not a Jacobians", str(type(res)))
    if set(map(id, res.keys())) != set(map(id, union)):
        return _fail(base, "C15.Stack", "Stack: key set is not the union of the key sets")
    absent = False
    for k in union:
        want = np.stack([_np(d[k]) if k in d else np.zeros(tuple(k.shape)) for d in dicts])
        absent |= any(k not in d for d in dicts)
        if res[k].dtype != k.dtype:
            return _fail(base, "C15.Stack", f"Stack: the stacked tensor has dtype {res[k].dtype}, the key has {k.dtype}")
        if tuple(res[k].shape) != want.shape or not np.array_equal(_np(res[k]), want):
            return _fail(base, "C15.Stack", f"Stack: rows of a key of shape {tuple(k.shape)} are not the per-transform "
                                            "gradients in order, zeros where absent", res[k], want)
    return dict(base, ok=True, nontrivial=t >= 2 and absent)


def _run_aggregate(case, T, rng, g, dtype, base):
    from torchjd.aggregation import Mean
    from torchjd.aggregation.bases import Aggregator

    class Probe(Aggregator):
        """Remembers the matrix it is given; returns a vector that depends on the identity of every column."""

        def __init__(self):
            super().__init__()
            self.seen = None

        def forward(self, matrix):
            self.seen = matrix.detach().clone()
            n = matrix.shape[1]
            ar = torch.arange(1, n + 1, dtype=matrix.dtype)
            return matrix[0] * ar + matrix.sum(0) * 0.25 + ar * 0.5

    keys = [_rand(g, s, dtype) for s in case["shapes"]]
    m = rng.randint(1, 5)
    jacs = {k: _rand(g, (m,) + tuple(k.shape), dtype) for k in _shuffled(rng, keys)}
    order = _shuffled(rng, keys)
    use_mean = rng.random() < 0.3
    agg = Mean() if use_mean else Probe()
    # "applies the aggregator" means CALLING it (an nn.Module: registered hooks are part of what the call does): half of the
    # cases register a forward hook that doubles the aggregated vector
    hooked = rng.random() < 0.5
    if hooked:
        agg.register_forward_hook(lambda mod, inp, out: out * 2.0)
    res = T.Aggregate(agg, order)(T.Jacobians(jacs))
    united = np.concatenate([_np(jacs[k]).reshape(m, -1) for k in order], axis=1)
    n = united.shape[1]
    if use_mean:
        vec = united.mean(0)
    else:
        if agg.seen is None or tuple(agg.seen.shape) != united.shape or not np.array_equal(_np(agg.seen), united):
            return _fail(base, "C15.Aggregate", "Aggregate: the aggregator did not receive the column-wise concatenation "
                                                "(in key order) of the matrixified Jacobians", agg.seen, united)
        ar = np.arange(1, n + 1, dtype=np.float64)
        vec = united[0] * ar + united.sum(0) * 0.25 + ar * 0.5
    if hooked:
        vec = vec * 2.0
    if type(res) is not T.Gradients or set(map(id, res.keys())) != set(map(id, keys)):
        return _fail(base, "C15.Aggregate", "Aggregate: wrong output type or key set")
    start = 0
    tol = 1e-12 if dtype == torch.float64 else 1e-5
    for k in order:
        want = vec[start:start + k.numel()].reshape(tuple(k.shape))
        start += k.numel()
        got = res[k]
        if tuple(got.shape) != want.shape or not np.allclose(_np(got), want, rtol=tol, atol=tol * 10):
            return _fail(base, "C15.Aggregate", f"Aggregate: a key of shape {tuple(k.shape)} did not receive its own "
                                                "reshaped slice of the aggregated vector", got, want)
    return dict(base, ok=True, nontrivial=len(keys) >= 2)


def _run_accumulate(case, T, rng, g, dtype, base):
    keys = [_rand(g, s, dtype).requires_grad_(True) for s in case["shapes"]]
    pre = {}
    for k in keys:
        if rng.random() < 0.5:
            k.grad = _rand(g, k.shape, dtype, -3, 3)
            pre[id(k)] = k.grad.clone()
    vec = _rand(g, (sum(k.numel() for k in keys),), dtype)  # values are views of one vector, as in the pipeline
    vals, start = {}, 0
    for k in keys:
        vals[k] = vec[start:start + k.numel()].view(k.shape)
        start += k.numel()
    vcopy = {id(k): v.clone() for k, v in vals.items()}
    out = T.Accumulate(_shuffled(rng, keys))(T.Gradients(vals))
    if len(out) != 0:
        return _fail(base, "C15.Accumulate", "Accumulate: output is not empty")
    for k in keys:
        want = vcopy[id(k)] + pre[id(k)] if id(k) in pre else vcopy[id(k)]
        if k.grad is None or not torch.equal(k.grad, want):
            return _fail(base, "C15.Accumulate", "Accumulate: .grad is not previous + value", k.grad, want)
        if id(k) not in pre and overlaps(storage_range(k.grad), storage_range(vec)):
            return _fail(base, "C15.Accumulate", "Accumulate: a fresh .grad shares storage with the given value")
    if not torch.equal(vec, torch.cat([vcopy[id(k)].reshape(-1) for k in keys])):
        return _fail(base, "C15.Accumulate", "Accumulate: the input values were modified")
    # rejected keys: nothing may be written
    bad = (keys[0] * 2.0) if rng.random() < 0.5 else _rand(g, (2,), dtype)
    ks = keys + [bad]
    snap = [k.grad.clone() for k in keys]
    try:
        T.Accumulate(ks)(T.Gradients({k: torch.ones_like(k) for k in _shuffled(rng, ks)}))
        return _fail(base, "C15.Accumulate", "Accumulate: a key that does not expect a .grad was accepted")
    except ValueError:
        pass
    if any(not torch.equal(k.grad, s) for k, s in zip(keys, snap)):
        return _fail(base, "C15.Accumulate", "Accumulate: rejected call modified some .grad")
    return dict(base, ok=True, nontrivial=len(keys) >= 2 and 0 < len(pre))


def _td_valid(cls, kshape, vshape):
    kn = int(np.prod(kshape)) if len(kshape) else 1
    if cls == "Gradients":
        return tuple(vshape) == tuple(kshape)
    if cls == "Jacobians":
        return len(vshape) >= 1 and tuple(vshape[1:]) == tuple(kshape)
    if cls == "GradientVectors":
        return len(vshape) == 1 and vshape[0] == kn
    if cls == "JacobianMatrices":
        return len(vshape) == 2 and vshape[1] == kn
    raise KeyError(cls)


def _run_tensordict(case, T, rng, g, dtype, base):
    cls = getattr(T, case["cls"])
    ks, vs = tuple(case["kshape"]), tuple(case["vshape"])
    k, v = _rand(g, ks, dtype), _rand(g, vs, dtype)
    valid = _td_valid(case["cls"], ks, vs)
    if case["cls"] == "Jacobians" and len(vs) == 0:
        return dict(base, ok=True, nontrivial=False, note="0-d value has no first dimension: outside the contract")
    if case["cls"] == "JacobianMatrices" and len(vs) == 0:
        return dict(base, ok=True, nontrivial=False, note="0-d value has no first dimension: outside the contract")
    try:
        td = cls({k: v})
        ok = True
    except ValueError:
        ok = False
    if ok != valid:
        return _fail(base, "C15.TensorDict", f"{case['cls']}: pair (key {ks}, value {vs}) "
                                             f"{'accepted' if ok else 'rejected'}", ok, valid)
    if valid:
        if td[k] is not v:
            return _fail(base, "C15.TensorDict", "stored value is not the given one")
        for name, args in (("__setitem__", (k, v)), ("__delitem__", (k,)), ("clear", ()), ("update", ({},)),
                           ("setdefault", (k, v)), ("pop", (k,)), ("popitem", ())):
            try:
                getattr(td, name)(*args)
                return _fail(base, "C15.TensorDict", f"{case['cls']}.{name} did not raise: the mapping is mutable")
            except TypeError:
                pass
        try:
            td.check_keys_are({k})
        except ValueError:
            return _fail(base, "C15.TensorDict", "check_keys_are rejected the right key set")
        try:
            td.check_keys_are({k, v})
            return _fail(base, "C15.TensorDict", "check_keys_are accepted a wrong key set")
        except ValueError:
            pass
        # a second pair with another first dimension must be rejected by the two batched classes
        if case["cls"] in ("Jacobians", "JacobianMatrices"):
            v2 = _rand(g, (vs[0] + 1,) + vs[1:], dtype)
            try:
                cls({k: v, _rand(g, ks, dtype): v2})
                return _fail(base, "C15.TensorDict", f"{case['cls']}: values with different first dimensions accepted")
            except ValueError:
                pass
    try:
        T.EmptyTensorDict({k: v})
        return _fail(base, "C15.TensorDict", "EmptyTensorDict accepted a non-empty mapping")
    except ValueError:
        pass
    return dict(base, ok=True, nontrivial=True)


# ----------------------------------------------------------------------------- differentiation transforms


def _setup_diff(case, rng, g, dtype):
    inputs = [_rand(g, s, dtype).requires_grad_(True) for s in case["shapes"]]
    outputs = connect(rng, g, inputs, case["out_shapes"], dtype)
    if rng.random() < 0.3:
        # a LEAF listed among the outputs (it is also an input): its own rows of the Jacobian are identity rows, on top of what the
        # other outputs contribute
        outputs.insert(rng.randrange(len(outputs) + 1), rng.choice(inputs))
    return inputs, outputs


def _run_grad(case, T, rng, g, dtype, base):
    inputs, outputs = _setup_diff(case, rng, g, dtype)
    cot = {o: _rand(g, o.shape, dtype) for o in outputs}
    J = gen.ref_jacobian(outputs, inputs)  # rows: outputs in list order; columns: inputs in list order
    gflat = torch.cat([cot[o].reshape(-1) for o in outputs])
    want = _split_cols(gflat @ J, inputs)
    res = T.Grad(_shuffled(rng, outputs), _shuffled(rng, inputs), retain_graph=True)(
        T.Gradients({o: cot[o] for o in _shuffled(rng, outputs)}))
    if type(res) is not T.Gradients or set(map(id, res.keys())) != set(map(id, inputs)):
        return _fail(base, "C15.Grad", "Grad: wrong output type or key set")
    for i, x in enumerate(inputs):
        if res[x].dtype != x.dtype:
            return _fail(base, "C15.Grad", f"Grad: the gradient of input {i} has dtype {res[x].dtype}, the input has {x.dtype}")
    rtol, atol = _tols(dtype, float(J.abs().max()) * J.shape[0])
    for i, (x, w) in enumerate(zip(inputs, want)):
        if not gen.close(res[x], w, rtol, atol):
            return _fail(base, "C15.Grad", f"Grad: value for input {i} (shape {tuple(x.shape)}) is not the "
                                           "vector-Jacobian product of the cotangents", res[x], w)
        if not bool((J[:, sum(t.numel() for t in inputs[:i]):][:, :x.numel()] != 0).any()) and bool(
                (res[x] != 0).any()):
            return _fail(base, "C15.Grad", f"Grad: unreachable input {i} did not get zeros", res[x], w)
    if len(T.Grad(outputs, [], retain_graph=True)(T.Gradients(cot))) != 0:
        return _fail(base, "C15.Grad", "Grad with no input does not return an empty dictionary")
    # no output: the vector-Jacobian product is the empty sum.  The allocator is dirtied first, so that a result taken from
    # uninitialised memory is visibly non-zero.
    for x in inputs:
        junk = torch.full(x.shape, 7.0, dtype=x.dtype)
        del junk
    res0 = T.Grad([], inputs, retain_graph=True)(T.Gradients({}))
    if set(map(id, res0.keys())) != set(map(id, inputs)):
        return _fail(base, "C15.Grad.no_outputs", "Grad with no output: wrong key set")
    for i, x in enumerate(inputs):
        if res0[x].shape != x.shape or bool((res0[x] != 0).any()):
            return _fail(base, "C15.Grad.no_outputs", f"Grad with no output: input {i} did not get zeros of its shape", res0[x],
                         torch.zeros_like(x))
    return dict(base, ok=True, nontrivial=len(inputs) >= 2 and bool((J != 0).any()))


def _run_jac(case, T, rng, g, dtype, base):
    inputs, outputs = _setup_diff(case, rng, g, dtype)
    B, chunk = case["B"], case["chunk"]
    cot = {o: _rand(g, (B,) + tuple(o.shape), dtype) for o in outputs}
    cot2 = {o: _rand(g, (B,) + tuple(o.shape), dtype) for o in outputs}
    J = gen.ref_jacobian(outputs, inputs)
    G = torch.cat([cot[o].reshape(B, -1) for o in outputs], dim=1)
    want = _split_cols(G @ J, inputs)
    o_order, i_order = _shuffled(rng, outputs), _shuffled(rng, inputs)
    jac = T.Jac(o_order, i_order, chunk, retain_graph=True)
    try:
        res = jac(T.Jacobians({o: cot[o] for o in _shuffled(rng, outputs)}))
    except (RuntimeError, ValueError) as e:
        return _fail(base, "C15.Jac", f"Jac raised for B={B}, chunk={chunk}", f"{type(e).__name__}: {str(e)[:150]}")
    if type(res) is not T.Jacobians or set(map(id, res.keys())) != set(map(id, inputs)):
        return _fail(base, "C15.Jac", "Jac: wrong output type or key set")
    rtol, atol = _tols(dtype, float(J.abs().max()) * J.shape[0])
    for i, x in enumerate(inputs):
        if res[x].dtype != x.dtype:   # a Jacobian computed in another precision is not "the same as Grad row by row"
            return _fail(base, "C15.Jac", f"Jac: the Jacobian of input {i} has dtype {res[x].dtype}, the input has {x.dtype}",
                         str(res[x].dtype), str(x.dtype))
    for i, (x, w) in enumerate(zip(inputs, want)):
        if not gen.close(res[x], w, rtol, atol):
            return _fail(base, "C15.Jac", f"Jac: value for input {i} (shape {tuple(x.shape)}) is not cotangents @ "
                                          f"Jacobian (B={B}, chunk={chunk})", res[x], w)
        c0 = sum(t.numel() for t in inputs[:i])
        if not bool((J[:, c0:c0 + x.numel()] != 0).any()) and bool((res[x] != 0).any()):
            return _fail(base, "C15.Jac", f"Jac: unreachable input {i} did not get zeros", res[x], w)
    # = stacking Grad row by row
    grad = T.Grad(o_order, i_order, retain_graph=True)
    for b in range(B):
        row = grad(T.Gradients({o: cot[o][b] for o in outputs}))
        for i, x in enumerate(inputs):
            if not gen.close(res[x][b], row[x], rtol, atol):
                return _fail(base, "C15.Jac", f"Jac: row {b} for input {i} differs from Grad applied to row {b} of the "
                                              f"cotangents (B={B}, chunk={chunk})", res[x][b], row[x])
    # linear in the cotangents
    al, be = rng.choice([-2.0, 0.5, 3.0]), rng.choice([-1.0, 0.25, 2.0])
    res2 = jac(T.Jacobians(cot2))
    res3 = jac(T.Jacobians({o: al * cot[o] + be * cot2[o] for o in outputs}))
    for i, x in enumerate(inputs):
        if not gen.close(res3[x], al * res[x] + be * res2[x], max(rtol, 1e-8), 10 * atol):
            return _fail(base, "C15.Jac", f"Jac is not linear in the cotangents (input {i})", res3[x],
                         al * res[x] + be * res2[x])
    return dict(base, ok=True, nontrivial=(len(inputs) >= 2 or B >= 2) and bool((J != 0).any()))


def _run_chain(case, T, rng, g, dtype, base):
    inputs = [_rand(g, s, dtype).requires_grad_(True) for s in case["shapes"]]
    mids = connect(rng, g, inputs, case["mid_shapes"], dtype)
    outputs = connect(rng, g, mids, case["out_shapes"], dtype)
    B, chunk = case["B"], case["chunk"]
    J = gen.ref_jacobian(outputs, inputs)  # end to end
    rtol, atol = _tols(dtype, float(J.abs().max()) * J.shape[0] * max(1, len(mids)))
    rtol, atol = rtol * 10, atol * 10
    # Jac o Jac
    cot = {o: _rand(g, (B,) + tuple(o.shape), dtype) for o in outputs}
    G = torch.cat([cot[o].reshape(B, -1) for o in outputs], dim=1)
    want = _split_cols(G @ J, inputs)
    chained = T.Jac(_shuffled(rng, mids), _shuffled(rng, inputs), chunk, retain_graph=True) << T.Jac(
        _shuffled(rng, outputs), _shuffled(rng, mids), chunk, retain_graph=True)
    res = chained(T.Jacobians(cot))
    direct = T.Jac(outputs, inputs, chunk, retain_graph=True)(T.Jacobians(cot))
    for i, (x, w) in enumerate(zip(inputs, want)):
        if not gen.close(res[x], w, rtol, atol) or not gen.close(res[x], direct[x], rtol, atol):
            return _fail(base, "C15.chain", f"Jac(mids, inputs) << Jac(outputs, mids) differs from differentiating end "
                                            f"to end (input {i}, B={B}, chunk={chunk})", res[x], w)
    # Grad o Grad
    gc = {o: _rand(g, o.shape, dtype) for o in outputs}
    want = _split_cols(torch.cat([gc[o].reshape(-1) for o in outputs]) @ J, inputs)
    res = (T.Grad(mids, _shuffled(rng, inputs), retain_graph=True) << T.Grad(outputs, _shuffled(rng, mids),
                                                                              retain_graph=True))(T.Gradients(gc))
    for i, (x, w) in enumerate(zip(inputs, want)):
        if not gen.close(res[x], w, rtol, atol):
            return _fail(base, "C15.chain", f"Grad(mids, inputs) << Grad(outputs, mids) differs from differentiating "
                                            f"end to end (input {i})", res[x], w)
    # mismatching key sets cannot be composed
    try:
        T.Jac(mids, inputs, chunk) << T.Jac(outputs, mids + [inputs[0]], chunk)
        return _fail(base, "C15.chain", "composition with mismatching key sets was accepted")
    except ValueError:
        pass
    return dict(base, ok=True, nontrivial=len(mids) >= 2 and bool((J != 0).any()))


_RUN = {"Init": _run_init, "Diagonalize": _run_diagonalize, "Select": _run_select, "Stack": _run_stack,
        "Aggregate": _run_aggregate, "Accumulate": _run_accumulate, "TensorDict": _run_tensordict,
        "Grad": _run_grad, "Jac": _run_jac, "chain": _run_chain}


def run_case(case):
    import torchjd.autojac._transform as T

    rng = random.Random(case["seed"])
    g = torch.Generator().manual_seed(case["seed"] % (2**31))
    dtype = _dt(case)
    kind = case["kind"]
    sig = f"{kind}|{case['shapes']}|{case['seed']}"
    if kind in ("Grad", "Jac", "chain"):
        sig += f"|{case['out_shapes']}|B{case['B']}|c{case['chunk']}"
    if kind == "chain":
        sig += f"|{case['mid_shapes']}"
    if kind == "TensorDict":
        sig = f"TensorDict|{case['cls']}|{case['kshape']}|{case['vshape']}"
    base = {"sig": sig, "nontrivial": False}
    try:
        return _RUN[kind](case, T, rng, g, dtype, base)
    except (RuntimeError, ValueError, IndexError, TypeError) as e:
        # "every valid application succeeds" is part of the contract: an exception raised from inside torchjd on
        # valid arguments is a violation; anything raised by the reference code is a crash of the checker
        import traceback

        frames = traceback.extract_tb(e.__traceback__)
        if any("/torchjd/" in f.filename for f in frames):
            return _fail(base, f"C15.{kind}", f"{kind}: the transform raised on valid arguments",
                         f"{type(e).__name__}: {str(e)[:160]}", "success")
        raise
