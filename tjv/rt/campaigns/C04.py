"""C04 [E/B]: non-conflicting aggregators never oppose any objective — exhaustive ternary + bounded campaign.

Executable rendering of the clause  J . A(J) >= -allowance  (entry-wise) with the allowances of the statement, on the
real UPGrad, DualProj, MGDA and CAGrad(c >= 1), for matrices with largest singular value s >= norm_eps.

Failure keys and allowances (e = eps of the matrix dtype, dG := 32 max(m,n) e the rounding of the code's normalised
Gramian, R the largest row norm, w = aggregator.weighting(J) the observed combination weights):
  C04.upgrad / C04.dualproj
      (J x)_i >= -reg_eps s^2 w_i - s^2 dG |w|_1 - round_i.   The QP's dual feasibility G'w >= 0 holds for the code's
      Gramian G' = J J^T/s^2 + reg I + dG-perturbation (summed over the m projections for UPGrad, whose weights are all
      >= 0 so that sum_i |w_i|_2 <= |w|_1): (J J^T w)_i >= -reg s^2 w_i - s^2 |dG w|.
  C04.mgda
      (J x)_i >= -s sqrt(h) - round_i with h = |x|^2 - min-norm^2 (Lean: hull_allowance), min-norm^2 from the
      independent support enumeration; h carries the cancellation slack 2|x| dx + dx^2 + 16 m n eps64 s^2 where
      dx = 8 (m+2) e R bounds the rounding of the combination.  Holds for every point of the hull, so it fails iff the
      weights leave the simplex (negative / not summing to one beyond (max_iters + m + 2) 4 e).
  C04.mgda_rate
      epsilon = 0:  h <= 8 s^2 / (max_iters + 2) (+ the same slack).  Jaggi 2013, Thm 1 with exact line search:
      C_f = sup 2 |J^T(e_t - a)|^2 <= 4 s^2.
  C04.cagrad   (c >= 1)
      (J x)_i >= -s^2 [ sqrt(8 lam gap) + 1e-7 (1 + lam) + dG |w|_1 ] - round_i,  lam = sum(w) - 1 = sqrt_phi / |g_w|,
      gap = 1e-8 (1 + c) (CLARABEL's default absolute/relative gap tolerance on an objective <= (1 + c)).
      g_i . d(w) is the partial derivative dF/dw_i of the dual objective F(w) = g_w.g0 + sqrt_phi |g_w|, F is
      lam'-smooth with lam' <= 4 lam near the optimum (assumed: |g_w| >= |g_w*|/4 on the segment), and for a convex
      L-smooth F an eps-optimal point has |grad F(w) - grad F(w*)|^2 <= 2 L eps, while grad F(w*)_i >= F* >= 0 for c >= 1
      (d = 0 is feasible).  The solver's accuracy itself is a trusted primitive.
  A call that raises is reported under the aggregator's key.
"""
from __future__ import annotations

import math
import random

import numpy as np
import torch

from tjv.rt.aggs import gen_matrix, make_agg
from ._agga import eps_of, fail, min_norm_enum, sigma_max, small, to64

RULE = ("(UPGrad | DualProj with pref vectors and (norm_eps, reg_eps) pairs | MGDA with epsilon in {0, 1e-3} and "
        "max_iters in {1,2,5,20,100,1000} | CAGrad with c in {1, 1.5, 3, 10}) x matrix family (all ternary matrices up "
        "to 3x3; random strongly conflicting = antiparallel / stationary, rank-deficient, badly scaled rows over 12 "
        "decades, duplicates, zero rows, imbalanced Pareto-stationary) x scale x dtype, the scale log-uniform over "
        "many decades for EVERY aggregator in both dtypes (MGDA, which has no norm_eps: 1e-9..1e9 in float32, 1e-30..1e30 "
        "in float64; the others from norm_eps/10 upwards: everything in the code must be relative to s) + a 'rate' "
        "family: MGDA(epsilon=0, max_iters in {100,1000,3000}) on stationary / imbalanced-stationary / antiparallel / long-row (first Frank-Wolfe step of size 1 onto a vertex that is not the min-norm point) "
        "matrices at those scales, where the mean violates the rate bound; oracle = entry-wise lower bound of J.A(J) by the stated "
        "allowance, min-norm point by support enumeration. distinct = (aggregator spec, matrix spec); non-trivial = "
        "s >= norm_eps, m >= 2 and some pair of rows has a negative inner product")
BOUNDS = ("m <= 6, n <= 8 (random part), scale 1e-9..1e9 (float32: s^2 and the 12-decade row scalings stay in the normal "
          "range) resp. 1e-30..1e30 (float64); ternary part m, n <= 3")
EXHAUSTIVE = ("thorough: all 21 297 matrices with entries in {-1,0,1} and m, n <= 3, each under UPGrad, DualProj, MGDA, "
              "CAGrad(c=1) (85 188 cases); quick: all 2x2 and a seeded sample of 400 of the others")

EPS_PAIRS = [(1e-4, 1e-4), (1e-4, 1e-2), (1e-2, 1e-4), (1e-6, 1e-3), (1e-3, 1e-6)]
PREFS = [None, None, "distinct", "withzero", {"rand": 7}]
ITERS = [1, 2, 5, 20, 100, 1000]
KINDS = ["antiparallel", "antiparallel", "stationary", "stationary", "gauss", "lowrank", "duprows", "zerorow",
         "rowscales", "ternary", "wellcond"]
EXH_AGGS = [{"name": "UPGrad"}, {"name": "DualProj"}, {"name": "MGDA"}, {"name": "CAGrad", "c": 1.0}]


def _rand_agg(rng, dtype, i):
    k = i % 4
    if k in (0, 1):
        ne, re_ = rng.choice(EPS_PAIRS)
        if dtype == "float32":
            re_ = max(re_, 1e-6)
        spec = {"name": "UPGrad" if k == 0 else "DualProj", "norm_eps": ne, "reg_eps": re_}
        p = rng.choice(PREFS)
        if p is not None:
            spec["pref"] = p
        return spec
    if k == 2:
        it = rng.choice(ITERS if rng.random() < 0.9 else [1000])
        if it == 1000 and rng.random() < 0.6:
            it = rng.choice(ITERS[:5])
        return {"name": "MGDA", "epsilon": rng.choice([0.0, 0.0, 0.001]), "max_iters": it}
    return {"name": "CAGrad", "c": rng.choice([1.0, 1.0, 1.5, 3.0, 10.0]), "norm_eps": rng.choice([1e-4, 1e-6])}


WIDE = {"float32": 9.0, "float64": 30.0}  # |log10 scale|: (scale * 1e6)^2 * n stays a normal float32 number


def _wide_exp(rng, dtype, spec):
    """log10 of a scale drawn log-uniformly over the decades the dtype can carry; aggregators with a norm_eps start a
    decade below it (smaller matrices are outside the statement)."""
    hi = WIDE[dtype]
    lo = -hi if spec["name"] == "MGDA" else math.log10(spec.get("norm_eps", 1e-4)) - 1.0
    return rng.uniform(lo, hi)


def cases(tier, seed, focus=None):
    rng = random.Random(4000 + seed)
    out = []
    # ---- exhaustive ternary part
    tern = [(m, n, code) for m in (1, 2, 3) for n in (1, 2, 3) for code in range(3 ** (m * n))]
    if tier == "quick":
        small_ = [t for t in tern if t[0] * t[1] <= 4]
        tern = small_ + rng.sample([t for t in tern if t[0] * t[1] > 4], 400)
    for (m, n, code) in tern:
        for spec in (EXH_AGGS if tier == "thorough" else [EXH_AGGS[(code + m + n) % 4]]):
            out.append({"agg": spec, "mat": {"kind": "ternary", "m": m, "n": n, "seed": 0, "code": code,
                                             "dtype": "float64" if (code + m) % 3 else "float32", "scale": 1.0}})
    # ---- reg_eps = 0: the QP solver may REJECT a singular problem (an exception: no aggregation is returned, fine); whatever IS
    # returned must still not oppose any objective (allowance 0 + rounding) - a swallowed rejection shows up here
    rng_z = random.Random(40800 + seed)
    zt = [(m, n, code) for m in (2, 3) for n in (1, 2, 3) for code in range(3 ** (m * n))]
    for (m, n, code) in rng_z.sample(zt, 120 if tier == "quick" else 2000):
        spec = {"name": rng_z.choice(["UPGrad", "DualProj"]), "norm_eps": 1e-4, "reg_eps": 0.0}
        if rng_z.random() < 0.4:
            spec["pref"] = "distinct"
        out.append({"agg": spec, "mat": {"kind": "ternary", "m": m, "n": n, "seed": 0, "code": code, "dtype": "float64", "scale": 1.0}})
    # ---- CAGrad on imbalanced matrices whose conflict sits in a weak direction
    rng_c = random.Random(40900 + seed)
    for j in range(40 if tier == "quick" else 600):
        out.append({"agg": {"name": "CAGrad", "c": rng_c.choice([1.0, 1.0, 1.2, 2.0]), "norm_eps": 1e-4},
                    "mat": {"kind": "weakdir", "m": rng_c.choice([3, 3, 4]), "n": rng_c.choice([2, 2, 3, 5]), "seed": rng_c.randrange(10**6),
                            "dtype": "float64", "scale": 1.0}})
    # ---- random part
    n_rand = 500 if tier == "quick" else 16000
    n_wide = 300 if tier == "quick" else 8000
    rng_w = random.Random(40400 + seed)  # own stream: the cases of the first n_rand iterations are unchanged
    for i in range(n_rand + n_wide):
        wide = i >= n_rand  # second part: scales over all the decades the dtype carries
        if wide:
            rng = rng_w
        dtype = rng.choice(["float64", "float64", "float32"])
        spec = _rand_agg(rng, dtype, i)
        if spec["name"] == "CAGrad" and tier == "quick" and rng.random() < 0.5:
            spec = _rand_agg(rng, dtype, rng.choice([0, 1, 2]))
        m, n = rng.randint(2, 6), rng.randint(1, 8)
        kind = rng.choice(KINDS)
        if kind == "wellcond" and m > n:
            kind = "gauss"
        mat = {"kind": kind, "m": m, "n": n, "seed": rng.randrange(10**6), "dtype": dtype,
               "scale": 10.0 ** (_wide_exp(rng, dtype, spec) if wide else
                                 rng.choice([0.0, rng.uniform(-3, 6), rng.uniform(-3, 6)]))}
        if kind == "lowrank":
            mat["rank"] = rng.randint(1, max(1, min(m, n) - 1))
        if kind == "ternary":
            mat["code"] = rng.randrange(3 ** (m * n))
        if kind == "rowscales":
            mat["decades"] = rng.choice([4, 12])
        out.append({"agg": spec, "mat": mat})
    # ---- rate part: the Frank-Wolfe bound is tight only for a large budget on matrices whose mean is far from the
    # min-norm point; it must hold at every scale (nothing in the solver may be absolute)
    n_rate = 160 if tier == "quick" else 3000
    rng = rng_w
    for i in range(n_rate):
        dtype = "float32" if i % 2 else "float64"
        spec = {"name": "MGDA", "epsilon": 0.0, "max_iters": rng.choice([100, 1000, 1000, 3000])}
        m, n = rng.randint(2, 6), rng.randint(2, 8)
        kind = rng.choice(["stationary", "imbstationary", "imbstationary", "antiparallel"])
        if i % 4 == 3:
            kind, m = "longrow", rng.randint(3, 5)
        mat = {"kind": kind, "m": m, "n": n, "seed": rng.randrange(10**6), "dtype": dtype,
               "scale": 10.0 ** _wide_exp(rng, dtype, spec)}
        if kind == "imbstationary":
            mat["decades"] = rng.choice([0.5, 1.0, 1.5, 2.0])
        out.append({"agg": spec, "mat": mat})
    return out


def run_case(case):
    spec, mat = case["agg"], case["mat"]
    name = spec["name"]
    key = {"UPGrad": "C04.upgrad", "DualProj": "C04.dualproj", "MGDA": "C04.mgda", "CAGrad": "C04.cagrad"}[name]
    sig = repr((sorted(spec.items(), key=str), sorted(mat.items(), key=str)))
    J = gen_matrix(mat)
    m, n = J.shape
    e = eps_of(J)
    J64 = to64(J)
    s = sigma_max(J64)
    ne = spec.get("norm_eps", 1e-4) if name != "MGDA" else 0.0
    if s == 0.0 or s < ne * (1.0 + 64.0 * max(m, n) * e):
        return {"ok": True, "sig": sig, "nontrivial": False, "note": "s < norm_eps: outside the statement"}
    conflict = m >= 2 and bool(((J64 / s) @ (J64 / s).T < 0).any())
    agg = make_agg(spec, m, J.dtype)
    try:
        x = to64(agg(J))
        w = to64(agg.weighting(J))
    except Exception as ex:
        if spec.get("reg_eps", 1.0) == 0.0:
            return {"ok": True, "sig": sig, "nontrivial": False, "note": f"unregularised problem rejected ({type(ex).__name__})"}
        return fail(key, f"{name} raised {type(ex).__name__}: {str(ex)[:150]}", sig, conflict, "exception",
                    "a vector", matrix=small(J))
    Jx = J64 @ x
    rows = np.linalg.norm(J64, axis=1)
    R = float(rows.max())
    w1 = float(np.abs(w).sum())
    xn = float(np.linalg.norm(x))
    dx = 8.0 * (m + 2) * e * w1 * R  # rounding of x = w @ J in the dtype (per entry), so |dx|_2 <= sqrt(n) dx
    rnd = rows * (math.sqrt(n) * dx + 8.0 * (n + 2) * np.finfo(np.float64).eps * xn)
    dG = 32.0 * max(m, n) * e

    if name in ("UPGrad", "DualProj"):
        reg = spec.get("reg_eps", 1e-4)
        allow = reg * s * s * np.maximum(w, 0.0) + s * s * dG * w1 + rnd
        if reg == 0.0:
            allow = allow + 1e-7 * s * s * max(w1, 1.0)   # accuracy of the QP solver itself [T] (hidden by reg_eps otherwise)
    elif name == "CAGrad":
        c = spec["c"]
        lam = max(float(w.sum()) - 1.0, 0.0)
        gap = 1e-8 * (1.0 + c)
        allow = s * s * (math.sqrt(8.0 * lam * gap) + 1e-7 * (1.0 + lam) + dG * w1) + rnd
    else:
        mn2, _ = min_norm_enum(J64)
        dxe = math.sqrt(n) * dx
        slack = 2.0 * xn * dxe + dxe * dxe + 16.0 * m * n * np.finfo(np.float64).eps * s * s
        h = float(x @ x) - mn2
        hs = max(h, 0.0) + slack
        iters = spec.get("max_iters", 100)
        drift = (iters + m + 2) * 4.0 * e  # |sum(a) - 1| and negative parts after `iters` convex updates in the dtype
        allow = s * math.sqrt(hs) + rnd + drift * rows * max(xn, R)
        if spec.get("epsilon", 0.001) == 0.0:
            bound = 8.0 * s * s / (iters + 2)
            if h > bound + slack + drift * s * s:
                return fail("C04.mgda_rate", f"MGDA(epsilon=0, max_iters={iters}): sub-optimality |A(J)|^2 - min-norm^2 "
                            f"= {h:.4e} > 8 s^2/(max_iters+2) = {bound:.4e}", sig, conflict, h, bound,
                            weights=small(w), matrix=small(J, 40))
    viol = -(Jx + allow)
    i = int(np.argmax(viol))
    if viol[i] > 0:
        return fail(key, f"{name}: (J.A(J))[{i}] = {Jx[i]:.4e} < -allowance = {-allow[i]:.4e} (s={s:.3e})", sig, conflict,
                    small(Jx), small(-allow), weights=small(w), matrix=small(J, 40))
    neg = Jx < 0
    note = f"{float((-Jx[neg] / allow[neg]).max()):.2e}" if neg.any() else "0"
    return {"ok": True, "sig": sig, "nontrivial": conflict, "note": note}
