"""C05 [B]: with linear aggregators, Jacobian descent coincides with PyTorch autograd — twin-graph comparison.

The real backward / mtl_backward runs on one graph; torch.autograd runs on an identical, independent graph:

  backward(T, Constant(w), inputs)   vs  torch.autograd.backward(T, grad_tensors = w split per tensor, inputs)
  backward(T, Sum() / Mean(), ...)   vs  (sum resp. mean of all output scalars).backward(inputs)
  mtl_backward(losses, features, Constant(w)/Sum/Mean, tasks_params, shared_params)
        shared params                vs  torch.autograd.backward(losses, grad_tensors = w, inputs = shared params)
        task-specific params         vs  loss_i.backward(inputs = task_params_i)  for every i
and the .grad of EVERY leaf of the two graphs must then agree (pre-existing .grad included).
"""
from __future__ import annotations

import random

import torch

from tjv.rt import gen
from tjv.rt.aggs import constant_weights
from ._autojac import as_container, choose_inputs, mtl_kwargs, n_rows, set_pregrads

RULE = ("random program (gen.build / gen.build_mtl as in C01 / C02) x linear aggregator (Constant(w) with w "
        "signed-with-zeros / uniform(-2,2) / one-hot / all-zero, Sum, Mean) x subset and order of inputs (backward) "
        "or explicit / defaulted parameter lists (mtl) x kind of iterable used for inputs / shared_params / each "
        "tasks_params entry (list, tuple, dict keys, and the one-shot kinds iter(list) and generator) x leaves in "
        "contiguous / permuted / strided / expanded layouts x dead outputs / losses (multiplied by 0.0: exactly "
        "zero rows of the Jacobian next to non-zero ones) x chunk size x pre-existing .grad x dtype; oracle = "
        "torch.autograd on a twin graph, never the aggregator. distinct = (program trace, aggregator, weights, "
        "chunk, inputs); non-trivial = >=2 rows with non-zero weight whose Jacobian rows are non-zero and "
        "different, i.e. the weights matter.  Plus a directed family 'bigrows': outputs <a_i, x> with rows of one sign at "
        "0.45..0.9 of the maximum of float32 / float16 / bfloat16 (Mean, Constant with |w|_1 < 1): the weighted combination "
        "is representable, the plain column sum is not")
BOUNDS = "programs as in C01 / C02: <=5 leaves, <=9 ops, <=3 outputs; <=3 shared, <=3 features, <=4 tasks"
EXHAUSTIVE = ""

AGGS = [("Constant", "signed"), ("Constant", "rand"), ("Sum", None), ("Mean", None), ("Constant", "onehot"),
        ("Constant", "signed"), ("Constant", "zeros"), ("Constant", "rand")]


def cases(tier, seed, focus=None):
    n = 240 if tier == "quick" else 6000
    rng = random.Random(5000 + seed)
    rng2 = random.Random(5005000 + seed)  # stream of the later families (the earlier cases are kept as they were)
    for i in range(n):
        fn = "backward" if i % 5 < 3 else "mtl"
        name, kind = AGGS[(i // 5 * 3 + i % 5) % len(AGGS)]
        dtype = rng.choice(["float64", "float64", "float32"])
        if fn == "backward":
            prog = {"seed": rng.randrange(10**9), "n_leaves": rng.randint(1, 5), "n_ops": rng.randint(2, 9),
                    "n_outputs": rng.randint(1, 3), "dtype": dtype}
        else:
            prog = {"seed": rng.randrange(10**9), "n_shared": rng.randint(1, 3), "n_features": rng.randint(1, 3),
                    "n_tasks": rng.randint(1, 4), "dtype": dtype, "overlap": rng.random() < 0.6,
                    "empty_task": rng.random() < 0.5, "feat_shapes": "any", "trunk": rng.choice(["dense", "sparse"])}
        case = {"fn": fn, "prog": prog, "agg": name, "wkind": kind, "wseed": rng.randrange(10**6),
                "chunk": rng.choice([None, 1, 2, 3, "R", "R+1"]), "inputs": rng.choice(["all", "subset", "subset"]),
                "sel_seed": rng.randrange(10**6), "pre": rng.choice(["none", "some", "all"]),
                "tp": rng.choice(["list", "list", "default"]), "sp": rng.choice(["list", "list", "default"]),
                "retain": rng.random() < 0.3, "inputs_as": "list"}
        r2 = random.Random(rng2.randrange(10**9))
        if i % 2 == 1:  # other kinds of iterables, the one-shot ones in particular
            case["inputs_as"] = r2.choice(ONE_SHOT + ONE_SHOT + ["tuple", "dictkeys"])
            case["tp"] = r2.choice(ONE_SHOT + ONE_SHOT + ["tuple", "dictkeys", "default"])
            case["sp"] = r2.choice(ONE_SHOT + ONE_SHOT + ["tuple", "dictkeys", "default"])
        if i % 4 == 2:  # dead outputs / losses: exactly zero rows of the Jacobian next to non-zero ones
            case["dead"] = [r2.randrange(6) for _ in range(r2.choice([1, 1, 2]))]
        yield case
    # ---- Jacobians whose entries are near the top of the dtype's range: every row, and every weighted combination with
    # |w|_1 <= 1, is representable, but the plain SUM of a column is not (half precision without loss scaling, ...)
    rng3 = random.Random(5050500 + seed)
    for i in range(24 if tier == "quick" else 600):
        yield {"fn": "bigrows", "seed": rng3.randrange(10**9), "m": rng3.randint(2, 4), "k": rng3.randint(1, 4),
               "dtype": rng3.choice(["float32", "float32", "float16", "bfloat16"]), "agg": rng3.choice(["Mean", "Mean", "Constant"]),
               "chunk": rng3.choice([None, 1, 2]), "via": rng3.choice(["direct", "chain"])}


ONE_SHOT = ["iter", "gen"]


def _run_bigrows(case):
    """Outputs y_i = <a_i, h(x)> with all a_i of one sign per coordinate and of magnitude 0.45..0.9 of the dtype's maximum, h the
    identity or x -> 1.0 * x + 0.0: .grad must be what torch.autograd.backward(ys, grad_tensors=w) leaves (w = 1/m, or positive
    weights summing to at most 1): finite, although the unweighted column sums are not representable."""
    import torchjd.aggregation as A
    from torchjd import backward

    dtype = getattr(torch, case["dtype"])
    m, k = case["m"], case["k"]
    sig = f"bigrows|{sorted(case.items())}"
    g = torch.Generator().manual_seed(case["seed"])
    top = torch.finfo(dtype).max
    sign = (torch.randint(0, 2, (k,), generator=g) * 2 - 1).to(torch.float64)
    a = ((0.45 + 0.45 * torch.rand(m, k, generator=g, dtype=torch.float64)) * top * sign).to(dtype)
    if case["agg"] == "Mean":
        w = torch.full((m,), 1.0 / m, dtype=dtype)
    else:
        w = torch.rand(m, generator=g, dtype=torch.float64) + 0.1
        w = (w / w.sum() * 0.98).to(dtype)
    res = []
    for real in (True, False):
        x = torch.zeros(k, dtype=dtype, requires_grad=True)
        h = x if case["via"] == "direct" else x * 1.0 + 0.0
        try:
            ys = [(a[i] * h).sum() for i in range(m)]
            if real:
                backward(ys, A.Mean() if case["agg"] == "Mean" else A.Constant(w.clone()), inputs=[x], parallel_chunk_size=case["chunk"])
            else:
                torch.autograd.backward(ys, grad_tensors=[w[i] for i in range(m)], inputs=[x])
        except (RuntimeError, NotImplementedError) as e:
            if not real or "not implemented for" in str(e):  # the dtype lacks a CPU kernel: nothing is claimed for this case
                return {"ok": True, "sig": sig, "nontrivial": False, "note": f"unsupported dtype: {str(e)[:80]}"}
            return {"ok": False, "sig": sig, "nontrivial": True, "key": "C05.mean" if case["agg"] == "Mean" else "C05.constant",
                    "what": "valid call raised", "observed": f"{type(e).__name__}: {str(e)[:160]}", "expected": "success"}
        res.append(x.grad)
    g1, g2 = res
    if g2 is None or not bool(g2.isfinite().all()):  # the oracle itself left the range: outside this family
        return {"ok": True, "sig": sig, "nontrivial": False, "note": "oracle not finite"}
    eps = torch.finfo(dtype).eps
    ok = g1 is not None and bool(g1.isfinite().all()) and gen.close(g1.double(), g2.double(), 64.0 * m * eps, 0.0)
    if ok:
        return {"ok": True, "sig": sig, "nontrivial": True}
    return {"ok": False, "sig": sig, "nontrivial": True, "key": "C05.mean" if case["agg"] == "Mean" else "C05.constant",
            "what": "rows near the top of the dtype's range: .grad differs from what torch.autograd.backward(ys, grad_tensors=w) leaves "
                    "(a finite weighted combination; the unweighted column sum is not representable)",
            "observed": None if g1 is None else g1.tolist(), "expected": g2.tolist(), "weights": w.tolist(), "rows": a.tolist()}


def _kill(tensors: list, dead) -> None:
    """Multiplies the tensors at the positions ``dead`` (modulo the length) by 0.0, in place in the list; at least
    one tensor stays alive when there are several."""
    pos = sorted({d % len(tensors) for d in dead or []})
    if len(pos) == len(tensors):
        pos = pos[1:]
    for j in pos:
        tensors[j] = tensors[j] * 0.0


def _weights(case, m, dtype):
    name, kind = case["agg"], case["wkind"]
    if name == "Sum":
        return torch.ones(m, dtype=dtype)
    if name == "Mean":
        return torch.full((m,), 1.0 / m, dtype=dtype)
    if kind == "onehot":
        w = torch.zeros(m, dtype=dtype)
        w[case["wseed"] % m] = -1.75
        return w
    if kind == "zeros":
        return torch.zeros(m, dtype=dtype)
    return constant_weights(kind, m, dtype, case["wseed"])


def _aggregator(case, w):
    import torchjd.aggregation as A

    if case["agg"] in ("Sum", "Mean"):
        agg = A.Sum() if case["agg"] == "Sum" else A.Mean()
        if case["wseed"] % 3 != 0:
            # the SAME instance has been used before, on matrices with more / other numbers of rows (an optimiser step with a
            # larger batch, another model): what it returns now may not depend on that (deterministic in the case)
            g = torch.Generator().manual_seed(case["wseed"])
            for extra in (len(w) + 1 + case["wseed"] % 4, len(w) + 7, max(1, len(w) - 1)):
                agg(torch.randn(extra, 3, generator=g, dtype=w.dtype))
        return agg
    return A.Constant(w.clone())


def run_case(case):
    from torchjd import backward, mtl_backward

    fn = case["fn"]
    if fn == "bigrows":
        return _run_bigrows(case)
    if fn == "backward":
        p1, p2 = gen.build(case["prog"]), gen.build(case["prog"])
        _kill(p1.outputs, case.get("dead"))
        _kill(p2.outputs, case.get("dead"))
        leaves1, leaves2 = p1.leaves, p2.leaves
        m = n_rows(p1.outputs)
        dtype = p1.outputs[0].dtype
    else:
        p1, p2 = gen.build_mtl(case["prog"]), gen.build_mtl(case["prog"])
        _kill(p1.losses, case.get("dead"))
        _kill(p2.losses, case.get("dead"))
        leaves1, leaves2 = p1.all_leaves(), p2.all_leaves()
        m = len(p1.losses)
        dtype = p1.losses[0].dtype
    w = _weights(case, m, dtype)
    chunk = {"R": m, "R+1": m + 1}.get(case["chunk"], case["chunk"])
    sig = (f"{fn}|" + "|".join(p1.desc) + f"|{case['agg']}{case['wkind']}{case['wseed']}|{chunk}|{case['inputs']}"
           f"{case['sel_seed']}|{case['tp']}{case['sp']}{case.get('inputs_as', 'list')}|{case['pre']}"
           f"|dead{case.get('dead')}")
    set_pregrads(leaves1, case["sel_seed"], case["pre"])
    set_pregrads(leaves2, case["sel_seed"], case["pre"])
    pre_mag = max([1.0] + [float(t.grad.abs().max()) for t in leaves2 if t.grad is not None and t.grad.numel()])

    # ---- real code on graph 1, torch.autograd on graph 2
    key = {"Sum": "C05.sum", "Mean": "C05.mean"}.get(case["agg"], "C05.constant")
    try:
        if fn == "backward":
            idx = choose_inputs(p1, case["sel_seed"], case["inputs"])
            backward(p1.outputs, _aggregator(case, w),
                     inputs=as_container([p1.grad_leaves[i] for i in idx], case.get("inputs_as", "list")),
                     retain_graph=case["retain"], parallel_chunk_size=chunk)
        else:
            mtl_backward(aggregator=_aggregator(case, w), retain_graph=case["retain"], parallel_chunk_size=chunk,
                         **mtl_kwargs(p1, case["tp"], case["sp"]))
    except (RuntimeError, ValueError) as e:
        return {"ok": False, "sig": sig, "nontrivial": False, "key": key, "what": "valid call raised",
                "observed": f"{type(e).__name__}: {str(e)[:160]}", "expected": "success"}
    if fn == "backward":
        ins2 = [p2.grad_leaves[i] for i in idx]
        J = gen.ref_jacobian(p2.outputs, ins2)  # only for the tolerance and the non-triviality measure
        if case["agg"] == "Sum":
            total = sum(o.sum() for o in p2.outputs)
            total.backward(inputs=ins2)
        elif case["agg"] == "Mean":
            total = sum(o.sum() for o in p2.outputs) / m
            total.backward(inputs=ins2)
        else:
            gts, start = [], 0
            for o in p2.outputs:
                gts.append(w[start:start + o.numel()].reshape(o.shape))
                start += o.numel()
            torch.autograd.backward(p2.outputs, grad_tensors=gts, inputs=ins2)
        shared_ids = set()
    else:
        J = torch.stack([torch.cat([(g if g is not None else torch.zeros_like(s)).reshape(-1) for g, s in zip(
            torch.autograd.grad(l, p2.shared, retain_graph=True, allow_unused=True), p2.shared)])
            for l in p2.losses])
        for l, tp in zip(p2.losses, p2.tasks_params):
            if tp:
                l.backward(inputs=list(tp), retain_graph=True)
        torch.autograd.backward(p2.losses, grad_tensors=[w[i] for i in range(m)], inputs=list(p2.shared))
        shared_ids = {id(s) for s in p2.shared}

    eps = torch.finfo(dtype).eps
    jmax = max(1.0, float(J.abs().max())) if J.numel() else 1.0
    wmax = max(1.0, float(w.abs().max()))
    atol = 1000.0 * eps * (m * wmax * jmax + pre_mag)
    rtol = 1000.0 * eps
    act = [i for i in range(m) if w[i] != 0 and bool((J[i] != 0).any())] if J.numel() else []
    nontrivial = len(act) >= 2 and any(not torch.equal(J[act[0]], J[i]) for i in act[1:])
    for li, (x1, x2) in enumerate(zip(leaves1, leaves2)):
        g1, g2 = x1.grad, x2.grad
        if g2 is None:
            # torch leaves None for an input no output depends on; Jacobian descent deposits that zero column
            ok = g1 is None or not bool((g1 != 0).any())
        else:
            ok = g1 is not None and gen.close(g1, g2, rtol, atol)
        if not ok:
            k = key if fn == "backward" else ("C05.mtl_shared" if id(x2) in shared_ids else "C05.mtl_task")
            return {"ok": False, "sig": sig, "nontrivial": nontrivial, "key": k,
                    "what": f"leaf {li}: .grad differs from what torch.autograd leaves on the twin graph",
                    "observed": None if g1 is None else g1.tolist(), "expected": None if g2 is None else g2.tolist(),
                    "weights": w.tolist()}
    return {"ok": True, "sig": sig, "nontrivial": nontrivial}
