"""C18 [B]/[E]: MGDA, PCGrad, CAGrad, GradDrop and Random satisfy their published definitions.

Clauses (finding keys):
  C18.mgda      weights on the simplex (>= 0, sum 1); |A(J)|^2 <= |mean row|^2 (+ rounding of the Gramian); for two
                rows A(J) is the minimum-norm point of the segment [g1, g2] (closed form).
  C18.random    Random: strictly positive weights summing to 1, output = weights @ J (seeded).
  C18.cagrad    | |A(J) - g0| - c|g0| | within a tolerance derived from the accuracy of the reduced Gramian, or A(J) = 0
                and the matrix is (numerically) Pareto-stationary (brute-force min-norm point of the hull below
                norm_eps * sigma_max); c = 0 => the mean row.
  C18.pcgrad    for EVERY combination of projection orders (torch.randperm substituted by an enumerator; also the
                orders really drawn, recorded through a wrapper), A(J) = sum_i g_i^PC with g_i^PC obtained by projecting
                g_i successively off every g_j whose inner product with the CURRENT vector is negative; the plain sum
                when no rows conflict; randperm is consulted exactly once per row and returns a permutation.
  C18.graddrop  out_c = sum_i (leak_i + (1 - leak_i) M_ic) J_ic with M_ic = [f(P_c) > U_c][J_ic > 0] + [f(P_c) < U_c][J_ic < 0],
                P_c = (1 + sum_i J_ic / sum_i |J_ic|) / 2, U the uniform draw (reproduced from the seed, or substituted);
                leak = None means no leak.
"""
from __future__ import annotations

import itertools
import math
import random
from unittest import mock

import numpy as np
import torch

from tjv.rt.aggs import gen_matrix
from ._aggb import dt, eps_of, fail, np64, ok

RULE = ("matrix families of tjv.rt.aggs.gen_matrix (gauss, lowrank, antiparallel, duprows, zerorow, zero, rowscales, "
        "stationary, nonconflict, wellcond) in float64/float32 at scales 1e-3..1e3 (CAGrad also 1e6 and tiny scale with "
        "tiny norm_eps); PCGrad: projection orders are part of the case (one order of the other rows per row, the row's "
        "own index inserted at a varying position); GradDrop: seed or substituted U, leak in {None, zeros, ones, ends, "
        "random in [0,1]}, f in {identity, square}. distinct = (clause, matrix spec, parameters, orders/seed). "
        "non-trivial: mgda m>=2 non-zero; random m>=2; cagrad conclusive distance check with c>0 or mean check with c=0; "
        "pcgrad at least one projection performed; graddrop a column with both "
        "signs and no column with |f(P)-U| within rounding")
BOUNDS = "m <= 6 rows (Random <= 12), n <= 8 columns; PCGrad exhaustive orders m <= 4, sampled orders m in 5..6"
EXHAUSTIVE = ("thorough: all (m-1)!^m combinations of projection orders for m = 2, 3 (1 resp. 8) on 12 matrices each and "
              "m = 4 (1296) on 5 matrices; CAGrad c in {0, 0.25, 0.5, 1, 2}")


def _sig(case):
    return "|".join(f"{k}={case[k]}" for k in sorted(case))


def _mspec(rng, m, n, kinds, dtypes=("float64", "float64", "float32"), scales=(1e-3, 1.0, 1.0, 1e3)):
    kind = rng.choice(kinds)
    spec = {"kind": kind, "m": m, "n": n, "seed": rng.randrange(10**9), "scale": rng.choice(scales),
            "dtype": rng.choice(dtypes)}
    if kind == "lowrank":
        spec["rank"] = rng.randint(1, max(1, min(m, n) - 1))
    if kind == "rowscales":
        spec["decades"] = rng.choice([2, 6])
    if kind == "wellcond":
        spec["n"] = max(n, m)
        spec["cond"] = rng.choice([10.0, 1e3])
    return spec


# ================================================================================================ MGDA


def _mgda(case, sig):
    from torchjd.aggregation import MGDA

    J = gen_matrix(case["matrix"])
    m, n = J.shape
    eps = eps_of(J)
    agg = MGDA(epsilon=case.get("epsilon", 0.001), max_iters=case.get("max_iters", 100))
    w = np64(agg.weighting(J))
    out = np64(agg(J))
    Jn = np64(J)
    nontrivial = m >= 2 and bool(np.any(Jn != 0))
    iters = case.get("max_iters", 100)
    if w.shape != (m,) or np.any(w < -4 * eps * iters) or abs(w.sum() - 1.0) > 8 * eps * (iters + m):
        return fail(sig, nontrivial, "C18.mgda", "weights are not on the simplex", w, "w >= 0, sum w = 1", J=Jn)
    G = Jn @ Jn.T
    maxG = float(np.max(np.diag(G))) if m else 0.0
    # out = w @ J up to rounding of the product (span; also asserted by C08)
    tol_vec = 8 * m * eps * np.abs(Jn).max(axis=0) + 1e-300
    if not np.all(np.abs(out - w @ Jn) <= tol_vec):
        return fail(sig, nontrivial, "C18.mgda", "output is not weights @ J", out, w @ Jn, J=Jn)
    mean = Jn.mean(axis=0)
    slack_sq = 16 * (n + 2 * m) * eps * maxG + 1e-300
    if float(out @ out) > float(mean @ mean) + slack_sq:
        return fail(sig, nontrivial, "C18.mgda", "|A(J)| exceeds the norm of the mean row",
                    math.sqrt(float(out @ out)), math.sqrt(float(mean @ mean)), J=Jn, weights=w)
    if m == 2:
        g1, g2 = Jn[0], Jn[1]
        d = g1 - g2
        dd = float(d @ d)
        if dd == 0.0:
            xstar = g1
        else:
            gam = min(1.0, max(0.0, float(g2 @ (g2 - g1)) / dd))  # weight of g1
            xstar = g2 + gam * d
        dist = float(np.linalg.norm(out - xstar))
        nd = math.sqrt(dd)
        tol = 16 * n * eps * math.sqrt(maxG) + (min(nd * (1 + 1e-6), 64 * (n + 4) * eps * maxG / nd) if nd > 0 else 0.0)
        if not (dist <= tol + 1e-300):  # (NaN-proof)
            return fail(sig, nontrivial, "C18.mgda", "two rows: output is not the minimum-norm point of the segment",
                        out, xstar, J=Jn, dist=dist, tol=tol)
    return ok(sig, nontrivial)


# ================================================================================================ Random


def _random(case, sig):
    from torchjd.aggregation import Random

    J = gen_matrix(case["matrix"])
    m, n = J.shape
    eps = eps_of(J)
    agg = Random()
    torch.manual_seed(case["rseed"])
    w = np64(agg.weighting(J))
    torch.manual_seed(case["rseed"])
    out = np64(agg(J))
    Jn = np64(J)
    nontrivial = m >= 2
    if w.shape != (m,) or not np.all(w > 0) or abs(w.sum() - 1.0) > 8 * eps * m:
        return fail(sig, nontrivial, "C18.random", "weights are not strictly positive with sum 1", w, "w > 0, sum w = 1")
    tol = 8 * m * eps * np.abs(Jn).max(axis=0) + 1e-300
    if not np.all(np.abs(out - w @ Jn) <= tol):
        return fail(sig, nontrivial, "C18.random", "output is not the drawn weights @ J (same seed)", out, w @ Jn, J=Jn)
    return ok(sig, nontrivial)


# ================================================================================================ CAGrad


def min_norm_hull(Jn: np.ndarray) -> float:
    """Brute force: norm of the minimum-norm point of the convex hull of the rows (all faces, KKT on each)."""
    m = Jn.shape[0]
    G = Jn @ Jn.T
    best = min(math.sqrt(max(G[i, i], 0.0)) for i in range(m))
    for r in range(2, m + 1):
        for S in itertools.combinations(range(m), r):
            GS = G[np.ix_(S, S)]
            K = np.zeros((r + 1, r + 1))
            K[:r, :r] = 2 * GS
            K[:r, r] = 1.0
            K[r, :r] = 1.0
            rhs = np.zeros(r + 1)
            rhs[r] = 1.0
            sol = np.linalg.lstsq(K, rhs, rcond=None)[0]
            wS = sol[:r]
            if np.all(wS >= -1e-12) and abs(wS.sum() - 1) < 1e-9:
                v = wS @ Jn[list(S)]
                best = min(best, float(np.linalg.norm(v)))
    return best


def _cagrad(case, sig):
    from torchjd.aggregation import CAGrad

    J = gen_matrix(case["matrix"])
    m, n = J.shape
    eps = eps_of(J)
    c, norm_eps = case["c"], case.get("norm_eps", 1e-4)
    agg = CAGrad(c=c, norm_eps=norm_eps)
    weights = np64(agg.weighting(J))
    out = np64(agg(J))
    Jn = np64(J)
    g0 = Jn.mean(axis=0)
    sigma = float(np.linalg.svd(Jn, compute_uv=False)[0]) if m and n else 0.0
    if sigma < 10 * norm_eps:  # excluded by the property (sigma_max < norm_eps regime)
        return ok(sig, False, "sigma_max not clearly above norm_eps: excluded")
    E = 32 * (m + n) * eps  # accuracy of R R^T vs J J^T / sigma^2 in the dtype of the matrix
    rounding = 16 * m * eps * float(np.abs(Jn).max()) * max(1.0, float(np.abs(weights).sum()))
    if not np.any(out != 0) and not np.any(weights != 0):
        mn = min_norm_hull(Jn) / sigma
        thr = math.sqrt(norm_eps**2 + E) + 1e-7
        if mn > thr:
            return fail(sig, True, "C18.cagrad", "zero vector returned although the matrix is not Pareto-stationary",
                        {"min_norm_hull/sigma": mn}, {"below": thr}, J=Jn)
        return ok(sig, False, "stationary: zero vector")
    n0 = float(np.linalg.norm(g0))
    dist = float(np.linalg.norm(out - g0))
    if c == 0:
        if dist > rounding + 1e-300:
            return fail(sig, m >= 2, "C18.cagrad", "c = 0: output is not the mean row", out, g0, J=Jn)
        return ok(sig, m >= 2)
    lam = float(weights.sum() - 1.0)  # = sqrt_phi / |g_w'| since sum(w) = 1
    g0t = n0 / sigma
    if lam <= 0 or g0t == 0:
        # mean row is zero: radius 0, output must be the mean row itself
        if abs(dist - c * n0) > rounding + c * sigma * math.sqrt(E):
            return fail(sig, False, "C18.cagrad", "distance to the mean row differs from c|g0|", dist, c * n0, J=Jn)
        return ok(sig, False, "zero radius")
    gwt = dist / (sigma * lam)  # |J^T w| / sigma for the w actually used
    r0, rw = E / g0t**2, E / gwt**2
    if r0 > 0.25 or rw > 0.25:
        return ok(sig, False, "distance identity ill-conditioned in this dtype (|g0'| or |g_w'| within Gramian rounding)")
    rel = 2 * (r0 + rw) + rounding / (c * n0)
    if abs(dist / (c * n0) - 1.0) > rel:
        return fail(sig, True, "C18.cagrad", "|A(J) - g0| differs from c|g0|", dist, c * n0, J=Jn, rel_tol=rel,
                    weights=weights)
    return ok(sig, m >= 2)


# ================================================================================================ PCGrad


def pcgrad_reference(Jn: np.ndarray, orders):
    """Vector-space reference.  orders[i] = order in which the rows are visited for row i (i itself is skipped).
    g -> g - min(0, g.g_j)/|g_j|^2 g_j is the projection onto a half-space: continuous and non-expansive in g, so a
    sign test within rounding of zero changes the result only by a rounding-size amount (no exclusion needed).
    Returns (sum of projected rows, #projections)."""
    m, n = Jn.shape
    total = np.zeros(n)
    nproj = 0
    for i in range(m):
        g = Jn[i].copy()
        for j in orders[i]:
            if j == i:
                continue
            ip = float(g @ Jn[j])
            if ip < 0:
                g = g - (ip / float(Jn[j] @ Jn[j])) * Jn[j]
                nproj += 1
        total += g
    return total, nproj


def _orders_from_combo(m, combo_index):
    """combo_index in [0, (m-1)!^m): one permutation of the other rows per row; the row's own index is inserted at a
    position that varies with the combination."""
    base = math.factorial(m - 1)
    orders = []
    x = combo_index
    for i in range(m):
        k = x % base
        x //= base
        others = [j for j in range(m) if j != i]
        perm = list(list(itertools.permutations(others))[k])
        pos = (combo_index + i) % m
        perm.insert(pos, i)
        orders.append(perm)
    return orders


def _pcgrad(case, sig):
    from torchjd.aggregation import PCGrad

    J = gen_matrix(case["matrix"])
    m, n = J.shape
    eps = eps_of(J)
    Jn = np64(J)
    agg = PCGrad()
    calls = []
    if case["mode"] == "recorded":
        real = torch.randperm

        def side(*a, **k):
            p = real(*a, **k)
            calls.append((a, [int(v) for v in p]))
            return p

        torch.manual_seed(case["rseed"])
    else:
        orders_in = _orders_from_combo(m, case["combo"]) if "combo" in case else case["orders"]

        def side(*a, **k):
            i = len(calls)
            calls.append((a, list(orders_in[i])))
            return torch.tensor(orders_in[i])

    with mock.patch("torch.randperm", side_effect=side):
        out = np64(agg(J))
    if len(calls) != m or any(sorted(p) != list(range(m)) for _, p in calls):
        return fail(sig, True, "C18.pcgrad", "randperm is not consulted exactly once per row for a permutation of the rows",
                    [p for _, p in calls], f"{m} permutations of range({m})")
    orders = [p for _, p in calls]
    exp, nproj = pcgrad_reference(Jn, orders)
    nontrivial = nproj >= 1
    scale = float(np.linalg.norm(Jn, axis=1).sum())
    tol = 256 * m * (n + m) * eps * scale + 1e-300
    if not (float(np.linalg.norm(out - exp)) <= tol):  # (NaN-proof)
        what = ("output differs from the sum of the rows (no conflicting pair)" if nproj == 0 else
                "output differs from the sum of the successively projected rows for these projection orders")
        return fail(sig, nontrivial, "C18.pcgrad", what, out, exp, J=Jn, orders=orders)
    return ok(sig, nontrivial)


# ================================================================================================ GradDrop

F_FUNS = {"identity": None, "square": lambda P: P * P}


def _leak(kind, m, dtype, seed):
    if kind is None:
        return None
    if kind == "zeros":
        v = [0.0] * m
    elif kind == "ones":
        v = [1.0] * m
    elif kind == "ends":
        v = [float((i + seed) % 2) for i in range(m)]
    elif kind == "rand":
        r = random.Random(seed)
        v = [r.uniform(0, 1) for _ in range(m)]
    elif kind == "mixed":
        r = random.Random(seed)
        v = [r.choice([0.0, 1.0, r.uniform(0, 1), 0.5]) for _ in range(m)]
    else:
        raise KeyError(kind)
    return torch.tensor(v, dtype=torch.float64).to(dtype)


def _graddrop(case, sig):
    from torchjd.aggregation import GradDrop

    J = gen_matrix(case["matrix"])
    m, n = J.shape
    eps = eps_of(J)
    dtype = J.dtype
    leak = _leak(case.get("leak"), m, dtype, case.get("lseed", 0))
    f = F_FUNS[case.get("f", "identity")]
    agg = GradDrop(leak=leak) if f is None else GradDrop(f=f, leak=leak)
    Jn = np64(J)
    if case["mode"] == "seed":
        torch.manual_seed(case["rseed"])
        U = torch.rand((n,), dtype=dtype)
        torch.manual_seed(case["rseed"])
        out = np64(agg(J))
    else:
        r = random.Random(case["rseed"])
        U = torch.tensor([r.choice([0.0, r.random(), r.random(), 0.999999]) for _ in range(n)], dtype=torch.float64).to(dtype)
        ncalls = []

        def side(*a, **k):
            ncalls.append((a, k))
            return U.clone()

        with mock.patch("torch.rand", side_effect=side):
            out = np64(agg(J))
        if len(ncalls) != 1:
            return fail(sig, True, "C18.graddrop", "torch.rand is not drawn exactly once (one uniform per column)",
                        len(ncalls), 1)
    Un = np64(U)
    lk = np.zeros(m) if leak is None else np64(leak)
    exp = np.zeros(n)
    ambiguous, mixed = False, False
    for c in range(n):
        col = Jn[:, c]
        sa = float(np.abs(col).sum())
        if sa == 0.0:
            continue
        P = 0.5 * (1.0 + float(col.sum()) / sa)
        fP = P if f is None else P * P
        if abs(fP - Un[c]) <= 16 * m * eps:
            ambiguous = True
        if np.any(col > 0) and np.any(col < 0):
            mixed = True
        for i in range(m):
            M = (1.0 if (fP > Un[c] and col[i] > 0) else 0.0) + (1.0 if (fP < Un[c] and col[i] < 0) else 0.0)
            exp[c] += (lk[i] + (1.0 - lk[i]) * M) * col[i]
    nontrivial = mixed and not ambiguous
    if ambiguous:
        return ok(sig, False, "f(P) within rounding of U in some column: not asserted")
    tol = 8 * (m + 2) * eps * np.abs(Jn).sum(axis=0) + 1e-300
    if out.shape != exp.shape or not np.all(np.abs(out - exp) <= tol):
        return fail(sig, nontrivial, "C18.graddrop", "a coordinate is not (sum of the kept-sign entries) + (leaked share "
                    "of the others)", out, exp, J=Jn, U=Un, leak=lk)
    return ok(sig, nontrivial)


# ================================================================================================ cases

MGDA_KINDS = ["gauss", "gauss", "lowrank", "antiparallel", "duprows", "zerorow", "zero", "rowscales", "stationary",
              "nonconflict", "wellcond"]
PC_KINDS = ["gauss", "gauss", "gauss", "antiparallel", "lowrank", "rowscales", "stationary", "duprows", "zerorow"]


def cases(tier, seed, focus=None):
    rng = random.Random(1800 + seed)
    thorough = tier != "quick"
    out = []
    # ---- MGDA
    for _ in range(600 if thorough else 50):
        m = rng.choice([1, 2, 2, 2, 3, 4, 5, 6])
        out.append({"clause": "mgda", "matrix": _mspec(rng, m, rng.randint(1, 8), MGDA_KINDS)})
    for _ in range(100 if thorough else 10):  # other solver parameters
        out.append({"clause": "mgda", "matrix": _mspec(rng, rng.choice([2, 3, 5]), rng.randint(1, 8), MGDA_KINDS),
                    "epsilon": rng.choice([0.0, 1e-6, 0.1]), "max_iters": rng.choice([1, 3, 500])})
    for _ in range(150 if thorough else 15):  # two rows, a single Frank-Wolfe step must already be exact
        out.append({"clause": "mgda", "matrix": _mspec(rng, 2, rng.randint(2, 6), ["gauss", "rowscales", "antiparallel"]),
                    "epsilon": 0.001, "max_iters": 1})
    # ---- Random
    for _ in range(200 if thorough else 20):
        out.append({"clause": "random", "matrix": _mspec(rng, rng.randint(1, 12), rng.randint(1, 8), ["gauss", "zero", "rowscales"]),
                    "rseed": rng.randrange(10**6)})
    # ---- CAGrad
    cs = [0.0, 0.25, 0.5, 1.0, 2.0]
    for i in range(400 if thorough else 40):
        m = rng.choice([1, 2, 2, 3, 4, 5, 6])
        spec = _mspec(rng, m, rng.randint(1, 8), ["gauss", "gauss", "antiparallel", "lowrank", "nonconflict", "stationary",
                                                  "zerorow", "duprows", "wellcond", "rowscales"],
                      scales=(1.0, 1.0, 1e3, 1e6, 1e-1))
        case = {"clause": "cagrad", "matrix": spec, "c": cs[i % len(cs)]}
        if i % 9 == 8:  # tiny scale with a tiny norm_eps (the absolute threshold must not bite)
            spec["scale"], spec["dtype"] = 1e-6, "float64"
            case["norm_eps"] = 1e-10
        out.append(case)
    # ---- PCGrad: exhaustive orders
    def pc_matrices(m, count):
        res = []
        for q in range(count):
            kind = PC_KINDS[q % len(PC_KINDS)]
            r2 = random.Random(seed * 1000 + m * 100 + q)
            s = _mspec(r2, m, r2.randint(2, 6), [kind])
            res.append(s)
        return res

    for m, count in ((2, 12 if thorough else 4), (3, 12 if thorough else 5)):
        for spec in pc_matrices(m, count):
            for combo in range(math.factorial(m - 1) ** m):
                out.append({"clause": "pcgrad", "mode": "enum", "matrix": spec, "combo": combo})
    for spec in pc_matrices(4, 5 if thorough else 2):
        total = math.factorial(3) ** 4
        combos = range(total) if thorough else rng.sample(range(total), 30)
        for combo in combos:
            out.append({"clause": "pcgrad", "mode": "enum", "matrix": spec, "combo": combo})
    for _ in range(300 if thorough else 20):  # m = 5, 6: sampled orders
        m = rng.choice([5, 6])
        orders = [rng.sample(range(m), m) for _ in range(m)]
        out.append({"clause": "pcgrad", "mode": "given", "matrix": _mspec(rng, m, rng.randint(2, 8), PC_KINDS),
                    "orders": orders})
    for _ in range(200 if thorough else 20):  # the orders PCGrad really draws
        m = rng.randint(1, 6)
        out.append({"clause": "pcgrad", "mode": "recorded", "rseed": rng.randrange(10**6),
                    "matrix": _mspec(rng, m, rng.randint(1, 8), PC_KINDS + ["nonconflict", "nonconflict", "zero"])})
    rl = random.Random(18018000 + seed)
    for _ in range(4 if thorough else 1):  # HUNDREDS of rows (python caches small ints only: identity tests on indices, ...)
        out.append({"clause": "pcgrad", "mode": "recorded", "rseed": rl.randrange(10**6),
                    "matrix": {"kind": "gauss", "m": rl.choice([270, 300]), "n": 16, "seed": rl.randrange(10**9), "scale": 1.0,
                               "dtype": "float64"}})
    for _ in range(60 if thorough else 6):  # no conflict => plain sum, any order
        m = rng.randint(2, 5)
        out.append({"clause": "pcgrad", "mode": "given", "matrix": _mspec(rng, m, rng.randint(1, 8), ["nonconflict"]),
                    "orders": [rng.sample(range(m), m) for _ in range(m)]})
    # ---- GradDrop
    leaks = [None, "zeros", "ones", "ends", "rand", "rand", "mixed"]
    for i in range(900 if thorough else 70):
        m = rng.randint(1, 6)
        out.append({"clause": "graddrop", "mode": rng.choice(["seed", "seed", "subst"]), "rseed": rng.randrange(10**6),
                    "matrix": _mspec(rng, m, rng.randint(1, 8), ["gauss", "gauss", "zerorow", "rowscales", "nonconflict",
                                                                 "zero", "antiparallel", "lowrank"]),
                    "leak": leaks[i % len(leaks)], "lseed": rng.randrange(10**6), "f": rng.choice(["identity", "identity", "square"])})
    return out


def run_case(case):
    sig = _sig(case)
    cl = case["clause"]
    return {"mgda": _mgda, "random": _random, "cagrad": _cagrad, "pcgrad": _pcgrad, "graddrop": _graddrop}[cl](case, sig)
