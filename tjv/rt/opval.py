"""[V] real-library side of the validation of the ALGEBRAIC primitive contracts (runs under /venv/bin/python).

stdin: JSON list of cases {"tensors": {name: nested list}, "expr": python expression over torch, np, F and the tensor names};
stdout: JSON list of {"shape": [...], "flat": [...]} (bool / integer results are converted to float) or {"error": type}.
The expressions come from tjv/pyvc/validate_ops.py (a fixed table in /verif, not from /repo)."""
import json
import sys

import numpy as np
import torch
import torch.nn.functional as F


def main():
    cases = json.load(sys.stdin)
    out = []
    for c in cases:
        env = {"torch": torch, "np": np, "F": F}
        for k, v in c["tensors"].items():
            env[k] = torch.tensor(v, dtype=torch.float64)
        try:
            r = eval(c["expr"], env)  # noqa: S307 (fixed table of expressions)
            if isinstance(r, (bool, int, float)):
                r = torch.tensor(float(r))
            if isinstance(r, np.ndarray):
                r = torch.from_numpy(np.asarray(r))
            r = r.detach().to(torch.float64)
            out.append({"shape": list(r.shape), "flat": r.reshape(-1).tolist()})
        except Exception as e:  # noqa: BLE001
            out.append({"error": f"{type(e).__name__}: {str(e)[:120]}"})
    json.dump(out, sys.stdout)


if __name__ == "__main__":
    main()
