"""Random autograd-program generator (twin graphs from one seed) and reference oracles.

A program is a small DAG of differentiable torch ops over leaves.  ``build(spec)`` is deterministic
in ``spec`` so calling it twice yields two *identical but independent* graphs (the "twin"), one for
torchjd, one for the torch.autograd oracle.
"""
from __future__ import annotations

import math
import random
from dataclasses import dataclass, field

import torch

SHAPES = [(), (1,), (2,), (3,), (1, 1), (2, 1), (1, 3), (2, 2), (2, 3), (1, 2, 1), (2, 1, 2), (1, 1, 2, 1)]


@dataclass
class Program:
    leaves: list  # all leaf tensors (some do not require grad)
    grad_leaves: list  # leaves with requires_grad=True
    nodes: list  # non-leaf tensors, in creation order
    outputs: list  # chosen output tensors (non-leaf, require grad)
    desc: list = field(default_factory=list)  # textual op trace (for samples / distinctness)

    def all_tensors(self):
        return list(self.leaves) + list(self.nodes)


def _rand_tensor(rng: random.Random, shape, dtype):
    n = 1
    for s in shape:
        n *= s
    vals = [rng.uniform(-1.5, 1.5) for _ in range(n)]
    return torch.tensor(vals, dtype=dtype).reshape(shape)


LAYOUTS = ["P", "S", "E"]


def relayout(t: torch.Tensor, lrng: random.Random, p: float = 0.45):
    """Memory layouts of leaves.  Returns (tensor, tag): with probability 1 - p the tensor itself (tag ''), else a
    tensor of the same shape / dtype that is NOT stored in contiguous row-major order:
      'P'  permuted storage (x.permute(reversed dims).contiguous().permute(back): column-major, same logical values),
      'S'  strided view with a storage offset into a larger buffer (every other element along the last dimension of
           size >= 2: non-dense, same logical values),
      'E'  expanded view (stride 0 along the first dimension of size >= 2: the logical values of that dimension are
           those of its first index).
    Called on tensors that do not require grad yet (the caller then makes them leaves).  ``lrng`` is a stream of its
    own (exactly three draws per call), so that the structure of the generated program does not depend on layouts;
    deterministic in the stream, so twin programs get the same layouts.  Tensors with < 2 elements are returned
    unchanged (every layout of them is contiguous)."""
    r, kind, off = lrng.random(), lrng.choice(["P", "P", "S", "S", "E"]), lrng.randrange(2)
    big = [d for d in range(t.dim()) if t.shape[d] >= 2]
    if r >= p or not big:
        return t, ""
    if kind == "P" and len(big) < 2:
        kind = "S"
    if kind == "P":
        perm = list(range(t.dim()))[::-1]
        u = t.permute(perm).contiguous().permute(perm)  # the reversal is its own inverse
    elif kind == "S":
        d = big[-1]
        shape = list(t.shape)
        shape[d] = 2 * shape[d] + 1
        buf = torch.zeros(shape, dtype=t.dtype)
        u = buf.narrow(d, off, shape[d] - 1).unflatten(d, (t.shape[d], 2)).select(d + 1, 0)
        u.copy_(t)
    else:
        d = big[0]
        u = t.narrow(d, 0, 1).clone().expand(t.shape)
    assert u.shape == t.shape and not u.requires_grad and u.grad_fn is None
    return u, "/" + kind


def _layout_rng(spec: dict):
    """Stream of the layout decisions of a program, or None when spec['layouts'] == 'contiguous'."""
    if spec.get("layouts", "mixed") == "contiguous":
        return None
    return random.Random((spec["seed"] * 2654435761 + 40503) % (2**61 - 1))


def build(spec: dict) -> Program:
    """spec: {seed, n_leaves, n_ops, n_outputs, dtype:'float32'|'float64', multi_output:bool, layouts: 'mixed'
    (default: about 45% of the leaves with >= 2 elements are permuted / strided / expanded views, see ``relayout``)
    | 'contiguous'}"""
    rng = random.Random(spec["seed"])
    lrng = _layout_rng(spec)
    dtype = torch.float64 if spec.get("dtype", "float64") == "float64" else torch.float32
    n_leaves = spec.get("n_leaves", 3)
    n_ops = spec.get("n_ops", 6)
    n_outputs = spec.get("n_outputs", 2)
    allow_multi = spec.get("multi_output", True)

    leaves, grad_leaves, desc = [], [], []
    for i in range(n_leaves):
        shape = rng.choice(SHAPES)
        t = _rand_tensor(rng, shape, dtype)
        t, tag = relayout(t, lrng) if lrng is not None else (t, "")
        # about one leaf in five does not require grad; the first always does
        rg = True if i == 0 else (rng.random() > 0.2)
        t.requires_grad_(rg)
        leaves.append(t)
        if rg:
            grad_leaves.append(t)
        desc.append(f"L{i}{tuple(shape)}{'g' if rg else 'n'}{tag}")

    pool = list(leaves)  # tensors usable as operands
    nodes = []

    def pick():
        # bias towards recent tensors to get depth, but allow reuse of anything (diamonds)
        if rng.random() < 0.5 and nodes:
            return rng.choice(nodes[-3:])
        return rng.choice(pool)

    def add(t, d):
        pool.append(t)
        if t.requires_grad and t.grad_fn is not None:
            nodes.append(t)
        desc.append(d)

    for k in range(n_ops):
        op = rng.choice(
            ["sin", "tanh", "scale", "square", "addsame", "mulsame", "sum", "sumdim", "mulscalar",
             "reshape", "stack", "unbind", "index", "expand", "matmul", "detach_mix", "outer"]
        )
        a = pick()
        try:
            if op == "sin":
                add(torch.sin(a), f"sin({id_of(pool, a)})")
            elif op == "tanh":
                add(torch.tanh(a), f"tanh({id_of(pool, a)})")
            elif op == "scale":
                c = rng.choice([-2.0, 0.5, 3.0])
                add(a * c, f"{c}*({id_of(pool, a)})")
            elif op == "square":
                add(a * a, f"sq({id_of(pool, a)})")
            elif op in ("addsame", "mulsame"):
                cands = [t for t in pool if t.shape == a.shape]
                b = rng.choice(cands)
                r = a + b if op == "addsame" else a * b
                add(r, f"{op}({id_of(pool, a)},{id_of(pool, b)})")
            elif op == "sum":
                add(a.sum(), f"sum({id_of(pool, a)})")
            elif op == "sumdim":
                if a.dim() >= 1:
                    d = rng.randrange(a.dim())
                    add(a.sum(dim=d), f"sum{d}({id_of(pool, a)})")
            elif op == "mulscalar":
                sc = [t for t in pool if t.dim() == 0]
                if sc:
                    b = rng.choice(sc)
                    add(a * b, f"mulsc({id_of(pool, a)},{id_of(pool, b)})")
            elif op == "reshape":
                if a.numel() >= 1:
                    add(a.reshape(-1), f"flat({id_of(pool, a)})")
            elif op == "stack":
                cands = [t for t in pool if t.shape == a.shape]
                b = rng.choice(cands)
                add(torch.stack([a, b]), f"stack({id_of(pool, a)},{id_of(pool, b)})")
            elif op == "unbind":
                if allow_multi and a.dim() >= 1 and a.shape[0] >= 2:
                    parts = a.unbind(0)
                    for j, p in enumerate(parts):
                        add(p, f"unbind{j}({id_of(pool, a)})")
            elif op == "index":
                if a.dim() >= 1 and a.shape[0] >= 1:
                    j = rng.randrange(a.shape[0])
                    add(a[j], f"idx{j}({id_of(pool, a)})")
            elif op == "expand":
                if a.dim() == 0:
                    add(a.expand(2, 2) * 1.0, f"expand({id_of(pool, a)})")
            elif op == "matmul":
                cands = [t for t in pool if t.dim() == 1 and a.dim() == 1 and t.shape == a.shape]
                if cands:
                    b = rng.choice(cands)
                    add(a @ b, f"dot({id_of(pool, a)},{id_of(pool, b)})")
            elif op == "detach_mix":
                add(a * a.detach(), f"dmix({id_of(pool, a)})")
            elif op == "outer":
                if a.dim() == 1:
                    cands = [t for t in pool if t.dim() == 1]
                    b = rng.choice(cands)
                    add(torch.outer(a, b), f"outer({id_of(pool, a)},{id_of(pool, b)})")
        except RuntimeError:
            pass

    if not nodes:
        # guarantee at least one differentiable node
        a = grad_leaves[0]
        add(torch.sin(a) * 2.0, "sin2(L0)")
    # make sure there are enough distinct non-leaf nodes to choose outputs from
    while len(nodes) < n_outputs:
        a = rng.choice(nodes + grad_leaves)
        add(torch.tanh(a) + 0.5, f"tanhp({id_of(pool, a)})")
    outs_idx = rng.sample(range(len(nodes)), n_outputs)
    outputs = [nodes[i] for i in outs_idx]
    desc.append("OUT:" + ",".join(str(i) for i in outs_idx))
    return Program(leaves, grad_leaves, nodes, outputs, desc)


def id_of(pool, t):
    for i, p in enumerate(pool):
        if p is t:
            return f"v{i}"
    return "?"


# ----------------------------------------------------------------------------- oracles


def ref_jacobian(outputs, inputs) -> torch.Tensor:
    """Reference Jacobian: rows = scalars of outputs (flattened, in order), columns = scalars of
    inputs (flattened, in order), one torch.autograd.grad call per row (independent of torchjd)."""
    rows = []
    for out in outputs:
        flat = out.reshape(-1)
        for r in range(flat.numel()):
            gs = torch.autograd.grad(flat[r], inputs, retain_graph=True, allow_unused=True)
            row = [
                (g if g is not None else torch.zeros_like(inp)).reshape(-1)
                for g, inp in zip(gs, inputs)
            ]
            rows.append(torch.cat(row) if row else torch.zeros(0, dtype=out.dtype))
    if not rows:
        n = sum(i.numel() for i in inputs)
        return torch.zeros(0, n, dtype=outputs[0].dtype if outputs else torch.float64)
    return torch.stack(rows)


def split_like(vector: torch.Tensor, inputs) -> list:
    """Independent layout: slice the aggregated vector per input in the order of ``inputs``."""
    res, start = [], 0
    for inp in inputs:
        n = inp.numel()
        res.append(vector[start:start + n].reshape(inp.shape))
        start += n
    assert start == vector.numel()
    return res


def tol(dtype) -> tuple[float, float]:
    return (1e-9, 1e-9) if dtype == torch.float64 else (2e-4, 2e-4)


def close(a: torch.Tensor, b: torch.Tensor, rtol: float, atol: float) -> bool:
    if a.shape != b.shape:
        return False
    return bool(torch.allclose(a, b, rtol=rtol, atol=atol, equal_nan=False))


# ----------------------------------------------------------------------------- MTL programs


@dataclass
class MTLProgram:
    shared: list  # shared leaf params (requires grad)
    features: list  # feature tensors (non-leaf)
    tasks_params: list  # list[list[leaf]]
    losses: list  # scalar losses
    other_leaves: list  # leaves that must stay untouched
    desc: list = field(default_factory=list)

    def all_leaves(self):
        seen, res = set(), []
        for t in self.shared + [p for tp in self.tasks_params for p in tp] + self.other_leaves:
            if id(t) not in seen:
                seen.add(id(t))
                res.append(t)
        return res


def build_mtl(spec: dict) -> MTLProgram:
    """spec: {seed, n_shared, n_features, n_tasks, dtype, overlap: bool, empty_task: bool, layouts (as in ``build``:
    shared and task-specific parameters that are permuted / strided / expanded views),
    feat_shapes: 'any' (features of any shape of SHAPES), trunk: 'dense' | 'sparse' (sparse: every feature depends
    on a random subset of the shared parameters, so some Jacobian blocks are zero / some shared parameters may be
    unreachable)}.  Heads share no graph node besides the features; features are the only path shared -> losses."""
    rng = random.Random(spec["seed"])
    lrng = _layout_rng(spec)
    dtype = torch.float64 if spec.get("dtype", "float64") == "float64" else torch.float32
    n_shared = spec.get("n_shared", 2)
    n_feat = spec.get("n_features", 1)
    n_tasks = spec.get("n_tasks", 2)
    desc = []
    shared = []
    for i in range(n_shared):
        sh = rng.choice(SHAPES)
        t, tag = _rand_tensor(rng, sh, dtype), ""
        if lrng is not None:
            t, tag = relayout(t, lrng)
        t.requires_grad_(True)
        shared.append(t)
        desc.append(f"S{i}{tuple(sh)}{tag}")
    const = _rand_tensor(rng, (3,), dtype)  # leaf not requiring grad
    unused = _rand_tensor(rng, (2,), dtype).requires_grad_(True)  # influences nothing
    # trunk: mix all shared params into a scalar "core" plus per-feature shapes
    core = sum((torch.sin(s).sum() * (i + 1.0)) for i, s in enumerate(shared)) + const.sum()
    features = []
    feat_shapes = SHAPES if spec.get("feat_shapes") == "any" else [(), (2,), (3,), (2, 2), (1, 3)]
    sparse = spec.get("trunk", "dense") == "sparse"  # each feature depends on a random subset of the shared params
    for k in range(n_feat):
        sh = rng.choice(feat_shapes)
        if sparse:
            sub = rng.sample(range(n_shared), rng.randint(1, n_shared))
            base = sum(torch.tanh(shared[j] * (0.5 + 0.25 * k)).sum() * (j + 1.0) for j in sub)
            base = base * base.detach().cos() + (shared[sub[0]] * shared[sub[0]]).sum() * 0.25
            desc.append(f"F{k}<-{sorted(sub)}")
        else:
            s = rng.choice(shared)
            base = torch.tanh(core * (0.3 + 0.2 * k)) + s.reshape(-1)[0] * (k + 1.0)
        f = base * (_rand_tensor(rng, sh, dtype) + 2.0) if sh != () else base * 1.5
        features.append(f)
        desc.append(f"F{k}{tuple(sh)}")
    # heads
    pool_params = []
    tasks_params, losses = [], []
    for i in range(n_tasks):
        own, tags = [], []
        n_own = rng.choice([0, 1, 1, 2]) if spec.get("empty_task", True) else rng.choice([1, 2])
        for j in range(n_own):
            sh = rng.choice([(), (2,), (1, 2)])
            p, tag = _rand_tensor(rng, sh, dtype), ""
            if lrng is not None:
                p, tag = relayout(p, lrng)
            p.requires_grad_(True)
            tags.append(tag)
            own.append(p)
            pool_params.append(p)
        if spec.get("overlap", True) and pool_params and rng.random() < 0.4:
            q = rng.choice(pool_params)
            if not any(q is o for o in own):
                own.append(q)
        loss = torch.zeros((), dtype=dtype)
        used_feats = rng.sample(range(n_feat), rng.randint(1, n_feat))
        for k in used_feats:
            loss = loss + (features[k] * (1.0 + 0.5 * i + 0.25 * k)).sin().sum()
        for j, p in enumerate(own):
            fk = features[rng.randrange(n_feat)]
            loss = loss + (p.sum() * (j + 1.0 + i)) * fk.sum() + (p * p).sum() * 0.5
        if spec.get("twin_bias") and rng.random() < 0.7:
            # two same-shaped parameters that enter through ONE addition: autograd hands the very same gradient tensor (dense, or an
            # expanded stride-0 one after sum()) to both of them
            sh = rng.choice([(2,), (3,), (2, 2)])
            b = _rand_tensor(rng, sh, dtype).requires_grad_(True)
            c = _rand_tensor(rng, sh, dtype).requires_grad_(True)
            own += [b, c]
            pool_params += [b, c]
            loss = loss + ((b + c).sum() if rng.random() < 0.5 else ((b + c) * (_rand_tensor(rng, sh, dtype) + 2.0)).sum())
            tags.append("/TWIN")
        losses.append(loss)
        tasks_params.append(own)
        desc.append(f"T{i}:{len(own)}p{''.join(tags)},f{used_feats}")
    return MTLProgram(shared, features, tasks_params, losses, [const, unused], desc)


def snapshot(tensors) -> list:
    """(data clone, grad clone or None, data_ptr, version) per tensor."""
    res = []
    for t in tensors:
        res.append(
            (
                t.detach().clone(),
                None if t.grad is None else t.grad.detach().clone(),
                t.data_ptr(),
                t._version,
            )
        )
    return res


# ----------------------------------------------------------------------------- general DAGs (C12)
# Self-contained builder (does not share the random stream of ``build``): diamonds, deep chains, detached
# sub-graphs, leaves not requiring grad, multi-output ops (unbind / split / chunk) whose sibling outputs stay usable.

DAG_SHAPES = [(), (2,), (3,), (2, 2), (2, 3), (4,), (3, 1)]
DAG_OPS = ["sin", "tanh", "scale", "square", "addsame", "mulsame", "sum", "sumdim", "mulscalar", "flat", "stack",
           "unbind", "split", "chunk", "index", "detach_mix", "detach_branch", "chain", "outer", "dot", "addsum"]


class _Dag:
    def __init__(self, rng: random.Random, dtype):
        self.rng, self.dtype = rng, dtype
        self.pool, self.nodes, self.leaves, self.desc = [], [], [], []
        self.multi = []  # groups (lists) of sibling outputs of one multi-output node

    def leaf(self, requires_grad: bool, tag: str, shape=None):
        shape = self.rng.choice(DAG_SHAPES) if shape is None else shape
        t = _rand_tensor(self.rng, shape, self.dtype)
        # several leaves may live in ONE flat buffer (parameters laid out in a single storage): they are distinct tensors all
        # the same.  The layout stream is separate: values, shapes and graph structure are those of the earlier versions.
        lay = getattr(self, "_layout_rng", None)
        if lay is None:
            lay = self._layout_rng = random.Random(self.rng.getstate()[1][0] ^ 0x51ED)
            self._flat, self._used = torch.zeros(256, dtype=self.dtype), 0
        n = t.numel()
        tagx = ""
        if lay.random() < 0.4 and n >= 1 and self._used + n <= self._flat.numel():
            # written through .data: the (shared) version counter of the buffer is not bumped, so leaves created earlier and
            # already used by the graph stay valid (the region written is disjoint from theirs)
            self._flat.data[self._used:self._used + n].copy_(t.reshape(-1))
            view = self._flat[self._used:self._used + n].view(tuple(shape))
            self._used += n
            t, tagx = view, "/B"
        t = t.requires_grad_(requires_grad)
        self.leaves.append(t)
        self.pool.append(t)
        self.desc.append(f"{tag}{len(self.leaves) - 1}{tuple(shape)}{'g' if requires_grad else 'n'}{tagx}")
        return t

    def name(self, t):
        return id_of(self.pool, t)

    def add(self, t, d):
        self.pool.append(t)
        if t.requires_grad and t.grad_fn is not None:
            self.nodes.append(t)
        self.desc.append(d)
        return t

    def step(self, pick):
        """Apply one random op; ``pick()`` chooses an operand.  Returns the list of tensors added."""
        rng = self.rng
        op = rng.choice(DAG_OPS)
        a = pick()
        n0 = len(self.pool)
        nm = self.name
        try:
            if op == "sin":
                self.add(torch.sin(a), f"sin({nm(a)})")
            elif op == "tanh":
                self.add(torch.tanh(a), f"tanh({nm(a)})")
            elif op == "scale":
                c = rng.choice([-2.0, 0.5, 3.0])
                self.add(a * c, f"{c}*({nm(a)})")
            elif op == "square":
                self.add(a * a, f"sq({nm(a)})")
            elif op in ("addsame", "mulsame"):
                b = rng.choice([t for t in self.pool if t.shape == a.shape])
                self.add(a + b if op == "addsame" else a * b, f"{op}({nm(a)},{nm(b)})")
            elif op == "sum":
                self.add(a.sum(), f"sum({nm(a)})")
            elif op == "sumdim":
                if a.dim() >= 1:
                    d = rng.randrange(a.dim())
                    self.add(a.sum(dim=d), f"sum{d}({nm(a)})")
            elif op == "mulscalar":
                sc = [t for t in self.pool if t.dim() == 0]
                if sc:
                    b = rng.choice(sc)
                    self.add(a * b, f"mulsc({nm(a)},{nm(b)})")
            elif op == "flat":
                self.add(a.reshape(-1), f"flat({nm(a)})")
            elif op == "stack":
                b = rng.choice([t for t in self.pool if t.shape == a.shape])
                self.add(torch.stack([a, b]), f"stack({nm(a)},{nm(b)})")
            elif op in ("unbind", "split", "chunk"):
                if a.dim() >= 1 and a.shape[0] >= 2:
                    parts = a.unbind(0) if op == "unbind" else (a.split(1, 0) if op == "split" else a.chunk(2, 0))
                    group = [self.add(p, f"{op}{j}({nm(a)})") for j, p in enumerate(parts)]
                    self.multi.append(group)
            elif op == "index":
                if a.dim() >= 1 and a.shape[0] >= 1:
                    j = rng.randrange(a.shape[0])
                    self.add(a[j], f"idx{j}({nm(a)})")
            elif op == "detach_mix":
                self.add(a * a.detach(), f"dmix({nm(a)})")
            elif op == "detach_branch":  # a detached sub-graph feeding back into the graph
                b = rng.choice([t for t in self.pool if t.shape == a.shape])
                self.add(torch.sin(a.detach() * 2.0) * b, f"dbranch({nm(a)},{nm(b)})")
            elif op == "chain":
                t = a
                for q in range(rng.randint(3, 6)):
                    t = torch.tanh(t) if q % 2 else t * 1.5 + 0.1
                self.add(t, f"chain({nm(a)})")
            elif op == "outer":
                if a.dim() == 1:
                    b = rng.choice([t for t in self.pool if t.dim() == 1])
                    self.add(torch.outer(a, b), f"outer({nm(a)},{nm(b)})")
            elif op == "dot":
                c = [t for t in self.pool if t.dim() == 1 and a.dim() == 1 and t.shape == a.shape]
                if c:
                    b = rng.choice(c)
                    self.add(a @ b, f"dot({nm(a)},{nm(b)})")
            elif op == "addsum":  # mixes tensors of any shapes: a + sum(b)
                b = rng.choice(self.pool)
                self.add(a + b.sum(), f"addsum({nm(a)},{nm(b)})")
        except RuntimeError:
            pass
        return self.pool[n0:]


def build_dag(spec: dict) -> Program:
    """spec: {seed, n_leaves, n_ops, n_outputs, dtype}.  Like ``build`` with more graph shapes (see above)."""
    rng = random.Random(spec["seed"])
    dtype = torch.float64 if spec.get("dtype", "float64") == "float64" else torch.float32
    g = _Dag(rng, dtype)
    for i in range(spec.get("n_leaves", 3)):
        g.leaf(True if i == 0 else rng.random() > 0.25, "L")

    def pick():
        if rng.random() < 0.55 and g.nodes:
            return rng.choice(g.nodes[-4:])
        return rng.choice(g.pool)

    for _ in range(spec.get("n_ops", 6)):
        g.step(pick)
    n_out = spec.get("n_outputs", 2)
    grad_leaves = [t for t in g.leaves if t.requires_grad]
    while len(g.nodes) < n_out:
        a = rng.choice(g.nodes + grad_leaves)
        g.add(torch.tanh(a) + 0.5, f"tanhp({g.name(a)})")
    idx = rng.sample(range(len(g.nodes)), n_out)
    g.desc.append("OUT:" + ",".join(map(str, idx)))
    return Program(g.leaves, grad_leaves, g.nodes, [g.nodes[i] for i in idx], g.desc)


@dataclass
class MTLDag:
    leaves: list  # every leaf tensor (some do not require grad)
    features: list  # non-leaf tensors with a grad_fn
    losses: list  # scalar tensors with a grad_fn
    desc: list = field(default_factory=list)


def build_mtl_dag(spec: dict) -> MTLDag:
    """spec: {seed, dtype, n_trunk_leaves, n_trunk_ops, n_features, n_head_leaves, n_head_ops, n_losses,
    p_around (probability that a head operand is taken from the trunk, i.e. reaches the shared leaves AROUND the
    features), multi (prefer outputs of multi-output ops as features)}."""
    rng = random.Random(spec["seed"])
    dtype = torch.float64 if spec.get("dtype", "float64") == "float64" else torch.float32
    g = _Dag(rng, dtype)
    for i in range(spec.get("n_trunk_leaves", 2)):
        g.leaf(True if i == 0 else rng.random() > 0.2, "S")

    def pick_trunk():
        if rng.random() < 0.5 and g.nodes:
            return rng.choice(g.nodes[-4:])
        return rng.choice(g.pool)

    for _ in range(spec.get("n_trunk_ops", 4)):
        g.step(pick_trunk)
    if spec.get("multi", False):  # make sure a multi-output op with a differentiable input exists
        cands = [t for t in g.pool if t.requires_grad and t.dim() >= 1 and t.shape[0] >= 2]
        if not cands:
            base = [t for t in g.leaves if t.requires_grad][0]
            cands = [g.add(torch.stack([base.sum(), (base * base).sum(), base.sum() * 0.5]), "stack3(S0)")]
        a = rng.choice(cands)
        kind = rng.choice(["unbind", "split", "chunk"])
        parts = a.unbind(0) if kind == "unbind" else (a.split(1, 0) if kind == "split" else a.chunk(2, 0))
        g.multi.append([g.add(p, f"{kind}{j}({g.name(a)})") for j, p in enumerate(parts)])
    if not g.nodes:
        base = [t for t in g.leaves if t.requires_grad][0]
        g.add(torch.sin(base) * 2.0, "sin2(S0)")
    n_feat = min(spec.get("n_features", 1), len(g.nodes))
    feats = []
    groups = [[t for t in grp if t.requires_grad and t.grad_fn is not None] for grp in g.multi]
    groups = [grp for grp in groups if len(grp) >= 2]
    if spec.get("multi", False) and groups:
        grp = rng.choice(groups)
        feats.append(grp[rng.randrange(len(grp) - 1)] if rng.random() < 0.7 else grp[-1])
    while len(feats) < n_feat:
        c = rng.choice(g.nodes)
        if not any(c is f for f in feats):
            feats.append(c)
    g.desc.append("FEAT:" + ",".join(g.name(f) for f in feats))
    trunk_pool = list(g.pool)
    siblings = [t for grp in groups for t in grp if not any(t is f for f in feats)]
    head_pool = list(feats)
    for i in range(spec.get("n_head_leaves", 2)):
        head_pool.append(g.leaf(rng.random() > 0.15, "T"))
    p_around = spec.get("p_around", 0.0)
    p_sib = spec.get("p_sibling", 0.0)

    def pick_head():
        r = rng.random()
        if r < p_sib and siblings:
            return rng.choice(siblings)
        if r < p_sib + p_around:
            return rng.choice(trunk_pool)
        return rng.choice(head_pool)

    head_nodes = []
    for _ in range(spec.get("n_head_ops", 4)):
        new = g.step(pick_head)
        for t in new:
            head_pool.append(t)
            if t.requires_grad and t.grad_fn is not None:
                head_nodes.append(t)
    losses = []
    for i in range(spec.get("n_losses", 2)):
        terms = rng.sample(head_nodes, min(len(head_nodes), rng.randint(1, 2))) if head_nodes else []
        if rng.random() < 0.5 or not terms:
            terms.append(rng.choice(feats))
        if p_sib > 0 and siblings and rng.random() < p_sib:
            terms.append(rng.choice(siblings))
        loss = sum((t * (1.0 + 0.5 * i + 0.25 * j)).sin().sum() for j, t in enumerate(terms))
        losses.append(loss)
        g.desc.append(f"LOSS{i}:" + ",".join(g.name(t) for t in terms))
    return MTLDag(g.leaves, feats, losses, g.desc)


def reachable_leaves(roots, excluded=()):
    """Independent oracle for default parameter discovery: depth-first walk over ``grad_fn.next_functions`` along
    (node, output_nr) EDGES; an edge equal to that of an excluded tensor is not crossed.  Returns the list of leaf
    tensors (variables of the AccumulateGrad nodes reached), without duplicates."""
    cut = {(t.grad_fn, t.output_nr) for t in excluded}
    seen_edges, found, order = set(), set(), []

    def walk(node, nr):
        if node is None or (node, nr) in cut or (node, nr) in seen_edges:
            return
        seen_edges.add((node, nr))
        if type(node).__name__ == "AccumulateGrad":
            if id(node.variable) not in found:
                found.add(id(node.variable))
                order.append(node.variable)
            return
        for child, child_nr in node.next_functions:
            walk(child, child_nr)

    for t in roots:
        walk(t.grad_fn, t.output_nr)
    return order
