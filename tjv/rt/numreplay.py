"""Real-code replay of a numeric counter-example of an algebraic obligation (runs under /venv/bin/python).

stdin: {"cls": dotted class, "kwargs": {...}, "input": nested list}   ->   stdout: {"out": nested list} | {"raise": type, "msg": ...}
Lists among the constructor arguments become float64 tensors; the input matrix is float64."""
import importlib
import json
import os
import sys


def main():
    root = os.environ.get("TJV_REPO", "/repo")
    sys.path.insert(0, os.path.join(root, "src"))
    import torch
    call = json.load(sys.stdin)
    mod, cls = call["cls"].rsplit(".", 1)
    C = getattr(importlib.import_module(mod), cls)
    kw = {k: (torch.tensor(v, dtype=torch.float64) if isinstance(v, list) else v) for k, v in call["kwargs"].items()}
    J = torch.tensor(call["input"], dtype=torch.float64)
    if J.dim() == 1 and len(call["input"]) == 0:
        J = J.reshape(0, 0)
    try:
        torch.manual_seed(0)
        agg = C(**kw)
        out = agg(J)
        res = {"out": out.detach().tolist(), "module_file": sys.modules[mod].__file__, "perturbed": []}
        # the same call on two inputs perturbed by a relative 1e-10: an output that jumps is ill-conditioned at this input
        g = torch.Generator().manual_seed(12345)
        for _ in range(2):
            Jp = J * (1.0 + 1e-10 * torch.randn(J.shape, generator=g, dtype=torch.float64))
            try:
                torch.manual_seed(0)
                res["perturbed"].append(C(**kw)(Jp).detach().tolist())
            except Exception as e:  # noqa: BLE001
                res["perturbed"].append({"raise": type(e).__name__})
        json.dump(res, sys.stdout)
    except Exception as e:  # noqa: BLE001
        json.dump({"raise": type(e).__name__, "msg": str(e)[:300]}, sys.stdout)


if __name__ == "__main__":
    main()
