"""[V] real-library side of the primitive-contract validation (runs under /venv/bin/python).

stdin: JSON list of cases {"op": name, "args": {...}}; stdout: JSON list of results — each the nested-list value of the
REAL torch operation (or {"error": type}).  The symbolic side (tjv/pyvc/validate.py) evaluates the layout-domain
contract of the same operation on the same concrete data and compares element by element."""
import json
import sys

import torch


def T(x):
    return torch.tensor(x, dtype=torch.float64)


def run(case):
    op, a = case["op"], case["args"]
    if op == "flatten":           # x.reshape([-1])
        return T(a["x"]).reshape([-1])
    if op == "matrixify":         # jac.view(jac.shape[0], -1)
        x = T(a["x"])
        return x.view(x.shape[0], -1)
    if op == "unmatrixify":       # m.view((m.shape[0],) + shape)   and   m[:, lo:hi].reshape((rows,) + shape)
        m = T(a["m"])
        return m.view((m.shape[0],) + tuple(a["shape"]))
    if op == "vector_to_shape":   # v.view(shape)
        return T(a["v"]).view(tuple(a["shape"]))
    if op == "cat0":
        return torch.cat([T(x) for x in a["xs"]])
    if op == "cat1":
        return torch.cat([T(x) for x in a["xs"]], dim=1)
    if op == "concatenate0":
        return torch.concatenate([T(x) for x in a["xs"]])
    if op == "diag":
        return T(a["v"]).diag()
    if op == "rowslice":
        return T(a["x"])[a["lo"]:a["hi"]]
    if op == "colslice":
        return T(a["x"])[:, a["lo"]:a["hi"]]
    if op == "index0":
        return T(a["x"])[a["i"]]
    if op == "stack0":
        return torch.stack([T(x) for x in a["xs"]], dim=0)
    if op == "vstack":
        return torch.vstack([T(x) for x in a["xs"]])
    if op == "squeeze0":
        return T(a["x"]).squeeze(0)
    if op == "unsqueeze0":
        return T(a["x"]).unsqueeze(0)
    if op == "ones_like":
        return torch.ones_like(T(a["x"]))
    if op == "zeros_like":
        return torch.zeros_like(T(a["x"]))
    if op == "add":
        return T(a["x"]) + T(a["y"])
    if op == "clone_is_fresh":
        x = T(a["x"])
        y = x.clone()
        return torch.tensor(float(y.untyped_storage().data_ptr() != x.untyped_storage().data_ptr()))
    if op == "view_shares_storage":
        x = T(a["x"])
        y = x.view(-1)[1:3]
        return torch.tensor(float(y.untyped_storage().data_ptr() == x.untyped_storage().data_ptr()))
    if op == "inplace_add_keeps_storage":
        x = T(a["x"])
        p = x.untyped_storage().data_ptr()
        x += T(a["y"])
        return torch.tensor(float(x.untyped_storage().data_ptr() == p))
    if op == "ceil_div":
        import math
        return torch.tensor(float(math.ceil(a["m"] / a["k"])))
    raise KeyError(op)


def main():
    cases = json.load(sys.stdin)
    out = []
    for c in cases:
        try:
            r = run(c)
            out.append({"shape": list(r.shape), "flat": r.reshape(-1).tolist()})
        except Exception as e:  # noqa: BLE001
            out.append({"error": type(e).__name__})
    json.dump(out, sys.stdout)


if __name__ == "__main__":
    main()
