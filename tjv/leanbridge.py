"""Bridge lemmas [L]: Lean 4 + Mathlib library in /verif/lean (TorchJDSpec).

check_property(prop, tier): makes sure the library is built from the current .lean sources (lean/build.sh is
incremental: ~1 s when up to date; it also scans for sorry/axiom/native_decide), then reports the theorems tagged
with the property in lean/theorems.json.  thorough: additionally `audit.sh` (#print axioms for every theorem: only
propext / Classical.choice / Quot.sound allowed) and `audit.sh --leanchecker` (independent re-check of the .olean)."""
from __future__ import annotations

import json
import os
import subprocess
import time

VERIF = os.path.dirname(os.path.dirname(os.path.abspath(__file__)))
LEAN = os.path.join(VERIF, "lean")
_BUILD = {}


def _build():
    if "r" in _BUILD:
        return _BUILD["r"]
    t0 = time.time()
    try:
        p = subprocess.run(["./build.sh"], cwd=LEAN, capture_output=True, text=True, timeout=1800)
        ok = p.returncode == 0
        msg = (p.stdout + p.stderr)[-600:]
    except Exception as e:  # noqa: BLE001
        ok, msg = False, f"{type(e).__name__}: {e}"
    _BUILD["r"] = (ok, msg, int((time.time() - t0) * 1000))
    return _BUILD["r"]


def _sources_hash():
    import glob
    import hashlib
    h = hashlib.sha256()
    for f in sorted(glob.glob(os.path.join(LEAN, "TorchJDSpec", "*.lean"))) + [os.path.join(LEAN, "TorchJDSpec.lean"),
                                                                               os.path.join(LEAN, "theorems.json")]:
        h.update(open(f, "rb").read())
    return h.hexdigest()[:16]


def _audit(leanchecker=False):
    """#print axioms audit / leanchecker re-check; the verdict is cached per hash of the .lean sources (inside the
    git-ignored build directory), so the 20 thorough checks do not repeat a 2-minute re-check of identical sources."""
    t0 = time.time()
    stamp = os.path.join(LEAN, ".lake", f"audit_{'lc' if leanchecker else 'ax'}_{_sources_hash()}.ok")
    if os.path.exists(stamp):
        return True, "cached verdict for these sources", 0
    cmd = ["./audit.sh", "--quiet"] + (["--leanchecker"] if leanchecker else [])
    try:
        p = subprocess.run(cmd, cwd=LEAN, capture_output=True, text=True, timeout=3600)
        if p.returncode == 0:
            try:
                open(stamp, "w").write(time.strftime("%Y-%m-%dT%H:%M:%S"))
            except OSError:
                pass
        return p.returncode == 0, (p.stdout + p.stderr)[-600:], int((time.time() - t0) * 1000)
    except Exception as e:  # noqa: BLE001
        return False, f"{type(e).__name__}: {e}", int((time.time() - t0) * 1000)


def check_property(prop, tier, names=None):
    thms = json.load(open(os.path.join(LEAN, "theorems.json")))
    mine = [t for t in thms if prop in t.get("properties", []) and (names is None or t["name"].split(".")[-1] in names)]
    if not mine:
        return {"theorems": []}
    ok, msg, ms = _build()
    res = {"theorems": [], "build_ms": ms, "build_ok": ok, "library": "lean/TorchJDSpec (lake, Lean 4.33 + Mathlib)",
           "n_theorems_in_library": len(thms)}
    aud = None
    if ok and tier == "thorough":
        aud = _audit(leanchecker=False)
        res["audit_print_axioms"] = {"ok": aud[0], "ms": aud[2]}
        lc = _audit(leanchecker=True)
        res["leanchecker"] = {"ok": lc[0], "ms": lc[2]}
        ok = ok and aud[0] and lc[0]
        if not ok:
            msg = (aud[1] if not aud[0] else lc[1])
    for t in mine:
        res["theorems"].append({"name": t["name"], "file": t["file"], "ok": ok, "ms": 0, "msg": "" if ok else msg,
                                "kind": t.get("kind"), "informal": t.get("informal")})
    if not ok:
        res["error"] = f"Lean library not accepted: {msg}"
    return res
