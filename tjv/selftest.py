"""./check selftest [ids...] — checking the checker.

Applies every independently seeded property-breaking change stored under /verif/seeded/<id>/ to a scratch git
worktree of /repo (never to /repo itself; the worktrees live under $TMPDIR and are removed afterwards) and runs the
quick check of the targeted property against it (TJV_REPO=<worktree>, evidence redirected).  A seeded change that is
NOT reported (no VIOLATION line) fails the self-test.  Also runs each quick check's verdict on the unchanged tree is
not touched: evidence files under /verif/evidence are left alone."""
from __future__ import annotations

import json
import os
import subprocess
import sys

VERIF = os.path.dirname(os.path.dirname(os.path.abspath(__file__)))


def main(argv):
    ids = argv or sorted(d for d in os.listdir(os.path.join(VERIF, "seeded")) if os.path.isdir(os.path.join(VERIF, "seeded", d)))
    p = subprocess.run([os.path.join(VERIF, "tools", "mutmatrix.sh")] + ids, cwd=VERIF, capture_output=True, text=True)
    print(p.stdout)
    missed, caught_p, caught_b = [], 0, 0
    for line in p.stdout.splitlines():
        parts = line.split()
        if not parts or "-" not in parts[0] or not parts[0].startswith("C"):
            continue
        sid = parts[0]
        if "violations=0" in line or "APPLY-FAILED" in line:
            missed.append(sid)
        else:
            log = open(f"/tmp/mutmatrix/{sid}.log").read() if os.path.exists(f"/tmp/mutmatrix/{sid}.log") else ""
            # a replay file named after an obligation (contains ':' or '.post' etc.) comes from the deductive arm
            ded = any(("no-failing-input-found" in ln) or (".post" in ln) or (".inv." in ln) or ("pipeline" in ln) for ln in log.splitlines() if ln.startswith("VIOLATION"))
            caught_p += 1 if ded else 0
            caught_b += 0 if ded else 1
    total = len(ids)
    print(f"[selftest] seeded changes: {total}; reported: {total - len(missed)} (with a refuted obligation named: {caught_p}; "
          f"by the bounded arm only: {caught_b}); missed: {missed}")
    return 1 if missed else 0


if __name__ == "__main__":
    sys.exit(main(sys.argv[1:]))
