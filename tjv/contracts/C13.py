"""C13 — retain_graph means what it means in torch.autograd [P].

(1) Jac._differentiate: every sweep but the last is issued with retain_graph=True, the last one with the caller's
    flag (ghost obligations C15.jac.ghost.step.retains_graph / last.uses_callers_retain_flag), for every chunk size.
(2) backward(): the caller's flag reaches the Jac unchanged and nothing else differentiates.
Which nodes a sweep frees, and when a freed node makes a later sweep fail, is PyTorch behaviour [T]: validated by the
bounded arm (histories of up to 3 calls against a torch.autograd twin) only."""
from .C01 import plumbing_check
from .C15 import CHECKS as _c15

CHECKS = [c for c in _c15 if c.name == "jac"] + [plumbing_check("C13")]
TRUSTED = ["torch.autograd.grad(..., retain_graph=False) frees exactly the buffers of the traversed path; a retained sweep frees nothing [T]"]

# mtl_backward: the caller's chunk size / retain flag reach the shared Jac and every task's Grad (pipeline-structure contract)
from .C02 import mtl_structure as _mtl_structure  # noqa: E402
CHECKS += [_mtl_structure(2)]

VALIDATE_LAYOUT_PRIMS = True  # [V] the layout primitive contracts are sampled against real torch on every run
