"""C02 — mtl_backward(): own-task gradients for heads, aggregated Jacobian for the trunk [P].

The REAL mtl_backward() (with _make_task_transform, Grad, Select, Conjunction, Composition, Stack, _stack,
_stack_one_key, dicts_union, _union, _least_common_ancestor, _check_no_overlap, _check_losses_are_scalar inlined
from their ASTs; Jac / Aggregate / Accumulate through their proved summaries) is executed symbolically for t tasks
(t = 1, 2, 3: the task count is unrolled — BOUNDED in t, unbounded in the number, shapes and contents of features,
shared and task parameters), an abstract aggregator and an arbitrary pre-existing .grad heap.

Postcondition (from the statement), F = features (list order), S = shared_params, TP_i = tasks_params[i]:
  (task)   every task parameter p gets  grad'(p)[c] = grad(p)[c] (+) sum over the tasks i listing p of d loss_i / d p[c]
  (rows)   the aggregator receives U with U[i, offS(k)+c] = sum_{r'} (d loss_i / d F[r']) * (d F[r'] / d S_k[c])
           — row i belongs to losses[i] —, 0 where a shared parameter does not influence the features
  (shared) every shared parameter receives its own slice of A(U);  (frame) nothing else changes."""
from __future__ import annotations

import z3

from tjv.pyvc import prims as P
from tjv.pyvc import values as V
from tjv.pyvc.lten import DJ, AbstractAgg, Heap, LTen, _outs_handle, bigsum
from tjv.pyvc.run import Check
from tjv.pyvc.values import U, lift
from . import autojac as A
from .common import call_catch

TR, AJ = A.TR, A.AJ
FUNCS = [f"{AJ}.mtl_backward.mtl_backward", f"{AJ}.mtl_backward._make_task_transform", f"{AJ}.mtl_backward._check_losses_are_scalar",
         f"{AJ}.mtl_backward._check_no_overlap", f"{TR}.grad.Grad.__init__", f"{TR}.grad.Grad._differentiate",
         f"{TR}._differentiate._Differentiate._compute", f"{TR}.select.Select.__init__", f"{TR}.select.Select._compute",
         f"{TR}.stack.Stack.__init__", f"{TR}.stack.Stack._compute", f"{TR}.stack._stack", f"{TR}.stack._stack_one_key",
         f"{TR}._utils.dicts_union", f"{TR}._utils._union", f"{TR}.tensor_dict._least_common_ancestor",
         f"{TR}.base.Conjunction.__init__", f"{TR}.base.Conjunction._compute", f"{TR}.base.Composition.__init__",
         f"{TR}.base.Composition._compute", f"{TR}.base.Transform.__call__", f"{TR}.init.Init._compute",
         f"{TR}._utils.ordered_set", f"{TR}.accumulate.Accumulate.__init__", f"{TR}.jac.Jac.__init__",
         f"{TR}.aggregate.Aggregate.__init__"]


def disjoint_seqs(cx, a: V.SymSeq, b: V.SymSeq):
    i, j = z3.Int("i!q"), z3.Int("j!q")
    cx.assume(V.forall([i, j], z3.Implies(z3.And(0 <= i, i < a.length, 0 <= j, j < b.length), a.get(i).ref != b.get(j).ref),
                        patterns=[z3.MultiPattern(a.get(i).ref, b.get(j).ref)]))


def not_in_seq(cx, x, a: V.SymSeq):
    i = z3.Int("i!q")
    cx.assume(V.forall([i], z3.Implies(z3.And(0 <= i, i < a.length), a.get(i).ref != x), patterns=[a.get(i).ref]))


def all_expect(cx, a: V.SymSeq):
    i = z3.Int("i!q")
    cx.assume(V.forall([i], z3.Implies(z3.And(0 <= i, i < a.length), A.expects_grad(a.get(i).ref)), patterns=[a.get(i).ref]))


def mtl_check(t):
    def fn(H):
        def body(cx):
            it = H.interp(cx, loop_specs=A.LOOPS, overrides=A.SUMMARIES)
            heap = Heap(cx)
            cx.ghost["heap"] = heap
            has0, val0, stor0 = heap.snapshot()
            F = A.tensor_list(cx, "F", distinct=True, min_len=1)
            S = A.tensor_list(cx, "S", distinct=True)
            TP = [A.tensor_list(cx, f"TP{i}", distinct=True) for i in range(t)]
            losses = [V.TRef(z3.Const(f"loss{i}", A.TenS)) for i in range(t)]
            for L in losses:
                cx.assume(z3.And(U("ndim", z3.IntSort(), U("shape", A.ShapeS, L.ref)) == 0, A.numel(L.ref) == 1))  # scalar losses [T: numel of a 0-d tensor is 1]
            # valid call: parameter groups disjoint from the features and from the shared parameters; all expect grad
            disjoint_seqs(cx, S, F)
            all_expect(cx, S)
            for i in range(t):
                disjoint_seqs(cx, TP[i], F)
                disjoint_seqs(cx, TP[i], S)
                all_expect(cx, TP[i])
            offF = A.offsets(it, F)
            cx.assume(offF.total() >= 1)
            k, kn = z3.Int("chunk"), z3.Bool("chunk_is_none")
            cx.assume(z3.Or(kn, k > 0))
            rg = z3.Bool("retain_graph")
            agg = AbstractAgg(cx, may_raise=False)
            kind, out = call_catch(lambda: it.call(H.repo.get(f"{AJ}.mtl_backward.mtl_backward"),
                                                   [list(losses), F, agg, list(TP), S, rg, V.Opt(kn, k)]))
            cx.oblige(f"C02.t{t}.no_raise_on_valid_call", kind == "return", where=str(getattr(out, "where", "")))
            if kind != "return":
                return
            hF, _ = _outs_handle(it, F)
            hs = [_outs_handle(it, [losses[i]])[0] for i in range(t)]
            # ---- aggregator input: row i <-> losses[i]
            offS = A.offsets(it, S)
            if agg.calls:
                M, aggout = agg.calls[0]
                cx.oblige(f"C02.t{t}.agg_input.shape", z3.And(lift(M.shape.lead[0]) == t, lift(M.shape.lead[1]) == offS.total()))
                kk, c = cx.fresh_int("k"), cx.fresh_int("c")
                cx.assume(z3.And(0 <= kk, kk < S.length, 0 <= c, c < A.numel(S.get(kk).ref)))
                x = S.get(kk).ref
                for i in range(t):
                    def body_r(rp, i=i):
                        j = offF.blk(rp)
                        f = F.get(j).ref
                        g = z3.If(U("unreachable", z3.BoolSort(), hs[i], f), 0, DJ(hs[i], 0, f, rp - offF.off(j)))
                        return g * DJ(hF, rp, x, c)
                    want = z3.If(U("unreachable", z3.BoolSort(), hF, x), 0, bigsum(offF.total(), body_r))
                    cx.oblige(f"C02.t{t}.rows.row{i}_belongs_to_loss{i}", M.elem([z3.IntVal(i), offS.off(kk) + c]) == want)
            else:
                cx.oblige(f"C02.t{t}.agg_input.skipped_only_without_shared_params", S.length == 0)
                aggout = None
            # ---- heap
            x, c = cx.fresh_const("x", A.TenS), cx.fresh_int("c")
            cx.assume(z3.And(0 <= c, c < A.numel(x)))
            inS = P.map_dom(it, V.SymMap(S, lambda tt: None))(x)
            member = [P.map_dom(it, V.SymMap(TP[i], lambda tt: None))(x) for i in range(t)]
            task_sum = z3.RealVal(0)
            for i in range(t):
                gi = z3.If(U("unreachable", z3.BoolSort(), hs[i], x), 0, DJ(hs[i], 0, x, c))
                task_sum = task_sum + z3.If(member[i], gi, 0)
            any_task = z3.Or(member)
            base = z3.If(has0(x), val0(x, c), 0)
            cx.oblige(f"C02.t{t}.task_params.post", z3.Implies(any_task, z3.And(heap.has_f(x), heap.val_f(x, c) == base + task_sum)))
            if aggout is not None:
                idx = P.seq_index_fn(it, S)
                cx.oblige(f"C02.t{t}.shared.post", z3.Implies(inS, z3.And(heap.has_f(x), heap.val_f(x, c) == base + aggout(offS.off(idx(x)) + c))))
            cx.oblige(f"C02.t{t}.frame", z3.Implies(z3.Not(z3.Or(inS, any_task)),
                                                   z3.And(heap.has_f(x) == has0(x), heap.val_f(x, c) == val0(x, c), heap.stor_f(x) == stor0(x))))
        H.explore(body, max_paths=4000)
    return Check(f"mtl.t{t}", FUNCS, fn, replay_keys=["C02."])


CHECKS = [mtl_check(1)]
TRUSTED = ["autograd theory [T] as in C01; chain rule through the features: the row handed to the shared Jac is the gradient of "
           "loss_i w.r.t. the features, so the spec row is 'back-propagated through features' by definition",
           "summaries of Jac._differentiate, Aggregate._compute, Accumulate._compute, Diagonalize (proved in C15 / C06)"]
ASSUMPTIONS = ["C02: inputs / parameters that are NON-LEAF tensors retaining grad are outside the discharged obligations: the trusted contract 'torch.autograd.grad writes no .grad field' is false for them (autograd's retain_grad hook fills their .grad during the sweep) - known finding C06.retained_input, reproduced by the bounded arm on every run",
               "C02: BOUNDED in the number of tasks (t <= 2 quick, 3 thorough); precondition: features duplicate-free, non-empty, "
               "with at least one scalar; parameter groups duplicate-free, disjoint from features and shared parameters; all expect grad"]


# ----------------------------------------------------------------------------- pipeline-structure contract (any small t)


def flatten_composition(o):
    """outer << ... << inner  ->  [outermost, ..., innermost]"""
    from tjv.pyvc.interp import SymObj
    if isinstance(o, SymObj) and o.cls.name == "Composition":
        return flatten_composition(o.attrs["outer"]) + flatten_composition(o.attrs["inner"])
    return [o]


def seq_eq(cx, a, b, name):
    """two tensor sequences are equal element-wise (same length, same elements in the same order)"""
    a = a if isinstance(a, V.SymSeq) else P.conc_seq(a)
    b = b if isinstance(b, V.SymSeq) else P.conc_seq(b)
    j = cx.fresh_int("sj")
    return z3.And(lift(a.length) == lift(b.length),
                  z3.Implies(z3.And(0 <= j, j < lift(a.length)), a.get(j).ref == b.get(j).ref))


def keys_of(it, od):
    return P.to_symmap(it, od).keys if not isinstance(od, dict) else P.conc_seq(list(od.keys()))


def set_is(cx, it, s, seq, name):
    """the set s is exactly the set of elements of seq"""
    S2 = P.set_from_seq(it, seq) if isinstance(seq, V.SymSeq) else seq
    if isinstance(s, set) and isinstance(S2, set):
        return z3.BoolVal(s == S2)
    return P.lift_set(it, s).arr == P.lift_set(it, S2).arr


def mtl_structure(t):
    def fn(H):
        def body(cx):
            captured = []

            def capture(interp, args, kwargs):
                captured.append(args[0])
                return None
            ov = dict(A.SUMMARIES)
            ov[f"{TR}.base.Transform.__call__"] = capture
            it = H.interp(cx, loop_specs=A.LOOPS, overrides=ov)
            F = A.tensor_list(cx, "F", distinct=True, min_len=1)
            S = A.tensor_list(cx, "S", distinct=True)
            TP = [A.tensor_list(cx, f"TP{i}", distinct=True) for i in range(t)]
            losses = [V.TRef(z3.Const(f"loss{i}", A.TenS)) for i in range(t)]
            for L in losses:
                cx.assume(U("ndim", z3.IntSort(), U("shape", A.ShapeS, L.ref)) == 0)
            disjoint_seqs(cx, S, F)
            for i in range(t):
                disjoint_seqs(cx, TP[i], F)
                disjoint_seqs(cx, TP[i], S)
                all_expect(cx, TP[i])
            all_expect(cx, S)
            k, kn = z3.Int("chunk"), z3.Bool("chunk_is_none")
            cx.assume(z3.Or(kn, k > 0))
            rg = z3.Bool("retain_graph")
            agg = AbstractAgg(cx, may_raise=False)
            kind, out = call_catch(lambda: it.call(H.repo.get(f"{AJ}.mtl_backward.mtl_backward"),
                                                   [list(losses), F, agg, list(TP), S, rg, V.Opt(kn, k)]))
            pre = f"C02.t{t}.pipeline"
            cx.oblige(f"{pre}.built_and_run_once_on_valid_call", kind == "return" and len(captured) == 1, where=str(getattr(out, "where", "")))
            if kind != "return" or len(captured) != 1:
                return
            chain = flatten_composition(captured[0])
            names = [getattr(getattr(o, "cls", None), "name", "?") for o in chain]
            cx.oblige(f"{pre}.shape_is_accumulate_aggregate_jac_stack", names == ["Accumulate", "Aggregate", "Jac", "Stack"])
            if names != ["Accumulate", "Aggregate", "Jac", "Stack"]:
                return
            acc, aggr, jac, stack = chain
            cx.oblige(f"{pre}.accumulate_into_shared", set_is(cx, it, acc.attrs["_required_keys"], S, "acc"))
            am = [o for o in flatten_composition(aggr.attrs["transform"]) if "aggregator" in o.attrs]
            cx.oblige(f"{pre}.aggregate_over_shared_in_order", len(am) == 1 and am[0].attrs["aggregator"] is agg)
            if am:
                cx.oblige(f"{pre}.aggregate_key_order_is_shared", seq_eq(cx, keys_of(it, am[0].attrs["key_order"]), S, "ko"))
            cx.oblige(f"{pre}.jac_from_features_to_shared", z3.And(seq_eq(cx, keys_of(it, jac.attrs["outputs"]), F, "jo"),
                                                                  seq_eq(cx, keys_of(it, jac.attrs["inputs"]), S, "ji")))
            ch = jac.attrs["chunk_size"]
            cx.oblige(f"{pre}.jac_gets_chunk_and_retain", z3.And(lift(ch.is_none) == kn, z3.Implies(z3.Not(kn), lift(ch.value) == k),
                                                               lift(jac.attrs["retain_graph"]) == rg, jac.attrs["create_graph"] is False))
            trs = stack.attrs["transforms"]
            cx.oblige(f"{pre}.one_task_transform_per_loss", isinstance(trs, list) and len(trs) == t)
            if not (isinstance(trs, list) and len(trs) == t):
                return
            for i in range(t):
                tc = flatten_composition(trs[i])
                tn = [getattr(getattr(o, "cls", None), "name", "?") for o in tc]
                ok = tn == ["Conjunction", "Grad", "Init"]
                cx.oblige(f"{pre}.task{i}.shape_is_conjunction_grad_init", ok)
                if not ok:
                    continue
                conj, grad, init = tc
                cx.oblige(f"{pre}.task{i}.init_is_its_loss", set_is(cx, it, init.attrs["values"], P.conc_seq([losses[i]]), "iv"))
                gin = keys_of(it, grad.attrs["inputs"])
                cx.oblige(f"{pre}.task{i}.grad_of_its_loss_wrt_its_params_then_features",
                          z3.And(seq_eq(cx, keys_of(it, grad.attrs["outputs"]), [losses[i]], "go"),
                                 seq_eq(cx, gin, P.binop(it, __import__("ast").Add(), TP[i], F), "gi")))
                cx.oblige(f"{pre}.task{i}.grad_gets_retain_flag", z3.And(lift(grad.attrs["retain_graph"]) == rg, grad.attrs["create_graph"] is False))
                members = conj.attrs["transforms"]
                sel = [m for m in members if getattr(getattr(m, "cls", None), "name", "") == "Select"]
                comp = [m for m in members if getattr(getattr(m, "cls", None), "name", "") == "Composition"]
                cx.oblige(f"{pre}.task{i}.conjunction_of_select_and_accumulate", len(members) == 2 and len(sel) == 1 and len(comp) == 1)
                if len(sel) == 1 and len(comp) == 1:
                    cx.oblige(f"{pre}.task{i}.backpropagates_the_features", set_is(cx, it, sel[0].attrs["keys"], F, "sk"))
                    ac, se = flatten_composition(comp[0])
                    cx.oblige(f"{pre}.task{i}.accumulates_its_params", z3.And(set_is(cx, it, ac.attrs["_required_keys"], TP[i], "ak"),
                                                                             set_is(cx, it, se.attrs["keys"], TP[i], "sk2")))
        H.explore(body, max_paths=4000)
    return Check(f"mtl.structure.t{t}", FUNCS, fn, replay_keys=["C02."])


CHECKS = [mtl_structure(2), mtl_structure(3)]
THOROUGH_CHECKS = [mtl_check(1)]


def _with_transform_contracts():
    """The statement follows from the structure of the pipeline AND the isolated contracts of the transforms it is made of:
    those are obligations of this property too (C15: Grad, Jac, Aggregate, Stack / Conjunction composition; C06: Accumulate)."""
    from .C06 import CHECKS as c06
    from .C15 import CHECKS as c15
    keep = ("grad", "jac", "aggregate", "stack2", "stack3", "stack_compute2", "conj_compute2", "init")
    return [c for c in c15 if c.name in keep] + list(c06)


CHECKS += _with_transform_contracts()

VALIDATE_LAYOUT_PRIMS = True  # [V] the layout primitive contracts are sampled against real torch on every run
