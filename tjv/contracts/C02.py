"""C02 — mtl_backward(): own-task gradients for heads, aggregated Jacobian for the trunk [P].

The REAL mtl_backward() (with _make_task_transform, Grad, Select, Conjunction, Composition, Stack, _stack,
_stack_one_key, dicts_union, _union, _least_common_ancestor, _check_no_overlap, _check_losses_are_scalar inlined
from their ASTs; Jac / Aggregate / Accumulate through their proved summaries) is executed symbolically for t tasks
(t = 1, 2, 3: the task count is unrolled — BOUNDED in t, unbounded in the number, shapes and contents of features,
shared and task parameters), an abstract aggregator and an arbitrary pre-existing .grad heap.

Postcondition (from the statement), F = features (list order), S = shared_params, TP_i = tasks_params[i]:
  (task)   every task parameter p gets  grad'(p)[c] = grad(p)[c] (+) sum over the tasks i listing p of d loss_i / d p[c]
  (rows)   the aggregator receives U with U[i, offS(k)+c] = sum_{r'} (d loss_i / d F[r']) * (d F[r'] / d S_k[c])
           — row i belongs to losses[i] —, 0 where a shared parameter does not influence the features
  (shared) every shared parameter receives its own slice of A(U);  (frame) nothing else changes."""
from __future__ import annotations

import z3

from tjv.pyvc import prims as P
from tjv.pyvc import values as V
from tjv.pyvc.lten import DJ, AbstractAgg, Heap, LTen, _outs_handle, bigsum
from tjv.pyvc.run import Check
from tjv.pyvc.values import U, lift
from . import autojac as A
from .common import call_catch

TR, AJ = A.TR, A.AJ
FUNCS = [f"{AJ}.mtl_backward.mtl_backward", f"{AJ}.mtl_backward._make_task_transform", f"{AJ}.mtl_backward._check_losses_are_scalar",
         f"{AJ}.mtl_backward._check_no_overlap", f"{TR}.grad.Grad.__init__", f"{TR}.grad.Grad._differentiate",
         f"{TR}._differentiate._Differentiate._compute", f"{TR}.select.Select.__init__", f"{TR}.select.Select._compute",
         f"{TR}.stack.Stack.__init__", f"{TR}.stack.Stack._compute", f"{TR}.stack._stack", f"{TR}.stack._stack_one_key",
         f"{TR}._utils.dicts_union", f"{TR}._utils._union", f"{TR}.tensor_dict._least_common_ancestor",
         f"{TR}.base.Conjunction.__init__", f"{TR}.base.Conjunction._compute", f"{TR}.base.Composition.__init__",
         f"{TR}.base.Composition._compute", f"{TR}.base.Transform.__call__", f"{TR}.init.Init._compute",
         f"{TR}._utils.ordered_set", f"{TR}.accumulate.Accumulate.__init__", f"{TR}.jac.Jac.__init__",
         f"{TR}.aggregate.Aggregate.__init__"]


def disjoint_seqs(cx, a: V.SymSeq, b: V.SymSeq):
    i, j = z3.Int("i!q"), z3.Int("j!q")
    cx.assume(V.forall([i, j], z3.Implies(z3.And(0 <= i, i < a.length, 0 <= j, j < b.length), a.get(i).ref != b.get(j).ref),
                        patterns=[z3.MultiPattern(a.get(i).ref, b.get(j).ref)]))


def not_in_seq(cx, x, a: V.SymSeq):
    i = z3.Int("i!q")
    cx.assume(V.forall([i], z3.Implies(z3.And(0 <= i, i < a.length), a.get(i).ref != x), patterns=[a.get(i).ref]))


def all_expect(cx, a: V.SymSeq):
    i = z3.Int("i!q")
    cx.assume(V.forall([i], z3.Implies(z3.And(0 <= i, i < a.length), A.expects_grad(a.get(i).ref)), patterns=[a.get(i).ref]))


def mtl_check(t):
    def fn(H):
        def body(cx):
            it = H.interp(cx, loop_specs=A.LOOPS, overrides=A.SUMMARIES)
            heap = Heap(cx)
            cx.ghost["heap"] = heap
            has0, val0, stor0 = heap.snapshot()
            F = A.tensor_list(cx, "F", distinct=True, min_len=1)
            S = A.tensor_list(cx, "S", distinct=True)
            TP = [A.tensor_list(cx, f"TP{i}", distinct=True) for i in range(t)]
            losses = [V.TRef(z3.Const(f"loss{i}", A.TenS)) for i in range(t)]
            for L in losses:
                cx.assume(z3.And(U("ndim", z3.IntSort(), U("shape", A.ShapeS, L.ref)) == 0, A.numel(L.ref) == 1))  # scalar losses [T: numel of a 0-d tensor is 1]
            # valid call: parameter groups disjoint from the features and from the shared parameters; all expect grad
            disjoint_seqs(cx, S, F)
            all_expect(cx, S)
            for i in range(t):
                disjoint_seqs(cx, TP[i], F)
                disjoint_seqs(cx, TP[i], S)
                all_expect(cx, TP[i])
            offF = A.offsets(it, F)
            cx.assume(offF.total() >= 1)
            k, kn = z3.Int("chunk"), z3.Bool("chunk_is_none")
            cx.assume(z3.Or(kn, k > 0))
            rg = z3.Bool("retain_graph")
            agg = AbstractAgg(cx, may_raise=False)
            kind, out = call_catch(lambda: it.call(H.repo.get(f"{AJ}.mtl_backward.mtl_backward"),
                                                   [list(losses), F, agg, list(TP), S, rg, V.Opt(kn, k)]))
            cx.oblige(f"C02.t{t}.no_raise_on_valid_call", kind == "return", where=str(getattr(out, "where", "")))
            if kind != "return":
                return
            hF, _ = _outs_handle(it, F)
            hs = [_outs_handle(it, [losses[i]])[0] for i in range(t)]
            # ---- aggregator input: row i <-> losses[i]
            offS = A.offsets(it, S)
            if agg.calls:
                M, aggout = agg.calls[0]
                cx.oblige(f"C02.t{t}.agg_input.shape", z3.And(lift(M.shape.lead[0]) == t, lift(M.shape.lead[1]) == offS.total()))
                kk, c = cx.fresh_int("k"), cx.fresh_int("c")
                cx.assume(z3.And(0 <= kk, kk < S.length, 0 <= c, c < A.numel(S.get(kk).ref)))
                x = S.get(kk).ref
                for i in range(t):
                    def body_r(rp, i=i):
                        j = offF.blk(rp)
                        f = F.get(j).ref
                        g = z3.If(U("unreachable", z3.BoolSort(), hs[i], f), 0, DJ(hs[i], 0, f, rp - offF.off(j)))
                        return g * DJ(hF, rp, x, c)
                    want = z3.If(U("unreachable", z3.BoolSort(), hF, x), 0, bigsum(offF.total(), body_r))
                    cx.oblige(f"C02.t{t}.rows.row{i}_belongs_to_loss{i}", M.elem([z3.IntVal(i), offS.off(kk) + c]) == want)
            else:
                cx.oblige(f"C02.t{t}.agg_input.skipped_only_without_shared_params", S.length == 0)
                aggout = None
            # ---- heap
            x, c = cx.fresh_const("x", A.TenS), cx.fresh_int("c")
            cx.assume(z3.And(0 <= c, c < A.numel(x)))
            inS = P.map_dom(it, V.SymMap(S, lambda tt: None))(x)
            member = [P.map_dom(it, V.SymMap(TP[i], lambda tt: None))(x) for i in range(t)]
            task_sum = z3.RealVal(0)
            for i in range(t):
                gi = z3.If(U("unreachable", z3.BoolSort(), hs[i], x), 0, DJ(hs[i], 0, x, c))
                task_sum = task_sum + z3.If(member[i], gi, 0)
            any_task = z3.Or(member)
            base = z3.If(has0(x), val0(x, c), 0)
            cx.oblige(f"C02.t{t}.task_params.post", z3.Implies(any_task, z3.And(heap.has_f(x), heap.val_f(x, c) == base + task_sum)))
            if aggout is not None:
                idx = P.seq_index_fn(it, S)
                cx.oblige(f"C02.t{t}.shared.post", z3.Implies(inS, z3.And(heap.has_f(x), heap.val_f(x, c) == base + aggout(offS.off(idx(x)) + c))))
            cx.oblige(f"C02.t{t}.frame", z3.Implies(z3.Not(z3.Or(inS, any_task)),
                                                   z3.And(heap.has_f(x) == has0(x), heap.val_f(x, c) == val0(x, c), heap.stor_f(x) == stor0(x))))
        H.explore(body, max_paths=4000)
    return Check(f"mtl.t{t}", FUNCS, fn, replay_keys=["C02."])


CHECKS = [mtl_check(1)]
TRUSTED = ["autograd theory [T] as in C01; chain rule through the features: the row handed to the shared Jac is the gradient of "
           "loss_i w.r.t. the features, so the spec row is 'back-propagated through features' by definition",
           "summaries of Jac._differentiate, Aggregate._compute, Accumulate._compute, Diagonalize (proved in C15 / C06)"]
ASSUMPTIONS = ["C02: BOUNDED in the number of tasks (t <= 2 quick, 3 thorough); precondition: features duplicate-free, non-empty, "
               "with at least one scalar; parameter groups duplicate-free, disjoint from features and shared parameters; all expect grad"]
