"""Sidecar contracts: one module per property id (CHECKS list), written over the pyvc symbolic domain.
Top-level postconditions are taken from the property statements; helper pre/postconditions from the code."""
