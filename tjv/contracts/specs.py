"""Spec functions of the aggregation properties, written from the property statements (not from the code)
with the spec-level operators of the algebraic domain."""
from __future__ import annotations

import ast

import z3

from tjv.pyvc import prims as P
from tjv.pyvc import values as V
from tjv.pyvc.aten import ATen, as_real, item_of, mk, scalar_aten, transpose
from tjv.pyvc.values import ArrS, DtypeS, U, lift

F64 = P.F64


def B(it, op, a, b):
    return P.binop(it, op, a, b)


def matmul(it, a, b):
    return B(it, ast.MatMult(), a, b)


def NG(it, J: ATen, eps):
    """Normalised Gramian of the statement: 0 if sigma_max(J) < eps else J J^T / sigma_max^2, in the SVD normal
    form  U diag((S/max S)^2) U^T  that the bridge lemma `svd_gram` (Lean) equates with J J^T / sigma_max^2."""
    with it.cx.mute():
        Um, S, _ = P.call(it, "torch.linalg.svd.nofail", [J], {"full_matrices": False})
        smax = P.call(it, "torch.max", [S], {})
        small = item_of(smax) < as_real(eps)
        zero = P.call(it, "torch.zeros_like", [S], {})
        scaled = B(it, ast.Div(), S, smax)
        sq0 = B(it, ast.Pow(), zero, 2)
        sq1 = B(it, ast.Pow(), scaled, 2)
        g0 = matmul(it, matmul(it, Um, P.call(it, "torch.diag", [sq0], {})), transpose(Um))
        g1 = matmul(it, matmul(it, Um, P.call(it, "torch.diag", [sq1], {})), transpose(Um))
    return small, g0, g1


def RNG(it, J: ATen, norm_eps, reg_eps):
    """NG(J, norm_eps) + reg_eps * I  — returns (cond_small, value_if_small, value_otherwise)."""
    small, g0, g1 = NG(it, J, norm_eps)
    with it.cx.mute():
        m = J.shape_l[0]
        eye = P.call(it, "torch.eye", [m], {"dtype": J.dtype})
        reg = B(it, ast.Mult(), reg_eps, eye)
        return small, B(it, ast.Add(), g0, reg), B(it, ast.Add(), g1, reg)


def to_array64(t: ATen):
    if t.dtype.eq(F64):
        return ATen(t.term, t.shape_l, F64, "numpy")
    return ATen(U("cast", ArrS, t.term, F64), t.shape_l, F64, "numpy")


def qp_row(it, G64: ATen, u_row: ATen, m):
    """w = the minimiser of v^T G v subject to u <= v, as the generic QP  QPGen(G, 0, -I, -u)
    (bridge lemma qpgen_to_qpmin)."""
    with it.cx.mute():
        zeros = P.call(it, "numpy.zeros", [m], {})
        negI = P.call(it, "numpy.eye", [m], {}).sym_neg(it)
        negu = u_row.sym_neg(it)
        return mk("QPGen", [G64, zeros, negI, negu], [m], F64, "numpy")


def project(it, Umat: ATen, G: ATen):
    """Row-wise projection weights (any leading shape), converted back to G's dtype."""
    m = G.shape_l[0]
    G64 = to_array64(G)
    U64 = to_array64(Umat)
    with it.cx.mute():
        if U64.rank == 1:
            W = qp_row(it, G64, U64, m)
        else:
            I0 = z3.Int("I0!canon")
            row = mk("row", [U64, I0], [U64.shape_l[1]], F64, "numpy")
            out = qp_row(it, G64, row, m)
            W = ATen(U("rows_lam", ArrS, lift(U64.shape_l[0]), out.term), [U64.shape_l[0], m], F64, "numpy")
        return P.call(it, "torch.as_tensor", [W], {"dtype": G.dtype})


def mean_weights(it, J: ATen):
    m = J.shape_l[0]
    with it.cx.mute():
        return P.call(it, "torch.full", [], {"size": [m], "fill_value": P.binop(it, ast.Div(), 1, m), "dtype": J.dtype})


def sum_weights(it, J: ATen):
    with it.cx.mute():
        return P.call(it, "torch.ones", [J.shape_l[0]], {"dtype": J.dtype})
