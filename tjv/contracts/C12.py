"""C12 — default parameter discovery finds exactly the leaves that matter [P] (traversal) + bounded arm (entry points).

_get_descendant_accumulate_grads(roots, excluded_edges) is verified against the reachability spec:
   R0        = { n | (n, i) in roots for some i with (n, i) not excluded }
   edge(n,c) = some k < len(n.next_functions): child_k(n) = c is not None and (c, index_k(n)) is not excluded
   reach     = the least set containing R0 and closed under edge
   result    = { n in reach | n is an AccumulateGrad node }
with sidecar invariants for the while loop (queue subset visited subset reach; R0 subset visited; every visited node
that has left the queue has all its eligible children visited; result = AccumulateGrad nodes that left the queue) and
for the inner for loop over next_functions.  `reach` is characterised by its introduction rules and by the
least-fixed-point induction principle, instantiated at the final `visited` set.  Termination is not proved.
The deque is abstracted to the set of queued nodes (the traversal order does not matter for the result).
Exclusion is by (node, output index) EDGE, as the statement demands ('without passing through the features')."""
from __future__ import annotations

import z3

from tjv.pyvc import values as V
from tjv.pyvc.graph import EdgeSet, NodeQueue, NodeSet, is_acc, nf_child, nf_idx, nf_len, nf_none
from tjv.pyvc.interp import LoopSpec
from tjv.pyvc.run import Check
from tjv.pyvc.values import NodeS, lift
from .common import call_catch

FN = "torchjd.autojac._utils._get_descendant_accumulate_grads"
x, y = z3.Const("x!q", NodeS), z3.Const("y!q", NodeS)
k = z3.Int("k!q")


def theory(cx):
    g = cx.ghost
    if "c12" in g:
        return g["c12"]
    roots, excl = g["roots"], g["excl"]
    reach = cx.fresh_func("reach", NodeS, z3.BoolSort())
    r0w = cx.fresh_func("r0_index", NodeS, z3.IntSort())
    i = z3.Int("i!q")
    R0 = lambda n: z3.And(roots.contains(n, r0w(n)), z3.Not(excl.contains(n, r0w(n))))  # noqa: E731
    # R0(n) iff some index i witnesses it (r0w is its Skolem function)
    cx.assume(V.forall([x, i], z3.Implies(z3.And(roots.contains(x, i), z3.Not(excl.contains(x, i))), R0(x))), tag="R0 definition")
    elig = lambda n, kk: z3.And(0 <= kk, kk < nf_len(n), z3.Not(nf_none(n, kk)), z3.Not(excl.contains(nf_child(n, kk), nf_idx(n, kk))))  # noqa: E731
    # introduction rules of reach
    cx.assume(V.forall([x], z3.Implies(R0(x), reach(x))), tag="reach: introduction (roots)")
    cx.assume(V.forall([x, k], z3.Implies(z3.And(reach(x), elig(x, k)), reach(nf_child(x, k))), patterns=[z3.MultiPattern(reach(x), nf_child(x, k))]),
              tag="reach: introduction (edge)")
    g["c12"] = (reach, R0, elig)
    return g["c12"]


def pred_of(v):
    if isinstance(v, (NodeSet, NodeQueue)):
        return v.pred
    if isinstance(v, (set, frozenset)) and not v:
        return lambda n: z3.BoolVal(False)
    raise KeyError("unexpected collection in the traversal state")


def outer_loop():
    def havoc(cx, frame, i):
        frame.vars["result"] = NodeSet(cx, "result")
        frame.vars["visited"] = NodeSet(cx, "visited")
        q = NodeSet(cx, "queue")
        frame.vars["nodes_to_traverse"] = NodeQueue(cx, q.pred)

    def inv(cx, frame, i):
        reach, R0, elig = theory(cx)
        res, vis, q = pred_of(frame.vars["result"]), pred_of(frame.vars["visited"]), pred_of(frame.vars["nodes_to_traverse"])
        return [
            ("queue_subset_visited", V.forall([x], z3.Implies(q(x), vis(x)))),
            ("visited_subset_reach", V.forall([x], z3.Implies(vis(x), reach(x)))),
            ("roots_visited", V.forall([x], z3.Implies(R0(x), vis(x)))),
            ("children_of_done_nodes_visited", V.forall([x, k], z3.Implies(z3.And(vis(x), z3.Not(q(x)), elig(x, k)), vis(nf_child(x, k))))),
            ("result_is_done_accumulate_grads", V.forall([x], res(x) == z3.And(vis(x), z3.Not(q(x)), is_acc(x)))),
        ]
    return LoopSpec(havoc, inv)


def inner_loop():
    def havoc(cx, frame, i):
        frame.vars["visited"] = NodeSet(cx, "visited_in")
        q = NodeSet(cx, "queue_in")
        frame.vars["nodes_to_traverse"] = NodeQueue(cx, q.pred)

    def inv(cx, frame, i):
        reach, R0, elig = theory(cx)
        if "__entry__" not in frame.vars:
            frame.vars["__entry__"] = (pred_of(frame.vars["visited"]), pred_of(frame.vars["nodes_to_traverse"]))
        V0, Q0 = frame.vars["__entry__"]
        p = frame.vars["node"].term
        vis, q = pred_of(frame.vars["visited"]), pred_of(frame.vars["nodes_to_traverse"])
        return [
            ("old_visited_kept", V.forall([x], z3.Implies(V0(x), vis(x)))),
            ("new_nodes_are_queued", V.forall([x], z3.Implies(z3.And(vis(x), z3.Not(V0(x))), q(x)))),
            ("queue_is_old_queue_plus_new", V.forall([x], q(x) == z3.Or(Q0(x), z3.And(vis(x), z3.Not(V0(x)))))),
            ("visited_subset_reach", V.forall([x], z3.Implies(vis(x), reach(x)))),
            ("processed_children_visited", V.forall([k], z3.Implies(z3.And(elig(p, k), k < lift(i)), vis(nf_child(p, k))))),
        ]
    return LoopSpec(havoc, inv)


LOOPS = {(FN, 0): outer_loop(), (FN, 1): inner_loop()}


def traversal_check(H):
    def body(cx):
        it = H.interp(cx, loop_specs=LOOPS)
        roots, excl = EdgeSet(cx, "roots"), EdgeSet(cx, "excluded")
        cx.ghost["roots"], cx.ghost["excl"] = roots, excl
        reach, R0, elig = theory(cx)
        kind, out = call_catch(lambda: it.call(H.repo.get(FN), [roots, excl]))
        cx.oblige("C12.bfs.no_raise", kind == "return", where=str(getattr(out, "where", "")))
        if kind != "return":
            return
        res = pred_of(out)
        n = cx.fresh_const("n", NodeS)
        # soundness: everything returned is a reachable AccumulateGrad node
        cx.oblige("C12.bfs.post.sound", z3.Implies(res(n), z3.And(reach(n), is_acc(n))))
        # completeness: least-fixed-point induction principle of `reach`, instantiated at the final `visited` set
        vis = cx.ghost.get("c12_final_visited")
        cx.oblige("C12.bfs.post.final_state_recorded", vis is not None)
        if vis is None:
            return
        closed = z3.And(V.forall([x], z3.Implies(R0(x), vis(x))), V.forall([x, k], z3.Implies(z3.And(vis(x), elig(x, k)), vis(nf_child(x, k)))))
        cx.oblige("C12.bfs.post.visited_is_closed", closed)
        cx.assume(z3.Implies(closed, V.forall([x], z3.Implies(reach(x), vis(x)))), tag="reach: least fixed point (induction principle at `visited`)")
        cx.oblige("C12.bfs.post.complete", z3.Implies(z3.And(reach(n), is_acc(n)), res(n)))
    H.explore(body, max_paths=2000)


# the exit path of the outer loop must expose its final `visited` set to the check: recorded by the invariant function
_orig_inv = LOOPS[(FN, 0)].inv


def _recording_inv(cx, frame, i):
    facts = _orig_inv(cx, frame, i)
    cx.ghost["c12_final_visited"] = pred_of(frame.vars["visited"])
    cx.ghost["c12_final_queue"] = pred_of(frame.vars["nodes_to_traverse"])
    return facts


LOOPS[(FN, 0)].inv = _recording_inv

CHECKS = [Check("traversal", [FN], traversal_check, replay_keys=["C12."])]
TRUSTED = ["AccumulateGrad nodes <-> leaf tensors requiring grad; grad_fn.next_functions lists the (node, output index) edges [T]",
           "the deque is abstracted to the set of queued nodes; termination of the traversal is not proved"]
ASSUMPTIONS = ["C12: the wrappers (_get_leaf_tensors, the defaults of backward / mtl_backward, the overlap rejection) are decided by the "
               "bounded arm (random DAGs with multi-output ops against an independent edge-level DFS)"]
