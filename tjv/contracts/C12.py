"""C12 — default parameter discovery finds exactly the leaves that matter [P] (traversal) + bounded arm (entry points).

_get_descendant_accumulate_grads(roots, excluded_edges) is verified against the reachability spec:
   R0        = { n | (n, i) in roots for some i with (n, i) not excluded }
   edge(n,c) = some k < len(n.next_functions): child_k(n) = c is not None and (c, index_k(n)) is not excluded
   reach     = the least set containing R0 and closed under edge
   result    = { n in reach | n is an AccumulateGrad node }
with sidecar invariants for the while loop (queue subset visited subset reach; R0 subset visited; every visited node
that has left the queue has all its eligible children visited; result = AccumulateGrad nodes that left the queue) and
for the inner for loop over next_functions.  `reach` is characterised by its introduction rules and by the
least-fixed-point induction principle, instantiated at the final `visited` set.  Termination is not proved.
The deque is abstracted to the set of queued nodes (the traversal order does not matter for the result).
Exclusion is by (node, output index) EDGE, as the statement demands ('without passing through the features')."""
from __future__ import annotations

import z3

from tjv.pyvc import values as V
from tjv.pyvc.graph import EdgeSet, NodeQueue, NodeSet, is_acc, nf_child, nf_idx, nf_len, nf_none
from tjv.pyvc.interp import LoopSpec
from tjv.pyvc.run import Check
from tjv.pyvc.values import NodeS, lift
from .common import call_catch

FN = "torchjd.autojac._utils._get_descendant_accumulate_grads"
x, y = z3.Const("x!q", NodeS), z3.Const("y!q", NodeS)
k = z3.Int("k!q")


def theory(cx):
    g = cx.ghost
    if "c12" in g:
        return g["c12"]
    roots, excl = g["roots"], g["excl"]
    reach = cx.fresh_func("reach", NodeS, z3.BoolSort())
    r0w = cx.fresh_func("r0_index", NodeS, z3.IntSort())
    i = z3.Int("i!q")
    R0 = lambda n: z3.And(roots.contains(n, r0w(n)), z3.Not(excl.contains(n, r0w(n))))  # noqa: E731
    # R0(n) iff some index i witnesses it (r0w is its Skolem function)
    cx.assume(V.forall([x, i], z3.Implies(z3.And(roots.contains(x, i), z3.Not(excl.contains(x, i))), R0(x))), tag="R0 definition")
    elig = lambda n, kk: z3.And(0 <= kk, kk < nf_len(n), z3.Not(nf_none(n, kk)), z3.Not(excl.contains(nf_child(n, kk), nf_idx(n, kk))))  # noqa: E731
    # introduction rules of reach
    cx.assume(V.forall([x], z3.Implies(R0(x), reach(x))), tag="reach: introduction (roots)")
    cx.assume(V.forall([x, k], z3.Implies(z3.And(reach(x), elig(x, k)), reach(nf_child(x, k))), patterns=[z3.MultiPattern(reach(x), nf_child(x, k))]),
              tag="reach: introduction (edge)")
    g["c12"] = (reach, R0, elig)
    return g["c12"]


def pred_of(v):
    if isinstance(v, (NodeSet, NodeQueue)):
        return v.pred
    if isinstance(v, (set, frozenset)) and not v:
        return lambda n: z3.BoolVal(False)
    raise KeyError("unexpected collection in the traversal state")


def outer_loop():
    def havoc(cx, frame, i):
        frame.vars["result"] = NodeSet(cx, "result")
        frame.vars["visited"] = NodeSet(cx, "visited")
        q = NodeSet(cx, "queue")
        frame.vars["nodes_to_traverse"] = NodeQueue(cx, q.pred)

    def inv(cx, frame, i):
        reach, R0, elig = theory(cx)
        res, vis, q = pred_of(frame.vars["result"]), pred_of(frame.vars["visited"]), pred_of(frame.vars["nodes_to_traverse"])
        return [
            ("queue_subset_visited", V.forall([x], z3.Implies(q(x), vis(x)))),
            ("visited_subset_reach", V.forall([x], z3.Implies(vis(x), reach(x)))),
            ("roots_visited", V.forall([x], z3.Implies(R0(x), vis(x)))),
            ("children_of_done_nodes_visited", V.forall([x, k], z3.Implies(z3.And(vis(x), z3.Not(q(x)), elig(x, k)), vis(nf_child(x, k))))),
            ("result_is_done_accumulate_grads", V.forall([x], res(x) == z3.And(vis(x), z3.Not(q(x)), is_acc(x)))),
        ]
    return LoopSpec(havoc, inv)


def inner_loop():
    def havoc(cx, frame, i):
        frame.vars["visited"] = NodeSet(cx, "visited_in")
        q = NodeSet(cx, "queue_in")
        frame.vars["nodes_to_traverse"] = NodeQueue(cx, q.pred)

    def inv(cx, frame, i):
        reach, R0, elig = theory(cx)
        if "__entry__" not in frame.vars:
            frame.vars["__entry__"] = (pred_of(frame.vars["visited"]), pred_of(frame.vars["nodes_to_traverse"]))
        V0, Q0 = frame.vars["__entry__"]
        p = frame.vars["node"].term
        vis, q = pred_of(frame.vars["visited"]), pred_of(frame.vars["nodes_to_traverse"])
        return [
            ("old_visited_kept", V.forall([x], z3.Implies(V0(x), vis(x)))),
            ("new_nodes_are_queued", V.forall([x], z3.Implies(z3.And(vis(x), z3.Not(V0(x))), q(x)))),
            ("queue_is_old_queue_plus_new", V.forall([x], q(x) == z3.Or(Q0(x), z3.And(vis(x), z3.Not(V0(x)))))),
            ("visited_subset_reach", V.forall([x], z3.Implies(vis(x), reach(x)))),
            ("processed_children_visited", V.forall([k], z3.Implies(z3.And(elig(p, k), k < lift(i)), vis(nf_child(p, k))))),
        ]
    return LoopSpec(havoc, inv)


LOOPS = {(FN, 0): outer_loop(), (FN, 1): inner_loop()}


def traversal_check(H):
    def body(cx):
        it = H.interp(cx, loop_specs=LOOPS)
        roots, excl = EdgeSet(cx, "roots"), EdgeSet(cx, "excluded")
        cx.ghost["roots"], cx.ghost["excl"] = roots, excl
        reach, R0, elig = theory(cx)
        kind, out = call_catch(lambda: it.call(H.repo.get(FN), [roots, excl]))
        cx.oblige("C12.bfs.no_raise", kind == "return", where=str(getattr(out, "where", "")))
        if kind != "return":
            return
        res = pred_of(out)
        n = cx.fresh_const("n", NodeS)
        # soundness: everything returned is a reachable AccumulateGrad node
        cx.oblige("C12.bfs.post.sound", z3.Implies(res(n), z3.And(reach(n), is_acc(n))))
        # completeness: least-fixed-point induction principle of `reach`, instantiated at the final `visited` set
        vis = cx.ghost.get("c12_final_visited")
        cx.oblige("C12.bfs.post.final_state_recorded", vis is not None)
        if vis is None:
            return
        closed = z3.And(V.forall([x], z3.Implies(R0(x), vis(x))), V.forall([x, k], z3.Implies(z3.And(vis(x), elig(x, k)), vis(nf_child(x, k)))))
        cx.oblige("C12.bfs.post.visited_is_closed", closed)
        cx.assume(z3.Implies(closed, V.forall([x], z3.Implies(reach(x), vis(x)))), tag="reach: least fixed point (induction principle at `visited`)")
        cx.oblige("C12.bfs.post.complete", z3.Implies(z3.And(reach(n), is_acc(n)), res(n)))
    H.explore(body, max_paths=2000)


# the exit path of the outer loop must expose its final `visited` set to the check: recorded by the invariant function
_orig_inv = LOOPS[(FN, 0)].inv


def _recording_inv(cx, frame, i):
    facts = _orig_inv(cx, frame, i)
    cx.ghost["c12_final_visited"] = pred_of(frame.vars["visited"])
    cx.ghost["c12_final_queue"] = pred_of(frame.vars["nodes_to_traverse"])
    return facts


LOOPS[(FN, 0)].inv = _recording_inv

CHECKS = [Check("traversal", [FN], traversal_check, replay_keys=["C12."])]
TRUSTED = ["AccumulateGrad nodes <-> leaf tensors requiring grad; grad_fn.next_functions lists the (node, output index) edges [T]",
           "the deque is abstracted to the set of queued nodes; termination of the traversal is not proved"]
ASSUMPTIONS = ["C12: the three contracts (traversal; _get_leaf_tensors against the traversal's contract; the defaults of backward / "
               "mtl_backward against _get_leaf_tensors' contract) compose modularly; what an autograd graph looks like for a given "
               "program (which nodes / edges exist) is PyTorch's and is exercised by the bounded arm only (random DAGs with "
               "multi-output ops against an independent edge-level DFS)"]


# ----------------------------------------------------------------------------- the defaults of backward / mtl_backward


def defaults_check(H):
    """Plumbing of the defaults: backward(inputs=None) uses _get_leaf_tensors(tensors, excluded = nothing);
    mtl_backward(shared_params=None) uses _get_leaf_tensors(features, nothing); mtl_backward(tasks_params=None) uses, for
    each loss IN ORDER, _get_leaf_tensors([loss_i], excluded = features); and the discovered sets are used exactly like
    explicit arguments (they flow into the same variables).  _get_leaf_tensors itself = AccumulateGrad variables of the
    traversal result (set comprehension over the node set) — its traversal is the contract above."""
    from tjv.pyvc.lten import AbstractAgg, Heap
    from . import autojac as A
    AJ, TR = A.AJ, A.TR

    def body(cx):
        calls, returned = [], []

        def leaf_contract(interp, args, kwargs):
            tensors = kwargs.get("tensors", args[0] if args else None)
            excluded = kwargs.get("excluded", args[1] if len(args) > 1 else None)
            calls.append((tensors, excluded))
            S = V.SymSet(interp.cx, f"leaves{len(calls)}")
            returned.append(S)
            return S
        captured = []

        def capture(interp, args, kwargs):
            captured.append(args[0])
            return None
        ov = dict(A.SUMMARIES)
        ov[f"{AJ}._utils._get_leaf_tensors"] = leaf_contract
        ov[f"{TR}.base.Transform.__call__"] = capture
        it = H.interp(cx, loop_specs=A.LOOPS, overrides=ov)
        cx.ghost["heap"] = Heap(cx)
        which = cx.choose(2, "entry")
        agg = AbstractAgg(cx, may_raise=False)
        if which == 0:
            T = A.tensor_list(cx, "T", distinct=True, min_len=1)
            kind, out = call_catch(lambda: it.call(H.repo.get(f"{AJ}.backward.backward"), [T, agg, None, False, None]))
            cx.oblige("C12.backward_default.no_raise", kind == "return", where=str(getattr(out, "where", "")))
            cx.oblige("C12.backward_default.one_discovery_call", len(calls) == 1)
            if len(calls) == 1 and kind == "return":
                t, e = calls[0]
                j = cx.fresh_int("j")
                same = z3.And(lift(t.length) == T.length, z3.Implies(z3.And(0 <= j, j < T.length), t.get(j).ref == T.get(j).ref)) if isinstance(t, V.SymSeq) else False
                cx.oblige("C12.backward_default.roots_are_the_tensors", same)
                cx.oblige("C12.backward_default.nothing_excluded", isinstance(e, (set, list)) and len(e) == 0)
                # the discovered set is used exactly as an explicit `inputs` set: it is the key set of Jac / Aggregate / Accumulate
                from .C02 import flatten_composition
                chain = flatten_composition(captured[0]) if captured else []
                acc = [o for o in chain if getattr(getattr(o, "cls", None), "name", "") == "Accumulate"]
                rk = acc[0].attrs["_required_keys"] if len(acc) == 1 else None
                cx.oblige("C12.backward_default.discovered_set_is_accumulated",
                          (rk.arr == returned[0].arr) if isinstance(rk, V.SymSet) else False)
        else:
            F = A.tensor_list(cx, "F", distinct=True, min_len=1)
            t_n = 2
            losses = [V.TRef(z3.Const(f"loss{i}", A.TenS)) for i in range(t_n)]
            for L in losses:
                cx.assume(z3.simplify(P_ndim(L)) == 0)
            kind, out = call_catch(lambda: it.call(H.repo.get(f"{AJ}.mtl_backward.mtl_backward"), [list(losses), F, agg], {}))
            if kind != "return":
                # the only legitimate rejection of a defaulted call is the overlap of the two default sets
                cx.oblige("C12.mtl_default.rejection_is_the_overlap_ValueError", out.cls == "ValueError" and len(calls) == 1 + t_n,
                          where=str(getattr(out, "where", "")))
                return
            cx.oblige("C12.mtl_default.discovery_calls", len(calls) == 1 + t_n)
            if len(calls) != 1 + t_n:
                return
            j = cx.fresh_int("j")

            def is_F(x):
                return z3.And(lift(x.length) == F.length, z3.Implies(z3.And(0 <= j, j < F.length), x.get(j).ref == F.get(j).ref)) if isinstance(x, V.SymSeq) else False
            t0, e0 = calls[0]
            cx.oblige("C12.mtl_default.shared_from_features_nothing_excluded", z3.And(is_F(t0), isinstance(e0, (list, set)) and len(e0) == 0))
            for i in range(t_n):
                ti, ei = calls[1 + i]
                ok_roots = isinstance(ti, list) and len(ti) == 1 and isinstance(ti[0], V.TRef)
                cx.oblige(f"C12.mtl_default.task{i}_from_its_loss_excluding_the_features",
                          z3.And(ti[0].ref == losses[i].ref, is_F(ei)) if ok_roots else False)
    H.explore(body, max_paths=3000)


def P_ndim(L):
    from tjv.pyvc.values import ShapeS, U
    return U("ndim", z3.IntSort(), U("shape", ShapeS, L.ref))


from tjv.pyvc.values import lift  # noqa: E402,F811
CHECKS.append(Check("defaults", ["torchjd.autojac.backward.backward", "torchjd.autojac.mtl_backward.mtl_backward"], defaults_check,
                    replay_keys=["C12."]))


# ----------------------------------------------------------------------------- _get_leaf_tensors (the wrapper)


def leaf_wrapper_check(H):
    """_get_leaf_tensors(tensors, excluded):  raises ValueError iff some member of either collection has no grad_fn; otherwise
    calls the traversal ONCE with roots = {(t.grad_fn, t.output_nr) | t in tensors}, excluded_edges = the same image of
    `excluded`, and returns exactly the image of the traversal result under node -> node.variable.  The traversal is replaced
    by its contract (an arbitrary node set is returned; its own contract is C12.bfs.*)."""
    from tjv.pyvc.values import TenS, U
    from . import autojac as A
    gf = lambda t: U("grad_fn", NodeS, t)  # noqa: E731
    gfn = lambda t: U("grad_fn_is_none", z3.BoolSort(), t)  # noqa: E731
    onr = lambda t: U("output_nr", z3.IntSort(), t)  # noqa: E731

    def body(cx):
        calls = []

        def trav_contract(interp, args, kwargs):
            roots = kwargs.get("roots", args[0] if args else None)
            excl = kwargs.get("excluded_edges", args[1] if len(args) > 1 else None)
            calls.append((roots, excl))
            R = NodeSet(interp.cx, "accs")
            calls[-1] += (R,)
            return R
        it = H.interp(cx, overrides={FN: trav_contract})
        T = A.tensor_list(cx, "T")
        E = A.tensor_list(cx, "E")
        j = z3.Int("j!q")
        bad = z3.Or(z3.Exists([j], z3.And(0 <= j, j < T.length, gfn(T.get(j).ref))), z3.Exists([j], z3.And(0 <= j, j < E.length, gfn(E.get(j).ref))))
        kind, out = call_catch(lambda: it.call(H.repo.get("torchjd.autojac._utils._get_leaf_tensors"), [T, E]))
        if kind == "raise":
            cx.oblige("C12.leaves.raises_only_without_grad_fn", z3.And(out.cls == "ValueError", bad), where=str(getattr(out, "where", "")))
            cx.oblige("C12.leaves.raises_before_traversing", len(calls) == 0)
            return
        cx.oblige("C12.leaves.accepts_only_with_grad_fn", z3.Not(bad))
        cx.oblige("C12.leaves.one_traversal", len(calls) == 1)
        if len(calls) != 1:
            return
        roots, excl, R = calls[0]
        ok_types = isinstance(roots, EdgeSet) and isinstance(excl, EdgeSet) or isinstance(roots, EdgeSet) and isinstance(excl, (set, frozenset)) and not excl
        cx.oblige("C12.leaves.edge_sets_passed", ok_types)
        if not ok_types:
            return
        n, i = cx.fresh_const("n", NodeS), cx.fresh_int("i")

        def image(L, n, i):
            return z3.Exists([j], z3.And(0 <= j, j < L.length, gf(L.get(j).ref) == n, onr(L.get(j).ref) == i))
        cx.oblige("C12.leaves.roots_are_the_edges_of_tensors", roots.contains(n, i) == image(T, n, i))
        ex_pred = excl.contains(n, i) if isinstance(excl, EdgeSet) else z3.BoolVal(False)
        cx.oblige("C12.leaves.excluded_are_the_edges_of_excluded", ex_pred == image(E, n, i))
        t = cx.fresh_const("t", TenS)
        S = out
        okS = isinstance(S, V.SymSet)
        cx.oblige("C12.leaves.returns_a_set_of_tensors", okS)
        if okS:
            m = z3.Const("m!q", NodeS)
            cx.oblige("C12.leaves.result_is_the_variables_of_the_traversal_result",
                      S.contains(t) == z3.Exists([m], z3.And(R.contains(m), U("variable", TenS, m) == t)))
    H.explore(body, max_paths=2000)


CHECKS.append(Check("leaf_wrapper", ["torchjd.autojac._utils._get_leaf_tensors"], leaf_wrapper_check, replay_keys=["C12."]))
