"""C08 — weighted aggregators stay in the row span and only look at the Gramian [P]+[L].

[P] for every aggregator of the statement's list whose forward is loop-free: the REAL constructor + forward equal the
spec term  weights(J) @ J  where the spec weights are written ONLY in terms of Gramian-determined quantities
(J J^T, its SVD-normalised form, row norms = sqrt(diag G), pairwise distances = sqrt(G_ii + G_jj - 2 G_ij)); the
syntactic obligation `.gram_only` checks that on the spec term itself.  [L] gramAgg_orthogonal / gramAgg_col_perm /
gramAgg_zero_cols / gramAgg_mem_rowSpan (Lean) then give A(JQ) = A(J)Q, column permutation / zero-column
equivariance and the row-span clause for ANY weighting of that form.
Aggregators whose forward contains loops (MGDA, PCGrad, GradDrop) and the cvxpy-based ones are covered by the
bounded arm only (see C18 for their contracts)."""
from .aggs import SPECS, build_check
from . import C03 as _c03
from . import C16 as _c16

NAMES = ["Mean", "Sum", "Constant", "Random", "IMTLG", "AlignedMTL.default", "AlignedMTL.pref", "ConFIG.default", "ConFIG.pref", "PCGrad", "CAGrad"]
CHECKS = [build_check("C08", SPECS[k], clauses=("post", "span")) for k in NAMES]
# UPGrad / DualProj / Krum: their end-to-end contracts (C03, C16) are re-checked under this property's name
for _c in _c03.CHECKS + [c for c in _c16.CHECKS if c.name.startswith("krum.forward")]:
    CHECKS.append(_c)
from .C18 import CHECKS as _c18  # noqa: E402
CHECKS += [c for c in _c18 if c.name == "MGDA"]
TRUSTED = ["Gramian-determined primitives: linalg.norm(J, dim=1)^2 = diag(J J^T); cdist(J,J)^2 = G_ii + G_jj - 2 G_ij; the "
           "left singular vectors/values of J are those of J J^T (bridge lemma svd_gram)",
           "bridge lemmas gramAgg_orthogonal, gramAgg_isometry, gramAgg_col_perm, gramAgg_zero_cols, gramAgg_mem_rowSpan (Lean)"]

VALIDATE_ALGEBRAIC_PRIMS = True  # [V] the algebraic primitive contracts are sampled against real torch on every run
