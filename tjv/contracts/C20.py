"""C20 — a call rejected for its arguments changes nothing [P].

backward() is executed on ARBITRARY arguments (possibly empty / duplicated `tensors`, inputs that do not expect a
gradient, any chunk size, an aggregator that may reject its input): on every path that ends in a raise, no .grad
write has happened before the raise (the heap at the raise is the entry heap).  Accumulate's part — all keys are
checked before the first store — is the isolated contract C06.accumulate.no_write_before_raise, re-checked here."""
import z3

from tjv.pyvc import prims as P
from tjv.pyvc import values as V
from tjv.pyvc.run import Check
from . import autojac as A
from .C01 import FUNCS, setup
from .C06 import CHECKS as _c06
from .common import call_catch


def backward_rejects(H):
    def body(cx):
        it = H.interp(cx, loop_specs=A.LOOPS, overrides=A.SUMMARIES)
        heap, T, L, chunk, rg, agg, offT = setup(cx, it, H, valid=False, agg_may_raise=True)
        has0, val0, stor0 = heap.snapshot()
        cx.assume(z3.Or(T.length == 0, offT.total() >= 1))  # a Jacobian with zero rows is outside the property (DESIGN §4)
        kind, out = call_catch(lambda: it.call(H.repo.get(f"{A.AJ}.backward.backward"), [T, agg, L, rg, chunk]))
        if kind != "raise":
            return
        writes = [e for e in cx.events if e[0] in ("grad_write", "accumulate_call")]
        cx.oblige("C20.backward.no_grad_write_before_raise", len(writes) == 0, where=str(getattr(out, "where", "")))
        x, c = cx.fresh_const("x", A.TenS), cx.fresh_int("c")
        cx.oblige("C20.backward.heap_unchanged_at_raise", z3.And(heap.has_f(x) == has0(x), heap.val_f(x, c) == val0(x, c), heap.stor_f(x) == stor0(x)))
    H.explore(body, max_paths=3000)


def backward_rejects_iff(H):
    """Each listed kind of invalid argument IS rejected (ValueError): non-positive chunk size, empty tensors,
    duplicate tensors, an input that does not expect a gradient, an aggregator rejection."""
    def body(cx):
        it = H.interp(cx, loop_specs=A.LOOPS, overrides=A.SUMMARIES)
        heap, T, L, chunk, rg, agg, offT = setup(cx, it, H, valid=False, agg_may_raise=True)
        cx.assume(offT.total() >= 1)
        kind, out = call_catch(lambda: it.call(H.repo.get(f"{A.AJ}.backward.backward"), [T, agg, L, rg, chunk]))
        jq = z3.Int("j!q")
        S = P.set_from_seq(it, L)
        bad_chunk = z3.And(z3.Not(chunk.is_none), chunk.value <= 0)
        empty = T.length == 0
        dup = z3.Not(P.seq_distinct_pred(it, T)) if T.distinct is None else z3.BoolVal(False)
        if kind == "return":
            cx.oblige("C20.backward.accepts_only_valid.chunk", z3.Not(bad_chunk))
            cx.oblige("C20.backward.accepts_only_valid.nonempty", z3.Not(empty))
            cx.oblige("C20.backward.accepts_only_valid.no_duplicates", z3.Not(dup))
            w = cx.fresh_int("w")
            cx.oblige("C20.backward.accepts_only_valid.inputs_expect_grad",
                      z3.Implies(z3.And(0 <= w, w < L.length), A.expects_grad(L.get(w).ref)))
        else:
            cx.oblige("C20.backward.rejection_is_ValueError", out.cls == "ValueError", where=str(getattr(out, "where", "")))
    H.explore(body, max_paths=3000)


CHECKS = [Check("backward.rejects", FUNCS, backward_rejects, replay_keys=["C20."]),
          Check("backward.rejects_iff", FUNCS, backward_rejects_iff, replay_keys=["C20."])] + list(_c06)
TRUSTED = ["summaries of Jac / Aggregate / Accumulate / Diagonalize (proved in C15 / C06); the aggregator may reject (ValueError) "
           "only when called, i.e. before Accumulate runs"]


# ----------------------------------------------------------------------------- mtl_backward: rejections happen before the pipeline runs


def mtl_rejects(t):
    """mtl_backward on arbitrary parameter lists (duplicates, overlaps, tensors that do not expect a gradient, any chunk
    size, any number of parameter groups vs losses is fixed to t here): whenever it raises, the pipeline has not been
    run (so no .grad can have been written); whenever it runs the pipeline, every parameter it will accumulate into
    expects a gradient — so Accumulate (whose only rejection is that check, C06) cannot raise half-way."""
    from tjv.pyvc.lten import AbstractAgg
    from .C02 import flatten_composition
    AJ, TR = A.AJ, A.TR

    def fn(H):
        def body(cx):
            captured = []

            def capture(interp, args, kwargs):
                captured.append(args[0])
                return None
            def leaf_contract(interp, args, kwargs):
                # contract of _get_leaf_tensors (C12): SOME set of leaves requiring grad [T: AccumulateGrad variables]
                D = V.SymSet(interp.cx, "discovered")
                tq = z3.Const("t!q", A.TenS)
                interp.cx.assume(V.forall([tq], z3.Implies(D.contains(tq), A.expects_grad(tq))), tag="discovered parameters are leaves requiring grad [T]")
                return D
            ov = dict(A.SUMMARIES)
            ov[f"{TR}.base.Transform.__call__"] = capture
            ov[f"{AJ}._utils._get_leaf_tensors"] = leaf_contract
            it = H.interp(cx, loop_specs=A.LOOPS, overrides=ov)
            F = A.tensor_list(cx, "F", distinct=None)
            S = A.tensor_list(cx, "S", distinct=None)
            TP = [A.tensor_list(cx, f"TP{i}", distinct=None) for i in range(t)]
            losses = [V.TRef(z3.Const(f"loss{i}", A.TenS)) for i in range(t)]
            k, kn = z3.Int("chunk"), z3.Bool("chunk_is_none")
            rg = z3.Bool("retain_graph")
            agg = AbstractAgg(cx, may_raise=True)
            # either group of parameters may be left to its default (discovered from the graph): the OTHER, explicit, group is
            # validated all the same
            style = cx.choose(3, "defaults")
            s_arg = None if style == 1 else S
            tp_arg = None if style == 2 else list(TP)
            kind, out = call_catch(lambda: it.call(H.repo.get(f"{AJ}.mtl_backward.mtl_backward"),
                                                   [list(losses), F, agg, tp_arg, s_arg, rg, V.Opt(kn, k)]))
            if kind == "raise":
                cx.oblige(f"C20.mtl{t}.rejected_before_the_pipeline_runs", len(captured) == 0, where=str(getattr(out, "where", "")))
                cx.oblige(f"C20.mtl{t}.rejection_is_ValueError", out.cls == "ValueError", where=str(getattr(out, "where", "")))
                return
            cx.oblige(f"C20.mtl{t}.pipeline_run_once", len(captured) == 1)
            w = cx.fresh_int("w")
            explicit = ([("shared", S)] if s_arg is not None else []) + ([(f"task{i}", TP[i]) for i in range(t)] if tp_arg is not None else [])
            for name, seq in explicit:
                cx.oblige(f"C20.mtl{t}.accepted_only_if_{name}_params_expect_grad",
                          z3.Implies(z3.And(0 <= w, w < seq.length), A.expects_grad(seq.get(w).ref)))
            cx.oblige(f"C20.mtl{t}.accepted_only_with_positive_chunk", z3.Or(kn, k > 0))
            cx.oblige(f"C20.mtl{t}.accepted_only_with_features", F.length >= 1)
            # shared / task overlap is rejected
            a, b = cx.fresh_int("oa"), cx.fresh_int("ob")
            for i in range(t if (s_arg is not None and tp_arg is not None) else 0):
                cx.oblige(f"C20.mtl{t}.accepted_only_without_overlap.task{i}",
                          z3.Implies(z3.And(0 <= a, a < S.length, 0 <= b, b < TP[i].length), S.get(a).ref != TP[i].get(b).ref))
        H.explore(body, max_paths=4000)
    return Check(f"mtl_rejects.t{t}", [f"{AJ}.mtl_backward.mtl_backward", f"{AJ}.mtl_backward._check_no_overlap",
                                       f"{AJ}.mtl_backward._check_losses_are_scalar", f"{AJ}._utils._check_optional_positive_chunk_size",
                                       f"{TR}.accumulate._check_expects_grad"], fn, replay_keys=["C20."])


CHECKS.append(mtl_rejects(1))
THOROUGH_CHECKS = [mtl_rejects(2)]

VALIDATE_LAYOUT_PRIMS = True  # [V] the layout primitive contracts are sampled against real torch on every run
