"""C09 — linear under scaling [P]+[L].

[P]: Mean/Sum/Constant/Random weights do not depend on J at all (their spec terms mention only m and the dtype);
ConFIG's definitional postcondition (unit rows before the pseudo-inverse; length = sum of the projections);
UPGrad's end-to-end contract (C03).  [L]: lin_const, lin_const_add, lin_const_smul, lin_config,
unit_row_scale_invariant, lin_pcgrad, qpmin_row_scaling (Lean).  PCGrad's loop contract lives in C18.
The sqrt(reg_eps) defect bound of UPGrad is decided by the bounded arm only."""
from .aggs import SPECS, build_check
from . import C03 as _c03

CHECKS = [build_check("C09", SPECS[k], clauses=("post",)) for k in ("Mean", "Sum", "Constant", "Random", "ConFIG.default", "ConFIG.pref", "PCGrad")]
CHECKS += [c for c in _c03.CHECKS if c.name.startswith("upgrad")]
TRUSTED = ["bridge lemmas lin_const*, lin_config, unit_row_scale_invariant, lin_pcgrad, qpmin_row_scaling (Lean)"]
