"""Generic end-to-end contract of one aggregator: REAL constructor + forward() executed from the AST, compared
with the aggregator's spec (definition from the property statements / the cited papers).

For an aggregator A the harness emits, under the prefix `<Cxx>.<A>`:
  .ctor_ok            the constructor accepts the (valid) configuration
  .rejects_iff        forward raises ValueError exactly on inputs the statement says are rejected (C11.checks)
  .post               result term == spec term on every accepted path                          (C03/C05/C16/C17/C18)
  .dtype              result dtype == input dtype                                              (C11.type)
  .shape              result shape == (n,)                                                     (C11.type)
  .stateless          forward stores nothing into self / its weighting                        (C11.stateless)
  frame.*             in-place operations only on freshly allocated values (emitted by the primitives) (C11.frame)
  .span               forward's result is weights @ J for the weighted aggregators            (C08.span)
  .gram_only          the spec weights mention J only through Gramian-determined sub-terms    (C08.nf1, syntactic)
"""
from __future__ import annotations

import ast

import z3

from tjv.pyvc import prims as P
from tjv.pyvc import values as V
from tjv.pyvc.aten import ATen, as_real, item_of, mk, scalar_aten, transpose
from tjv.pyvc.core import SymRaise
from tjv.pyvc.run import Check
from tjv.pyvc.values import ArrS, DtypeS, U, lift
from . import specs as S
from .common import AGG, call_catch, finite, same_term, sym_matrix, sym_vector

BASE_FUNCS = [f"{AGG}.bases._WeightedAggregator.__init__", f"{AGG}.bases._WeightedAggregator.forward",
              f"{AGG}.bases._WeightedAggregator.combine", f"{AGG}.bases.Aggregator._check_is_matrix",
              f"{AGG}.bases.Aggregator._check_is_finite"]
PREF_FUNCS = [f"{AGG}._pref_vector_utils._check_pref_vector", f"{AGG}._pref_vector_utils._pref_vector_to_weighting",
              f"{AGG}.constant._ConstantWeighting.__init__", f"{AGG}.constant._ConstantWeighting.forward",
              f"{AGG}.constant._ConstantWeighting._check_matrix_shape"]


class AggSpec:
    """name; cls qualname; functions under contract; config(cx) -> (kwargs, cfg dict of symbols);
    valid(cx, J, m, n, cfg) -> BoolRef (accepted inputs besides 2-d & finite);
    spec(it, J, m, n, cfg, flags) -> list of (condition, ATen) cases covering the accepted inputs, or None;
    external(cx) -> BoolRef: failure flags of trusted primitives that legitimately make forward raise."""

    def __init__(self, name, cls, funcs, config, valid, spec, weighted=True, raise_classes=("ValueError",),
                 ext_raises=(), gram_only=True, pre=None, checks_finite=True):
        self.name, self.cls, self.funcs = name, cls, funcs
        self.config, self.valid, self.spec = config, valid, spec
        self.weighted = weighted
        self.ext_raises = ext_raises
        self.gram_only = gram_only
        self.pre = pre
        self.checks_finite = checks_finite


def _flags(cx, substrs):
    out = []
    for x in cx.pc:
        s = str(x)
        if any(k in s for k in substrs) and (z3.is_const(x) or (z3.is_not(x) and z3.is_const(x.arg(0)))):
            out.append(x)
    return out


def build_check(prefix, sp: AggSpec, clauses=("rejects", "post", "dtype", "shape", "stateless", "span")):
    tag = f"{prefix}.{sp.name}"

    def fn(H):
        def body(cx):
            it = H.interp(cx, loop_specs=AGG_LOOPS)
            J, (m, n) = sym_matrix(cx, "J")
            cx.assume(m >= 1)
            kwargs, cfg = sp.config(cx, m, J)
            if sp.pre is not None:
                cx.assume(sp.pre(cx, J, m, n, cfg))
            kind, agg = call_catch(lambda: it.call(H.repo.get(sp.cls), [], dict(kwargs)))
            if kind == "raise":
                cx.oblige(f"{tag}.ctor_ok", False)
                return
            n_events = len(cx.events)
            cx.ghost["cvx_leaf_n"] = 0
            kind, v = call_catch(lambda: it.call(agg, [J]))
            ok_rows = sp.valid(cx, J, m, n, cfg)
            valid = z3.And(finite(J), ok_rows) if sp.checks_finite else ok_rows
            ext = [x for x in _flags(cx, ["fails", "returns_none"]) if not z3.is_not(x)]
            if kind == "raise":
                if "rejects" in clauses:
                    if ext:
                        cx.oblige(f"{tag}.raises_only_on_declared_external_failure",
                                  bool(sp.ext_raises) and v.cls in sp.ext_raises)
                    else:
                        cx.oblige(f"{tag}.rejects_iff.raises_only_if_invalid", z3.And(v.cls == "ValueError", z3.Not(valid)))
                return
            if "rejects" in clauses:
                cx.oblige(f"{tag}.rejects_iff.accepts_only_valid", valid)
            if "stateless" in clauses:
                stores = [e for e in cx.events[n_events:] if e[0] == "setattr"]
                cx.oblige(f"{tag}.stateless", len(stores) == 0)
            if "dtype" in clauses:
                cx.oblige(f"{tag}.dtype", v.dtype == J.dtype)
            if "shape" in clauses:
                cx.oblige(f"{tag}.shape", z3.And(len(v.shape_l) == 1, lift(v.shape_l[0]) == n) if len(v.shape_l) == 1 else False)
            if "post" in clauses:
                try:
                    cases = sp.spec(it, J, m, n, cfg, cx)
                except KeyError as ex:
                    # the specification is stated through a loop contract that was not exercised: only this clause is undecided
                    cx.oblige(f"{tag}.post", z3.BoolVal(False), undecided=str(ex))
                    return
                goal = z3.BoolVal(False)
                covered = []
                for cond, val in cases:
                    goal = z3.Or(goal, z3.And(cond, same_term(v, val)))
                    covered.append(cond)
                def _t(x):
                    return x.term if isinstance(x, ATen) else x
                cx.oblige(f"{tag}.post", goal, numeric={"code": v.term, "cases": [(c, val.term) for c, val in cases],
                                                       "call": {"cls": sp.cls, "kwargs": {k: _t(x) for k, x in kwargs.items()}, "input": "J"}})
                cx.oblige(f"{tag}.post.cases_cover", z3.Or(covered))
        H.explore(body)
    return Check(sp.name, [f"{sp.cls}.__init__"] + sp.funcs, fn, replay_keys=[prefix + "."], kind="P")


# ----------------------------------------------------------------------------- helpers for specs


def vecmat(it, w, J):
    with it.cx.mute():
        return S.matmul(it, w, J)


def no_cfg(cx, m, J):
    return {}, {}


def pref_cfg(with_pref):
    def config(cx, m, J):
        if not with_pref:
            return {"pref_vector": None}, {"pref": None}
        u, ulen = sym_vector(cx, "u", dtype=J.dtype)  # precondition: configured vectors have the dtype of the matrix
        return {"pref_vector": u}, {"pref": u, "plen": ulen}
    return config


def pref_valid(cx, J, m, n, cfg):
    return z3.BoolVal(True) if cfg.get("pref") is None else cfg["plen"] == m


TRUE = z3.BoolVal(True)


# ----------------------------------------------------------------------------- Mean / Sum / Constant / Random


def spec_mean(it, J, m, n, cfg, cx):
    return [(TRUE, vecmat(it, S.mean_weights(it, J), J))]


def spec_sum(it, J, m, n, cfg, cx):
    return [(TRUE, vecmat(it, S.sum_weights(it, J), J))]


def cfg_constant(cx, m, J):
    w, wl = sym_vector(cx, "w", dtype=J.dtype)
    return {"weights": w}, {"w": w, "wlen": wl}


def spec_constant(it, J, m, n, cfg, cx):
    return [(TRUE, vecmat(it, cfg["w"], J))]


def spec_random(it, J, m, n, cfg, cx):
    with cx.mute():
        r = mk("randn", [m, 0], [m], J.dtype)
        w = P.call(it, "torch.nn.functional.softmax", [r], {"dim": -1})
    return [(TRUE, vecmat(it, w, J))]


MEAN = AggSpec("Mean", f"{AGG}.mean.Mean", [f"{AGG}.mean._MeanWeighting.forward"] + BASE_FUNCS, no_cfg,
               lambda cx, J, m, n, cfg: TRUE, spec_mean)
SUM = AggSpec("Sum", f"{AGG}.sum.Sum", [f"{AGG}.sum._SumWeighting.forward"] + BASE_FUNCS, no_cfg,
              lambda cx, J, m, n, cfg: TRUE, spec_sum)
CONSTANT = AggSpec("Constant", f"{AGG}.constant.Constant", PREF_FUNCS[2:] + BASE_FUNCS, cfg_constant,
                   lambda cx, J, m, n, cfg: cfg["wlen"] == m, spec_constant)
RANDOM = AggSpec("Random", f"{AGG}.random.Random", [f"{AGG}.random._RandomWeighting.forward"] + BASE_FUNCS, no_cfg,
                 lambda cx, J, m, n, cfg: TRUE, spec_random)


# ----------------------------------------------------------------------------- IMTL-G


def spec_imtlg(it, J, m, n, cfg, cx):
    """v = pinv(J J^T) d, d = row norms; weights = v / sum(v), or 0 when sum(v) cancels relative to |v|
    (then the zero matrix gives the zero vector); ones(m) stands in for v when pinv fails [T: RuntimeError]."""
    B = S.B
    with cx.mute():
        d = P.call(it, "torch.linalg.norm", [J], {"dim": 1})
        G = S.matmul(it, J, transpose(J))
        pinv = mk("pinv", [G], [m, m], J.dtype)
        v_ok = S.matmul(it, pinv, d)
        v_fb = P.call(it, "torch.ones", [m], {"dtype": J.dtype})
        pinv_failed = z3.Bool("pinv.fails!0")
        cases = []
        for cond_v, v in ((z3.Not(pinv_failed), v_ok), (pinv_failed, v_fb)):
            vs = it.call(it.getattr(v, "sum"), [])
            av = it.call(it.getattr(it.call(it.getattr(v, "abs"), []), "sum"), [])
            x = item_of(vs)
            guard = z3.If(x >= 0, x, -x) <= z3.RealVal("1e-12") * item_of(av)
            zeros = P.call(it, "torch.zeros_like", [v], {})
            w1 = B(it, ast.Div(), v, vs)
            cases.append((z3.And(cond_v, guard), vecmat(it, zeros, J)))
            cases.append((z3.And(cond_v, z3.Not(guard)), vecmat(it, w1, J)))
    return cases


IMTLG = AggSpec("IMTLG", f"{AGG}.imtl_g.IMTLG", [f"{AGG}.imtl_g._IMTLGWeighting.forward"] + BASE_FUNCS, no_cfg,
                lambda cx, J, m, n, cfg: TRUE, spec_imtlg)


# ----------------------------------------------------------------------------- ConFIG


def spec_config(it, J, m, n, cfg, cx):
    B = S.B
    with cx.mute():
        w = cfg["pref"] if cfg.get("pref") is not None else S.sum_weights(it, J)
        norms = mk("rownorms", [J], [m], J.dtype)
        units = P.call(it, "torch.nan_to_num", [B(it, ast.Div(), J, it.call(it.getattr(norms, "unsqueeze"), [1])), 0.0], {})
        pinv = mk("pinv", [units], [n, m], J.dtype)
        bd = S.matmul(it, pinv, w)
        bdn = it.call(it.getattr(bd, "norm"), [])
        zero = item_of(bdn) == 0
        ut0 = P.call(it, "torch.zeros_like", [bd], {})
        ut1 = B(it, ast.Div(), bd, bdn)

        def out(ut):
            I0 = z3.Int("I0!canon")
            row = mk("row", [J, I0], [n], J.dtype)
            dots = S.matmul(it, row, ut)
            stk = ATen(U("stack_lam", ArrS, lift(m), dots.term), [m], J.dtype)
            length = P.call(it, "torch.sum", [stk], {})
            return B(it, ast.Mult(), length, ut)
        return [(zero, out(ut0)), (z3.Not(zero), out(ut1))]


def mk_config(with_pref):
    return AggSpec("ConFIG." + ("pref" if with_pref else "default"), f"{AGG}.config.ConFIG",
                   [f"{AGG}.config.ConFIG.forward", f"{AGG}.sum._SumWeighting.forward"] + PREF_FUNCS, pref_cfg(with_pref),
                   pref_valid, spec_config, weighted=False, ext_raises=("RuntimeError",), checks_finite=False)


# ----------------------------------------------------------------------------- Aligned-MTL


def spec_amtl(it, J, m, n, cfg, cx):
    B = S.B
    with cx.mute():
        w = cfg["pref"] if cfg.get("pref") is not None else S.mean_weights(it, J)
        M = S.matmul(it, J, transpose(J))
        eye = P.call(it, "torch.eye", [m], {"dtype": J.dtype})
        eigh_failed = z3.Bool("eigh.fails!0")
        lam = mk("eigh_vals", [M, "U"], [m], J.dtype)
        Vm = mk("eigh_vecs", [M, "U"], [m, m], J.dtype)
        tol = item_of(P.call(it, "torch.max", [lam], {})) * z3.ToReal(lift(m)) * U("finfo_eps", z3.RealSort())
        gt = P.compare(it, ast.Gt(), lam, scalar_aten(tol, J.dtype))
        rank = U("count_true", z3.IntSort(), gt.term)
        order = P.call(it, "torch.argsort", [lam], {"dim": -1, "descending": True})
        lam_s = P.getitem(it, P.getitem(it, lam, order), V.Slice(None, rank, None))
        V_s = P.getitem(it, P.getitem(it, Vm, (V.Slice(None, None, None), order)), (V.Slice(None, None, None), V.Slice(None, rank, None)))
        sig_inv = P.call(it, "torch.diag", [B(it, ast.Div(), 1, it.call(it.getattr(lam_s, "sqrt"), []))], {})
        lam_R = P.getitem(it, lam_s, -1)
        Bm = S.matmul(it, S.matmul(it, B(it, ast.Mult(), it.call(it.getattr(lam_R, "sqrt"), []), V_s), sig_inv), transpose(V_s))
        ident_case = z3.Or(eigh_failed, rank == 0)
        a_id = S.matmul(it, eye, w)
        a_b = S.matmul(it, Bm, w)
        return [(ident_case, vecmat(it, a_id, J)), (z3.Not(ident_case), vecmat(it, a_b, J))]


def mk_amtl(with_pref):
    return AggSpec("AlignedMTL." + ("pref" if with_pref else "default"), f"{AGG}.aligned_mtl.AlignedMTL",
                   [f"{AGG}.aligned_mtl._AlignedMTLWrapper.__init__", f"{AGG}.aligned_mtl._AlignedMTLWrapper.forward",
                    f"{AGG}.aligned_mtl._AlignedMTLWrapper._compute_balance_transformation",
                    f"{AGG}.mean._MeanWeighting.forward"] + PREF_FUNCS + BASE_FUNCS, pref_cfg(with_pref), pref_valid, spec_amtl)


SPECS = {"Mean": MEAN, "Sum": SUM, "Constant": CONSTANT, "Random": RANDOM, "IMTLG": IMTLG,
         "ConFIG.default": mk_config(False), "ConFIG.pref": mk_config(True),
         "AlignedMTL.default": mk_amtl(False), "AlignedMTL.pref": mk_amtl(True)}


# ============================================================================= aggregators with loops (sidecar loop contracts)

from tjv.pyvc.interp import LoopSpec  # noqa: E402
from tjv.pyvc.aten import Storage  # noqa: E402

AGG_LOOPS = {}


def _fresh_vec(cx, name, n, dtype):
    return ATen(cx.fresh_const(name, ArrS), [n], dtype, "torch")


# ----------------------------------------------------------------------------- GradDrop


def graddrop_summand(it, J, leak, fP, Urand, i):
    B = S.B
    with it.cx.mute():
        row = P.getitem(it, J, i)
        pos = P.compare(it, ast.Gt(), row, 0)
        neg = P.compare(it, ast.Lt(), row, 0)
        M = B(it, ast.Add(), B(it, ast.Mult(), P.compare(it, ast.Gt(), fP, Urand), pos), B(it, ast.Mult(), P.compare(it, ast.Lt(), fP, Urand), neg))
        li = P.getitem(it, leak, i)
        coef = B(it, ast.Add(), li, B(it, ast.Mult(), B(it, ast.Sub(), 1, li), M))
        return B(it, ast.Mult(), coef, row)


def graddrop_loop():
    """GradDrop.forward: for i in range(len(matrix)): vector += (leak[i] + (1 - leak[i]) * M_i) * matrix[i].
    Invariant: vector = PS(i), the i-th partial sum of the spec summands (PS(0) = 0, PS(i+1) = PS(i) + summand(i))."""
    def PS(cx):
        if "graddrop_PS" not in cx.ghost:
            cx.ghost["graddrop_PS"] = cx.fresh_func("PS", z3.IntSort(), ArrS)
        return cx.ghost["graddrop_PS"]

    def havoc(cx, frame, i):
        v = frame.vars["vector"]
        frame.vars["vector"] = ATen(cx.fresh_const("vector", ArrS), v.shape_l, v.dtype, v.kind)

    def inv(cx, frame, i):
        ps = PS(cx)
        it = cx.ghost["interp"]
        v = frame.vars["vector"]
        if "__zero__" not in frame.vars:
            frame.vars["__zero__"] = v.term  # the accumulator at loop entry (must be the zero vector: checked by .post)
            cx.ghost["graddrop_zero"] = v.term
        # defining equations of the partial sums (spec): PS(0) = zeros(n), PS(j+1) = PS(j) (+)= summand(j)
        n = frame.vars["matrix"].shape_l[1]
        cx.assume(ps(0) == U("zeros", ArrS, lift(n)), tag="partial sums (spec definition)")
        acc = ATen(ps(lift(i)), v.shape_l, v.dtype, v.kind)
        with cx.mute():
            sm = graddrop_summand(it, frame.vars["matrix"], frame.vars["leak"], frame.vars["fP"], frame.vars["U"], lift(i))
            nxt = P.binop(it, ast.Add(), acc, sm, inplace=True)
        cx.assume(ps(lift(i) + 1) == nxt.term, tag="partial sums (spec definition)")
        return [("partial_sum", v.term == ps(lift(i)))]
    return LoopSpec(havoc, inv)


AGG_LOOPS[(f"{AGG}.graddrop.GradDrop.forward", 0)] = graddrop_loop()


def spec_graddrop(it, J, m, n, cfg, cx):
    ps = cx.ghost.get("graddrop_PS")
    if ps is None and cx.feasible(z3.And(lift(m) != 0, lift(n) != 0)):
        # the specification is stated through the partial sums of the accumulation loop: without that loop (vectorised
        # code) this sidecar contract does not apply -> undecided, never a refutation
        raise KeyError("the accumulation loop of GradDrop.forward (sidecar loop contract) was not executed on this path")
    with cx.mute():
        empty = z3.Or(lift(m) == 0, lift(n) == 0)
        zeros = P.call(it, "torch.zeros", [n], {"dtype": J.dtype})
    cases = [(empty, zeros)]
    if ps is not None:
        cases.append((z3.Not(empty), ATen(ps(lift(m)), [n], J.dtype)))
    return cases


def cfg_graddrop(with_leak):
    def config(cx, m, J):
        # an arbitrary user-supplied purity transform f (elementwise, shape preserving)
        userf = V.SymMethod(lambda interp, Pm: mk("user_f", [Pm], Pm.shape_l, Pm.dtype))
        if not with_leak:
            return {"leak": None, "f": userf}, {"leak": None}
        lk, ln = sym_vector(cx, "leak")   # of ANY dtype: the result must still have the matrix's dtype (in-place accumulation)
        return {"leak": lk, "f": userf}, {"leak": lk, "llen": ln}
    return config


# ----------------------------------------------------------------------------- MGDA (Frank-Wolfe)


def mgda_axioms(cx, G: ATen, m):
    """Real vector algebra used by the Frank-Wolfe invariant [T] (each is a Mathlib fact about finite sums / bilinear
    forms; the PSD facts hold because G = J J^T: bridge lemmas fwGamma_*, mgda_step_descent, simplex_segment)."""
    x, y = z3.Const("x!q", ArrS), z3.Const("y!q", ArrS)
    p, q = z3.Real("p!q"), z3.Real("q!q")
    t = z3.Int("t!q")
    vsum = lambda a: U("vsum", z3.RealSort(), a)  # noqa: E731
    nonneg = lambda a: U("nonneg", z3.BoolSort(), a)  # noqa: E731
    comb = U("eadd", ArrS, U("smul", ArrS, p, x), U("smul", ArrS, q, y))
    zeros = U("zeros", ArrS, lift(m))
    onehot = U("setitem", ArrS, zeros, t, z3.RealVal(1))
    Gt = G.term
    bil = lambda a, b: U("item", z3.RealSort(), U("dot", ArrS, a, U("matvec", ArrS, Gt, b)))  # noqa: E731
    ax = [
        V.forall([p, x, q, y], vsum(comb) == p * vsum(x) + q * vsum(y), patterns=[vsum(comb)]),
        V.forall([p, x, q, y], z3.Implies(z3.And(p >= 0, q >= 0, nonneg(x), nonneg(y)), nonneg(comb)), patterns=[nonneg(comb)]),
        V.forall([t], z3.Implies(z3.And(0 <= t, t < lift(m)), z3.And(vsum(onehot) == 1, nonneg(onehot))), patterns=[onehot]),
        # quadratic form of a combination, and the PSD facts (Cauchy-Schwarz for the Gramian form)
        V.forall([p, x, q, y], bil(comb, comb) == p * p * bil(x, x) + 2 * p * q * bil(x, y) + q * q * bil(y, y), patterns=[bil(comb, comb)]),
        V.forall([x, y], z3.And(bil(x, x) >= 0, bil(x, y) * bil(x, y) <= bil(x, x) * bil(y, y), bil(x, y) == bil(y, x)),
                 patterns=[bil(x, y)]),
    ]
    uniform = U("sdiv", ArrS, U("ones", ArrS, lift(m)), z3.ToReal(lift(m)))
    ax.append(z3.Implies(lift(m) >= 1, z3.And(vsum(uniform) == 1, nonneg(uniform))))
    for a in ax:
        cx.assume(a, tag="real vector algebra / PSD bilinear form of the Gramian [T, Lean: simplex_segment, mgda_step_descent]")
    return vsum, nonneg, bil


def mgda_loop():
    """_frank_wolfe_solver loop.  Invariant: alpha is on the simplex (sum 1, entries >= 0), has length m, and
    alpha^T G alpha <= alpha0^T G alpha0 (the norm of the combination never increases)."""
    def havoc(cx, frame, i):
        a = frame.vars["alpha"]
        frame.vars["alpha"] = ATen(cx.fresh_const("alpha", ArrS), a.shape_l, a.dtype, a.kind)
        cx.ghost["mgda_alpha_exit"] = frame.vars["alpha"]
        frame.vars["__alpha_in__"] = frame.vars["alpha"].term

    def inv(cx, frame, i):
        G = frame.vars["gramian"]
        m = frame.vars["matrix"].shape_l[0]
        if "__mgda_ax__" not in frame.vars:
            frame.vars["__mgda_ax__"] = mgda_axioms(cx, G, m)
            frame.vars["__alpha0__"] = frame.vars["alpha"].term
            cx.ghost["mgda"] = (frame.vars["__mgda_ax__"], frame.vars["__alpha0__"], G)
        vsum, nonneg, bil = frame.vars["__mgda_ax__"]
        a = frame.vars["alpha"].term
        a0 = frame.vars["__alpha0__"]
        if all(k in frame.vars for k in ("a", "b", "c")):
            # [L] fwGamma_descent / mgda_step_descent (Lean), instantiated at this iteration's scalars: for a^2 <= b c,
            # b, c >= 0 and the exact line-search gamma:  (1-g)^2 b + 2 g (1-g) a + g^2 c <= b.  A valid scalar fact, so
            # it may be used both when the invariant is assumed and when it is asserted (keeps the nonlinear step easy).
            try:
                ra, rb, rc = as_real(frame.vars["a"]), as_real(frame.vars["b"]), as_real(frame.vars["c"])
                g = z3.If(rc <= ra, z3.RealVal(1), z3.If(rb <= ra, z3.RealVal(0), (rb - ra) / (rb + rc - 2 * ra)))
                cx.assume(z3.Implies(z3.And(ra * ra <= rb * rc, rb >= 0, rc >= 0),
                                     z3.And(0 <= g, g <= 1, (1 - g) * (1 - g) * rb + 2 * g * (1 - g) * ra + g * g * rc <= rb)),
                          tag="[L] fwGamma_mem_Icc, fwGamma_descent (Lean)")
                # GROUND instances of the (already assumed, quantified) quadratic-form axioms at this iteration's vectors: the
                # solver then only has linear reasoning left (robust under machine load; vp check 4 saw a timeout here)
                if "gamma" in frame.vars and "e_t" in frame.vars and "__alpha_in__" in frame.vars:
                    gq = as_real(frame.vars["gamma"])
                    xin, ye = frame.vars["__alpha_in__"], frame.vars["e_t"].term
                    pq = 1 - gq
                    comb = U("eadd", ArrS, U("smul", ArrS, z3.simplify(pq), xin), U("smul", ArrS, z3.simplify(gq), ye))
                    cx.assume(bil(comb, comb) == pq * pq * bil(xin, xin) + 2 * pq * gq * bil(xin, ye) + gq * gq * bil(ye, ye),
                              tag="ground instance of the quadratic-form expansion axiom")
                    cx.assume(z3.And(bil(xin, xin) >= 0, bil(ye, ye) >= 0, bil(xin, ye) * bil(xin, ye) <= bil(xin, xin) * bil(ye, ye),
                                     bil(xin, ye) == bil(ye, xin)), tag="ground instance of the PSD axioms")
                    rxa, rxb, rxc = bil(xin, ye), bil(xin, xin), bil(ye, ye)
                    gx = z3.If(rxc <= rxa, z3.RealVal(1), z3.If(rxb <= rxa, z3.RealVal(0), (rxb - rxa) / (rxb + rxc - 2 * rxa)))
                    cx.assume(z3.Implies(z3.And(rxa * rxa <= rxb * rxc, rxb >= 0, rxc >= 0),
                                         z3.And(0 <= gx, gx <= 1, (1 - gx) * (1 - gx) * rxb + 2 * gx * (1 - gx) * rxa + gx * gx * rxc <= rxb)),
                              tag="[L] fwGamma_descent (Lean) at the spec-level scalars")
            except Exception:  # noqa: BLE001
                pass
        return [("sum_is_one", vsum(a) == 1), ("nonnegative", nonneg(a)), ("norm_never_increases", bil(a, a) <= bil(a0, a0))]
    def post_body(cx, frame, i):
        """One iteration is an exact-line-search Frank-Wolfe step (Lean: IsFWStep / fwGamma_optimal, fw_rate):
        t = argmin(G alpha), alpha' = (1-gamma) alpha + gamma e_t with gamma minimising the quadratic on [0, 1]."""
        vsum, nonneg, bil = frame.vars["__mgda_ax__"]
        G = frame.vars["gramian"]
        m = frame.vars["matrix"].shape_l[0]
        ain = frame.vars["__alpha_in__"]
        t = U("argmin_i", z3.IntSort(), U("matvec", ArrS, G.term, ain))
        e = U("setitem", ArrS, U("zeros", ArrS, lift(m)), t, z3.RealVal(1))
        a, b, c = bil(ain, e), bil(ain, ain), bil(e, e)
        gamma = z3.If(c <= a, z3.RealVal(1), z3.If(b <= a, z3.RealVal(0), (b - a) / (b + c - 2 * a)))
        new = U("eadd", ArrS, U("smul", ArrS, 1 - gamma, ain), U("smul", ArrS, gamma, e))
        g = frame.vars["gamma"]
        return [("exact_line_search_step", z3.And(as_real(g) == gamma, frame.vars["alpha"].term == new))]
    return LoopSpec(havoc, inv, has_break=True, post_body=post_body)


AGG_LOOPS[(f"{AGG}.mgda._MGDAWeighting._frank_wolfe_solver", 0)] = mgda_loop()


def spec_mgda(it, J, m, n, cfg, cx):
    """MGDA: a convex combination of the rows (weights on the simplex) never longer than the initial (mean) one;
    the weights are whatever the Frank-Wolfe loop ends with (its invariant is the contract)."""
    return None


GRADDROP = {w: AggSpec("GradDrop." + ("leak" if w else "default"), f"{AGG}.graddrop.GradDrop",
                       [f"{AGG}.graddrop.GradDrop.forward", f"{AGG}.graddrop.GradDrop._check_matrix_has_enough_rows", f"{AGG}.graddrop._identity",
                        f"{AGG}.bases.Aggregator._check_is_matrix", f"{AGG}.bases.Aggregator._check_is_finite"],
                       cfg_graddrop(w), (lambda cx, J, m, n, cfg: z3.BoolVal(True) if cfg.get("leak") is None else cfg["llen"] == m),
                       spec_graddrop, weighted=False) for w in (False, True)}
SPECS["GradDrop.default"] = GRADDROP[False]
SPECS["GradDrop.leak"] = GRADDROP[True]


# ----------------------------------------------------------------------------- PCGrad


def pc_step(it, G: ATen, w: ATen, i, j_elem):
    """one projection step in weight space (spec): skip j = i; if <g_j, g_cur> = G[j].w < 0: w[j] -= G[j].w / G[j,j]"""
    cx = it.cx
    with cx.mute():
        j = j_elem.intval
        ip = S.matmul(it, P.getitem(it, G, j_elem), w)
        ipr = item_of(ip)
        gjj = item_of(P.getitem(it, G, (j_elem, j_elem)))
        cur = item_of(P.getitem(it, w, j_elem))
        upd = U("setitem", ArrS, w.term, j, z3.simplify(cur - ipr / gjj))
        return z3.If(j == lift(i), w.term, z3.If(ipr < 0, upd, w.term))


def pcgrad_loops():
    def fns(cx):
        if "pc_PC" not in cx.ghost:
            cx.ghost["pc_PC"] = cx.fresh_func("PC", z3.IntSort(), z3.IntSort(), ArrS)   # PC(i, k): row i after k projections
            cx.ghost["pc_W"] = cx.fresh_func("W", z3.IntSort(), ArrS)                    # W(i): sum of the first i projected rows
        return cx.ghost["pc_PC"], cx.ghost["pc_W"]

    # ---- outer loop (ordinal 0): for i in range(dimension)
    def o_havoc(cx, frame, i):
        w = frame.vars["weights"]
        frame.vars["weights"] = ATen(cx.fresh_const("weights", ArrS), w.shape_l, w.dtype, w.kind)
        cx.ghost["rng"] = z3.Int("rng0") + lift(i)  # one permutation is drawn per row
        cx.ghost["pc_outer_i"] = lift(i)

    def o_inv(cx, frame, i):
        PC, W = fns(cx)
        n = frame.vars["dimension"]
        w = frame.vars["weights"]
        if "pc_rng0" not in cx.ghost:
            cx.ghost["pc_rng0"] = True
            cx.assume(z3.Int("rng0") == lift(cx.ghost.get("rng", 0)) if not isinstance(cx.ghost.get("rng", 0), z3.ExprRef) else z3.BoolVal(True))
        cx.assume(W(0) == U("zeros", ArrS, lift(n)), tag="PCGrad spec recursion")
        cx.assume(W(lift(i) + 1) == U("eadd", ArrS, W(lift(i)), PC(lift(i), lift(n))), tag="PCGrad spec recursion")
        return [("partial_sum_of_projected_rows", w.term == W(lift(i)))]

    # ---- inner loop (ordinal 1): for j in permutation
    def i_havoc(cx, frame, k):
        c = frame.vars["current_weights"]
        frame.vars["current_weights"] = ATen(cx.fresh_const("cw", ArrS), c.shape_l, c.dtype, c.kind)

    def i_inv(cx, frame, k):
        PC, W = fns(cx)
        it = cx.ghost["interp"]
        i = frame.vars["i"]
        G = frame.vars["inner_products"]
        perm = frame.vars["permutation"]
        n = frame.vars["dimension"]
        cw = frame.vars["current_weights"]
        cx.assume(PC(lift(i), 0) == U("setitem", ArrS, U("zeros", ArrS, lift(n)), lift(i), z3.RealVal(1)), tag="PCGrad spec recursion")
        prev = ATen(PC(lift(i), lift(k)), cw.shape_l, cw.dtype, cw.kind)
        with cx.mute():
            jel = P.getitem(it, perm, lift(k))
        cx.assume(PC(lift(i), lift(k) + 1) == pc_step(it, G, prev, i, jel), tag="PCGrad spec recursion")
        return [("row_i_after_k_projections", cw.term == PC(lift(i), lift(k)))]
    return LoopSpec(o_havoc, o_inv), LoopSpec(i_havoc, i_inv)


_o, _i = pcgrad_loops()
AGG_LOOPS[(f"{AGG}.pcgrad._PCGradWeighting.forward", 0)] = _o
AGG_LOOPS[(f"{AGG}.pcgrad._PCGradWeighting.forward", 1)] = _i


def spec_pcgrad(it, J, m, n, cfg, cx):
    W = cx.ghost.get("pc_W")
    if W is None:
        raise KeyError("the projection loops of PCGrad (sidecar loop contracts) were not executed on this path")
    w = ATen(W(lift(m)), [m], J.dtype)
    return [(TRUE, vecmat(it, w, J))]


SPECS["PCGrad"] = AggSpec("PCGrad", f"{AGG}.pcgrad.PCGrad", [f"{AGG}.pcgrad._PCGradWeighting.forward"] + BASE_FUNCS, no_cfg,
                          lambda cx, J, m, n, cfg: TRUE, spec_pcgrad)


# ----------------------------------------------------------------------------- CAGrad


def spec_cagrad(it, J, m, n, cfg, cx):
    """CAGrad(c): with R R^T = NG(J, norm_eps) (R = U sqrt(S) from the SVD of the normalised Gramian), g0' = R^T 1/m,
    w_opt = the minimiser over the simplex of (R g0')^T w + c |g0'| |R^T w| (conic problem handed to CLARABEL [T]);
    weights = 1/m + (c |g0'| / |R^T w_opt|) w_opt, or 0 when |R^T w_opt| < norm_eps (stationarity)."""
    import numpy as _np  # noqa: F401
    B = S.B
    c, eps = cfg["c"], cfg["norm_eps"]
    small, g0, g1 = S.NG(it, J, eps)
    cases = []
    for cond, G in ((small, g0), (z3.Not(small), g1)):
        with cx.mute():
            cx.ghost["cvx_leaf_n"] = 0
            Um, Sv, _ = P.call(it, "torch.svd", [G], {})
            Rm = S.matmul(it, Um, P.call(it, "torch.diag", [it.call(it.getattr(Sv, "sqrt"), [])], {}))
            Ra = S.to_array64(Rm)
            ones = P.call(it, "numpy.ones", [m], {})
            g0r = B(it, ast.Div(), S.matmul(it, transpose(Ra), ones), m)
            sqrt_phi = B(it, ast.Mult(), c, P.call(it, "numpy.linalg.norm", [g0r, 2], {}))
            w = P.call(it, "cvxpy.Variable", [], {"shape": m})
            cost = B(it, ast.Add(), S.matmul(it, transpose(S.matmul(it, Ra, g0r)), w),
                     B(it, ast.Mult(), sqrt_phi, P.call(it, "cvxpy.norm", [S.matmul(it, transpose(Ra), w), 2], {})))
            prob = P.call(it, "cvxpy.Problem", [], {"objective": P.call(it, "cvxpy.Minimize", [cost], {}),
                                                    "constraints": [P.compare(it, ast.GtE(), w, 0), P.compare(it, ast.Eq(), P.call(it, "cvxpy.sum", [w], {}), 1)]})
            w_opt = ATen(U("ConicMin", ArrS, prob.term, w.term, lift("CLARABEL")), [m], S.F64, "numpy")
            gwn = P.call(it, "numpy.linalg.norm", [S.matmul(it, transpose(Ra), w_opt)], {})
            big = item_of(gwn) >= as_real(eps)
            wa = B(it, ast.Div(), P.call(it, "numpy.ones", [m], {}), m)
            wa = P.binop(it, ast.Add(), wa, B(it, ast.Mult(), B(it, ast.Div(), sqrt_phi, gwn), w_opt), inplace=True)
            w1 = it.call(it.getattr(P.call(it, "torch.from_numpy", [wa], {}), "to"), [], {"dtype": J.dtype})
            w0 = it.call(it.getattr(P.call(it, "torch.from_numpy", [P.call(it, "numpy.zeros", [m], {})], {}), "to"), [], {"dtype": J.dtype})
        cases.append((z3.And(cond, big), vecmat(it, w1, J)))
        cases.append((z3.And(cond, z3.Not(big)), vecmat(it, w0, J)))
    return cases


def cfg_cagrad(cx, m, J):
    c, eps = z3.Real("c"), z3.Real("norm_eps")
    cx.assume(z3.And(c >= 0, eps > 0))
    return {"c": c, "norm_eps": eps}, {"c": c, "norm_eps": eps}


SPECS["CAGrad"] = AggSpec("CAGrad", f"{AGG}.cagrad.CAGrad", [f"{AGG}.cagrad._CAGradWeighting.__init__", f"{AGG}.cagrad._CAGradWeighting.forward",
                                                            f"{AGG}._gramian_utils._compute_normalized_gramian"] + BASE_FUNCS,
                          cfg_cagrad, lambda cx, J, m, n, cfg: TRUE, spec_cagrad, ext_raises=("ValueError", "SolverError"))
