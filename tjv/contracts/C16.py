"""C16 — Byzantine-robust aggregators: argument plumbing of TrimmedMean and Krum [P].

Spec (from the property statement):
  TrimmedMean(b)(J)[c] = mean over i in [b, m-b) of sort_c(J)[i]         (m >= 2b+1)
  Krum(f,k)(J) weights = (1/k) * sum of one-hots of the k indices with the smallest score, where
      score_i = sum of the m-f-2 smallest distances from row i to the OTHER rows
              = (sum of the (m-f-2)+1 smallest entries of row i of cdist(J,J)) minus its smallest entry (the
                self-distance 0)  [bridge lemma self_distance_first, Lean]
  both reject matrices with too few rows: ValueError iff m < 2b+1, resp. m < f+3 or m < k.
"""
from __future__ import annotations

import z3

from tjv.pyvc.core import SymRaise
from tjv.pyvc.run import Check
from tjv.pyvc.values import lift
from .common import AGG, T, call_catch, finite, same_term, sym_matrix

TM = f"{AGG}.trimmed_mean.TrimmedMean"
KR = f"{AGG}.krum.Krum"
KW = f"{AGG}.krum._KrumWeighting"


def tm_ctor(H):
    def body(cx):
        it = H.interp(cx)
        b = z3.Int("b")
        kind, v = call_catch(lambda: it.call(H.repo.get(TM), [b]))
        if kind == "raise":
            cx.oblige("C16.tm.ctor.raises_only_if_negative", z3.And(b < 0, v.cls == "ValueError"))
        else:
            cx.oblige("C16.tm.ctor.accepts_only_nonnegative", b >= 0)
            cx.oblige("C16.tm.ctor.stores_trim_number", lift(v.attrs.get("trim_number")) == b)
    H.explore(body)


def tm_forward(H):
    def body(cx):
        it = H.interp(cx)
        b = z3.Int("b")
        cx.assume(b >= 0)
        agg = it.call(H.repo.get(TM), [b])
        J, (m, n) = sym_matrix(cx, "J")
        kind, v = call_catch(lambda: it.call(agg, [J]))
        valid = z3.And(m >= 2 * b + 1, finite(J))
        if kind == "raise":
            cx.oblige("C16.tm.reject.raises_only_if_invalid", z3.And(z3.Not(valid), v.cls == "ValueError"))
        else:
            cx.oblige("C16.tm.reject.accepts_only_valid", valid)
            srt = T(it, "torch.sort", J, dim=0)[0]
            nar = T(it, "torch.narrow", srt, dim=0, start=b, length=m - 2 * b)
            spec = T(it, "torch.sum", nar)  # placeholder replaced below
            spec = it.call(it.getattr(nar, "mean"), [], {"dim": 0})
            cx.oblige("C16.tm.args.post", same_term(v, spec),
                      numeric={"code": v.term, "cases": [(z3.BoolVal(True), spec.term)], "call": {"cls": TM, "kwargs": {"trim_number": b}, "input": "J"}})
            cx.oblige("C16.tm.args.kept_rows_positive", m - 2 * b >= 1)
    H.explore(body)


def tm_rank(H):
    for rank in (1, 3):
        def body(cx, rank=rank):
            it = H.interp(cx)
            b = z3.Int("b")
            cx.assume(b >= 0)
            agg = it.call(H.repo.get(TM), [b])
            J, dims = sym_matrix(cx, "J", rank=rank)
            kind, v = call_catch(lambda: it.call(agg, [J]))
            cx.oblige(f"C16.tm.reject.not_2d", kind == "raise" and v.cls == "ValueError")
        H.explore(body)


def krum_ctor(H):
    def body(cx):
        it = H.interp(cx)
        f, k = z3.Int("f"), z3.Int("k")
        kind, v = call_catch(lambda: it.call(H.repo.get(KR), [f, k]))
        ok = z3.And(f >= 0, k >= 1)
        if kind == "raise":
            cx.oblige("C16.krum.ctor.raises_only_if_bad", z3.And(z3.Not(ok), v.cls == "ValueError"))
        else:
            cx.oblige("C16.krum.ctor.accepts_only_good", ok)
            w = v.attrs["weighting"]
            cx.oblige("C16.krum.ctor.stores", z3.And(lift(w.attrs["n_byzantine"]) == f, lift(w.attrs["n_selected"]) == k))
    H.explore(body)


def krum_forward(H):
    def body(cx):
        it = H.interp(cx)
        f, k = z3.Int("f"), z3.Int("k")
        cx.assume(z3.And(f >= 0, k >= 1))
        agg = it.call(H.repo.get(KR), [f, k])
        J, (m, n) = sym_matrix(cx, "J")
        kind, v = call_catch(lambda: it.call(agg, [J]))
        valid = z3.And(m >= f + 3, m >= k, finite(J))
        if kind == "raise":
            cx.oblige("C16.krum.reject.raises_only_if_invalid", z3.And(z3.Not(valid), v.cls == "ValueError"))
            return
        cx.oblige("C16.krum.reject.accepts_only_valid", valid)
        # spec weights
        import ast as _ast
        from tjv.pyvc import prims as P
        from tjv.pyvc import values as V
        with cx.mute():
            D = P.call(it, "torch.cdist", [J, J], {"compute_mode": "donot_use_mm_for_euclid_dist"})
            q = m - f - 2  # number of nearest OTHER rows
            vals = P.call(it, "torch.topk", [D], {"k": q + 1, "largest": False})[0]
            others = P.getitem(it, vals, (V.Slice(None, None, None), V.Slice(1, None, None)))
            scores = it.call(it.getattr(others, "sum"), [], {"dim": 1})
            sel = P.call(it, "torch.topk", [scores], {"k": k, "largest": False})[1]
            oh = P.call(it, "torch.nn.functional.one_hot", [sel], {"num_classes": m})
            cnt = it.call(it.getattr(oh, "sum"), [], {"dim": 0})
            cnt = it.call(it.getattr(cnt, "to"), [], {"dtype": J.dtype})
            w = P.binop(it, _ast.Div(), cnt, k)
            spec = P.binop(it, _ast.MatMult(), w, J)
        cx.oblige("C16.krum.args.post", same_term(v, spec),
                  numeric={"code": v.term, "cases": [(z3.BoolVal(True), spec.term)],
                           "call": {"cls": KR, "kwargs": {"n_byzantine": f, "n_selected": k}, "input": "J"}})
        cx.oblige("C16.krum.args.neighbourhood_nonneg", q >= 1)
    H.explore(body)


CHECKS = [
    Check("tm.ctor", [f"{TM}.__init__"], tm_ctor, replay_keys=["C16.reject"]),
    Check("tm.forward", [f"{TM}.forward", f"{TM}._check_matrix_has_enough_rows", f"{AGG}.bases.Aggregator._check_is_matrix",
                         f"{AGG}.bases.Aggregator._check_is_finite"], tm_forward, replay_keys=["C16.tm", "C16.reject"]),
    Check("tm.rank", [f"{TM}.forward", f"{AGG}.bases.Aggregator._check_is_matrix"], tm_rank, replay_keys=["C16.reject"]),
    Check("krum.ctor", [f"{KW}.__init__", f"{KR}.__init__"], krum_ctor, replay_keys=["C16.reject"]),
    Check("krum.forward", [f"{KW}.forward", f"{KW}._check_matrix_shape", f"{AGG}.bases._WeightedAggregator.forward",
                           f"{AGG}.bases._WeightedAggregator.combine"], krum_forward, replay_keys=["C16.krum", "C16.reject"]),
]

TRUSTED = [
    "torch.sort / narrow / mean / topk / cdist / one_hot obey their pointwise documentation (primitive contracts [T])",
    "bridge lemma self_distance_first and trimmed_mean_bounds (Lean) turn the plumbing postcondition into the statement",
]

VALIDATE_ALGEBRAIC_PRIMS = True  # [V] the algebraic primitive contracts are sampled against real torch on every run
