"""C15 — each building-block transform computes its specified linear map, for all key counts and shapes [P]."""
from __future__ import annotations

import z3

from tjv.pyvc import prims as P
from tjv.pyvc import values as V
from tjv.pyvc.lten import LTen, Heap
from tjv.pyvc.run import Check
from tjv.pyvc.values import lift
from . import autojac as A
from .common import call_catch

TR = A.TR


def sym_gradients(cx, it, keys: V.SymSeq, name="g"):
    """A Gradients dict over `keys` with symbolic content (built through the REAL constructor)."""
    f = cx.fresh_func(name, A.TenS, A.IntS, A.RealS)
    # the dict's own insertion order is an ARBITRARY enumeration of the key set (not the order of `keys`)
    keys = A.arbitrary_order(cx, it, keys)
    m = V.SymMap(keys, lambda t: LTen(V.TRef(t).shape, lambda idx: f(t, idx[-1] if idx else z3.IntVal(0)), fresh=False))
    return it.call(it.repo.get(f"{TR}.tensor_dict.Gradients"), [m]), f


def init_check(H):
    def body(cx):
        it = H.interp(cx, loop_specs=A.LOOPS)
        T = A.tensor_list(cx, "T", distinct=None)
        tr = it.call(H.repo.get(f"{TR}.init.Init"), [T])
        empty = it.call(H.repo.get(f"{TR}.tensor_dict.EmptyTensorDict"), [])
        kind, out = call_catch(lambda: it.call(tr, [empty]))
        cx.oblige("C15.init.no_raise", kind == "return")
        if kind != "return":
            return
        cx.oblige("C15.init.type", out.cls.name == "Gradients")
        m = out.payload
        x = cx.fresh_const("x", A.TenS)
        c = cx.fresh_int("c")
        j = cx.fresh_int("jx")
        cx.assume(z3.And(0 <= j, j < T.length, x == T.get(j).ref))
        dom = P.map_dom(it, P.to_symmap(it, m))
        cx.oblige("C15.init.keys", dom(x))
        v = P.to_symmap(it, m).get(x)
        cx.oblige("C15.init.ones", z3.And(v.shape.eq(V.TRef(x).shape), v.elem([c]) == 1))
        y = cx.fresh_const("y", A.TenS)
        jq = z3.Int("j!q")
        cx.assume(V.forall([jq], z3.Implies(z3.And(0 <= jq, jq < T.length), T.get(jq).ref != y), patterns=[T.get(jq).ref]))
        cx.oblige("C15.init.no_other_key", z3.Not(dom(y)))
    H.explore(body)


def diag_check(H):
    def body(cx):
        it = H.interp(cx, loop_specs=A.LOOPS)
        T = A.tensor_list(cx, "T", distinct=True, min_len=0)
        kind, tr = call_catch(lambda: it.call(H.repo.get(f"{TR}.diagonalize.Diagonalize"), [T]))
        cx.oblige("C15.diag.ctor_no_raise", kind == "return")
        if kind != "return":
            return
        off = A.offsets(it, T)
        R = off.total()
        # generic key j, row r, flat position e inside the key
        j, r, e = cx.fresh_int("j"), cx.fresh_int("r"), cx.fresh_int("e")
        cx.assume(z3.And(0 <= j, j < T.length, 0 <= r, r < R, 0 <= e, e < A.numel(T.get(j).ref)))
        x = T.get(j).ref
        n_ev = len(cx.events)
        # the SAME transform object is applied twice, to two different dictionaries: a transform is a function of its input (an
        # iterator consumed by the first application, a cached result, ... would show in the second)
        for tag, nm in (("", "g"), (".second_application", "h")):
            g, gf = sym_gradients(cx, it, T, name=nm)
            kind, out = call_catch(lambda: it.call(tr, [g]))
            cx.oblige(f"C15.diag{tag}.no_raise", kind == "return", where=str(getattr(out, "where", None)) if kind == "raise" else None)
            if kind != "return":
                return
            cx.oblige(f"C15.diag{tag}.type", out.cls.name == "Jacobians")
            if isinstance(out.payload, dict) and not out.payload:
                cx.oblige(f"C15.diag{tag}.keys", T.length == 0)
                continue
            m = P.to_symmap(it, out.payload)
            cx.oblige(f"C15.diag{tag}.keys", P.map_dom(it, m)(x))
            v = m.get(x)
            cx.oblige(f"C15.diag{tag}.shape", z3.And(len(v.shape.lead) == 1, lift(v.shape.lead[0]) == R, v.shape.tail == V.TRef(x).shape.tail))
            # row r of key j holds, at position e, the gradient entry of scalar r if r is the scalar (j, e), else 0
            cx.oblige(f"C15.diag{tag}.post", v.elem([r, e]) == z3.If(r == off.off(j) + e, gf(x, e), 0))
        cx.oblige("C15.diag.application_is_stateless", not [ev for ev in cx.events[n_ev:] if ev[0] == "setattr" and ev[1]["obj"] is tr])
    H.explore(body)


CHECKS = [
    Check("init", [f"{TR}.init.Init.__init__", f"{TR}.init.Init._compute", f"{TR}.base.Transform.__call__",
                   f"{TR}.tensor_dict.TensorDict.__init__", f"{TR}.tensor_dict.TensorDict.check_keys_are",
                   f"{TR}.tensor_dict.TensorDict._check_all_pairs", f"{TR}.tensor_dict.Gradients._check_key_value_pair",
                   f"{TR}.tensor_dict._check_same_shape", f"{TR}.tensor_dict.EmptyTensorDict.__init__"], init_check,
          replay_keys=["C15.Init"]),
    Check("diag", [f"{TR}.diagonalize.Diagonalize.__init__", f"{TR}.diagonalize.Diagonalize._compute", f"{TR}._utils.ordered_set",
                   f"{TR}.tensor_dict.Jacobians._check_dict", f"{TR}.tensor_dict.Jacobians._check_key_value_pair",
                   f"{TR}.tensor_dict._check_values_have_unique_first_dim", f"{TR}.tensor_dict._check_value_has_jacobian_shape"],
          diag_check, replay_keys=["C15.Diagonalize"]),
]


# ----------------------------------------------------------------------------- Jac


def jac_setup(cx, it, H, retain=None, chunk=None):
    O = A.tensor_list(cx, "O", distinct=True, min_len=1, nonempty_numel=False)
    I = A.tensor_list(cx, "I", distinct=True, min_len=0)
    k = z3.Int("chunk")
    kn = z3.Bool("chunk_is_none")
    cx.assume(z3.Or(kn, k > 0))
    chunk = V.Opt(kn, k)
    rg = z3.Bool("retain_graph")
    jac = it.call(H.repo.get(f"{TR}.jac.Jac"), [O, I, chunk, rg])
    m = z3.Int("m")
    cx.assume(m >= 1)
    cots, cotf = A.cot_family(cx, O, m)
    return jac, O, I, chunk, rg, m, cots, cotf


def jac_check(H):
    from tjv.pyvc.core import PathEnd

    def ghost_obligations(cx, k, kn, rg, m, last):
        sweeps = [e for e in cx.events if e[0] == "sweep"]
        vmaps = [e for e in cx.events if e[0] == "vmap"]
        tag = "last" if last else "step"
        cx.oblige(f"C15.jac.ghost.{tag}.exactly_one_sweep", len(sweeps) == 1)
        for e in sweeps:
            rows = lift(e[1]["rows"])
            cx.oblige(f"C15.jac.ghost.{tag}.rows_at_most_chunk", z3.And(rows >= 1, z3.Implies(z3.Not(kn), rows <= k), rows <= m))
            if last:
                cx.oblige("C15.jac.ghost.last.uses_callers_retain_flag", lift(e[1]["retain"]) == rg)
            else:
                cx.oblige("C15.jac.ghost.step.retains_graph", lift(e[1]["retain"]) == True)  # noqa: E712
                cx.oblige("C15.jac.ghost.step.full_chunk", rows == k)
            cx.oblige(f"C15.jac.ghost.{tag}.no_create_graph", e[1]["create_graph"] is False)
        for e in vmaps:
            cx.oblige(f"C15.jac.ghost.{tag}.vmap_only_for_several_rows", lift(e[1]["batch"]) > 1)
            cx.oblige(f"C15.jac.ghost.{tag}.vmap_one_batched_sweep", lift(e[1]["chunk_size"]) == lift(e[1]["batch"]))
        cx.oblige(f"C15.jac.ghost.{tag}.at_most_one_vmap", len(vmaps) <= 1)

    def body(cx):
        it = H.interp(cx, loop_specs=A.LOOPS, overrides=A.OVERRIDES)
        jac, O, I, chunk, rg, m, cots, cotf = jac_setup(cx, it, H)
        k, kn = chunk.value, chunk.is_none
        try:
            kind, out = call_catch(lambda: it.call(it.getattr(jac, "_differentiate"), [cots]))
        except PathEnd:
            ghost_obligations(cx, k, kn, rg, m, last=False)
            raise
        cx.oblige("C15.jac.no_raise", kind == "return", where=str(getattr(out, "where", "")))
        if kind != "return":
            return
        nI = I.length
        if isinstance(out, tuple):
            cx.oblige("C15.jac.empty_inputs_give_empty_tuple", z3.And(nI == 0, len(out) == 0))
            return
        ghost_obligations(cx, k, kn, rg, m, last=True)
        cx.oblige("C15.jac.one_result_per_input", lift(out.length) == nI)
        kk, r, c = cx.fresh_int("k"), cx.fresh_int("r"), cx.fresh_int("c")
        cx.assume(z3.And(0 <= kk, kk < nI, 0 <= r, r < m, 0 <= c, c < A.numel(I.get(kk).ref)))
        v = out.get(kk)
        cx.oblige("C15.jac.shape", z3.And(len(v.shape.lead) == 1, lift(v.shape.lead[0]) == m, v.shape.tail == I.get(kk).shape.tail))
        cx.oblige("C15.jac.post", v.elem([r, c]) == A.jac_spec_row(cx, O, I, cots, r, kk, c))
    H.explore(body)


CHECKS.append(Check("jac", [f"{TR}.jac.Jac.__init__", f"{TR}.jac.Jac._differentiate", f"{TR}.jac._get_jac_matrix_chunk",
                            f"{TR}.jac._extract_sub_matrices", f"{TR}.jac._reshape_matrices",
                            f"{TR}._differentiate._Differentiate.__init__", f"{TR}._utils.ordered_set"], jac_check,
                    replay_keys=["C15.Jac", "C07", "C13"]))


# ----------------------------------------------------------------------------- Aggregate (isolated, vs. spec_aggregate)


def aggregate_check(H):
    from tjv.pyvc.lten import AbstractAgg

    def body(cx):
        it = H.interp(cx, loop_specs=A.LOOPS, overrides=A.OVERRIDES)
        K = A.tensor_list(cx, "K", distinct=True)
        agg = AbstractAgg(cx, may_raise=True)
        kind, tr = call_catch(lambda: it.call(H.repo.get(f"{TR}.aggregate.Aggregate"), [agg, K]))
        cx.oblige("C15.aggregate.ctor_no_raise", kind == "return")
        if kind != "return":
            return
        m = z3.Int("m")
        cx.assume(m >= 0)
        jf = cx.fresh_func("jac", A.TenS, A.IntS, A.IntS, A.RealS)
        order = A.arbitrary_order(cx, it, K)
        jm = V.SymMap(order, lambda t: LTen(V.Shape([m], V.TRef(t).shape.tail), lambda ix, t=t: jf(t, ix[0], ix[1]), fresh=False))
        jac = it.call(H.repo.get(f"{TR}.tensor_dict.Jacobians"), [jm])
        kind, out = call_catch(lambda: it.call(tr, [jac]))
        rejected = [e for e in cx.events if e[0] == "agg_reject"]
        if kind == "raise":
            cx.oblige("C15.aggregate.raises_only_if_aggregator_rejects", len(rejected) == 1 and out.cls == "ValueError")
            return
        n = K.length
        if not agg.calls:
            cx.oblige("C15.aggregate.aggregator_skipped_only_without_keys", n == 0)
            cx.oblige("C15.aggregate.empty_result_without_keys", out.cls.name == "EmptyTensorDict")
            return
        cx.oblige("C15.aggregate.aggregator_called_once", len(agg.calls) == 1)
        cx.oblige("C15.aggregate.aggregator_is_called_not_its_forward", not [e for e in cx.events if e[0] == "agg_forward_called_directly"])
        cx.oblige("C15.aggregate.type", out.cls.name == "Gradients")
        M, aggout = agg.calls[0]
        offK = A.offsets(it, K)
        # aggregator input: column block i (in key_order = K) is the matrixified jacobian of key K[i]
        i, r, c = cx.fresh_int("i"), cx.fresh_int("r"), cx.fresh_int("c")
        cx.assume(z3.And(0 <= i, i < n, 0 <= r, r < m, 0 <= c, c < A.numel(K.get(i).ref)))
        cx.oblige("C15.aggregate.input_shape", z3.And(lift(M.shape.lead[0]) == m, lift(M.shape.lead[1]) == offK.total()))
        cx.oblige("C15.aggregate.input_post", M.elem([r, offK.off(i) + c]) == jf(K.get(i).ref, r, c))
        # output: key K[i] gets its own slice, reshaped to its shape
        om = P.to_symmap(it, out.payload)
        x = K.get(i).ref
        cx.oblige("C15.aggregate.keys", P.map_dom(it, om)(x))
        v = om.get(x)
        cx.oblige("C15.aggregate.output_shape", v.shape.eq(V.TRef(x).shape))
        cx.oblige("C15.aggregate.output_post", v.elem([c]) == aggout(offK.off(i) + c))
    H.explore(body, max_paths=3000)


CHECKS.append(Check("aggregate", [f"{TR}.aggregate.Aggregate.__init__", f"{TR}.aggregate.Aggregate._compute",
                                  f"{TR}.aggregate._Matrixify.__init__", f"{TR}.aggregate._Matrixify._compute",
                                  f"{TR}.aggregate._AggregateMatrices.__init__", f"{TR}.aggregate._AggregateMatrices._compute",
                                  f"{TR}.aggregate._AggregateMatrices._select_ordered_subdict",
                                  f"{TR}.aggregate._AggregateMatrices._aggregate_group", f"{TR}.aggregate._AggregateMatrices._unite",
                                  f"{TR}.aggregate._AggregateMatrices._disunite", f"{TR}.aggregate._Reshape.__init__",
                                  f"{TR}.aggregate._Reshape._compute", f"{TR}.base.Composition.__init__",
                                  f"{TR}.base.Composition._compute", f"{TR}.tensor_dict.JacobianMatrices._check_key_value_pair",
                                  f"{TR}.tensor_dict.GradientVectors._check_key_value_pair",
                                  f"{TR}.tensor_dict._check_value_n_dim", f"{TR}.tensor_dict._check_corresponding_numel"],
                    aggregate_check, replay_keys=["C15.Aggregate", "C01."]))


from . import theory as _theory  # noqa: E402
CHECKS += list(_theory.CHECKS)


# ----------------------------------------------------------------------------- Grad / Select / Stack


def grad_check(H):
    def body(cx):
        it = H.interp(cx, loop_specs=A.LOOPS, overrides=A.OVERRIDES)
        O = A.tensor_list(cx, "O", distinct=True, min_len=0)
        I = A.tensor_list(cx, "I", distinct=True, min_len=0)
        rg = z3.Bool("retain_graph")
        g = it.call(H.repo.get(f"{TR}.grad.Grad"), [O, I, rg])
        cotf = cx.fresh_func("cot", A.IntS, A.IntS, A.RealS)
        cots = V.SymSeq(O.length, lambda j: LTen(O.get(j).shape, lambda ix, j=j: cotf(lift(j), ix[0]), fresh=False))
        kind, out = call_catch(lambda: it.call(it.getattr(g, "_differentiate"), [cots]))
        cx.oblige("C15.grad.no_raise", kind == "return", where=str(getattr(out, "where", "")))
        if kind != "return":
            return
        sweeps = [e for e in cx.events if e[0] == "sweep"]
        if isinstance(out, tuple):
            cx.oblige("C15.grad.empty_inputs_give_empty_tuple", z3.And(I.length == 0, len(out) == 0, len(sweeps) == 0))
            return
        o = P.as_symseq(it, out)
        cx.oblige("C15.grad.one_result_per_input", lift(o.length) == I.length)
        k, c = cx.fresh_int("k"), cx.fresh_int("c")
        cx.assume(z3.And(0 <= k, k < I.length, 0 <= c, c < A.numel(I.get(k).ref)))
        cx.oblige("C15.grad.shape", o.get(k).shape.eq(I.get(k).shape))
        if not sweeps:
            cx.oblige("C15.grad.no_sweep_only_without_outputs", O.length == 0)
            # the vector-Jacobian product over an empty set of outputs is the empty sum
            cx.oblige("C15.grad.no_outputs_gives_zeros", o.get(k).elem([c]) == 0)
            return
        cx.oblige("C15.grad.ghost.single_sweep_with_callers_flag", z3.And(len(sweeps) == 1, lift(sweeps[0][1]["retain"]) == rg,
                                                                          sweeps[0][1]["create_graph"] is False))
        from tjv.pyvc.lten import DJ, _outs_handle, delta_sum
        from tjv.pyvc.values import U
        h, _ = _outs_handle(it, O)
        offO = A.offsets(it, O)
        x = I.get(k).ref
        want = z3.If(U("unreachable", z3.BoolSort(), h, x), 0,
                     delta_sum(cx, offO.total(), lambda rp: cotf(offO.blk(rp), rp - offO.off(offO.blk(rp))) * DJ(h, rp, x, c)))
        cx.oblige("C15.grad.post", o.get(k).elem([c]) == want)
    H.explore(body)


def select_compute_check(H):
    def body(cx):
        it = H.interp(cx, loop_specs=A.LOOPS, overrides=A.OVERRIDES)
        R = A.tensor_list(cx, "R", distinct=True)
        # keys: an arbitrary sub-sequence of R given by a membership predicate
        sel = V.SymSet(cx, "sel")
        tq = z3.Const("t!q", A.TenS)
        SR = P.lift_set(it, P.set_from_seq(it, R))
        cx.assume(V.forall([tq], z3.Implies(sel.contains(tq), SR.contains(tq))))
        s = it.call(H.repo.get(f"{TR}.select.Select"), [sel, R])
        g, gf = sym_gradients(cx, it, R)
        kind, out = call_catch(lambda: it.call(s, [g]))
        cx.oblige("C15.select.no_raise", kind == "return", where=str(getattr(out, "where", "")))
        if kind != "return":
            return
        cx.oblige("C15.select.type_preserved", out.cls.name == "Gradients")
        x, c = cx.fresh_const("x", A.TenS), cx.fresh_int("c")
        if isinstance(out.payload, dict) and not out.payload:
            cx.oblige("C15.select.keys", z3.Not(sel.contains(x)))
            return
        om = P.to_symmap(it, out.payload)
        cx.oblige("C15.select.keys", P.map_dom(it, om)(x) == sel.contains(x))
        cx.oblige("C15.select.post", z3.Implies(sel.contains(x), om.get(x).elem([c]) == gf(x, c)))
    H.explore(body)


def stack_check(t):
    def fn(H):
        def body(cx):
            it = H.interp(cx, loop_specs=A.LOOPS, overrides=A.OVERRIDES)
            Ks = [A.tensor_list(cx, f"K{i}", distinct=True) for i in range(t)]
            ds, gfs = [], []
            for i in range(t):
                d, gf = sym_gradients(cx, it, Ks[i], name=f"g{i}")
                ds.append(d)
                gfs.append(gf)
            kind, out = call_catch(lambda: it.call(H.repo.get(f"{TR}.stack._stack"), [list(ds)]))
            cx.oblige(f"C15.stack{t}.no_raise", kind == "return", where=str(getattr(out, "where", "")))
            if kind != "return":
                return
            cx.oblige(f"C15.stack{t}.type", out.cls.name == "Jacobians")
            x, c = cx.fresh_const("x", A.TenS), cx.fresh_int("c")
            member = [P.map_dom(it, V.SymMap(Ks[i], lambda tt: None))(x) for i in range(t)]
            if isinstance(out.payload, dict) and not out.payload:
                cx.oblige(f"C15.stack{t}.keys", z3.Not(z3.Or(member)))
                return
            om = P.to_symmap(it, out.payload)
            cx.oblige(f"C15.stack{t}.keys", P.map_dom(it, om)(x) == z3.Or(member))
            cx.assume(z3.Or(member))
            v = om.get(x)
            cx.oblige(f"C15.stack{t}.shape", z3.And(len(v.shape.lead) == 1, lift(v.shape.lead[0]) == t, v.shape.tail == V.TRef(x).shape.tail))
            for i in range(t):
                cx.oblige(f"C15.stack{t}.row{i}_comes_from_dict{i}", v.elem([z3.IntVal(i), c]) == z3.If(member[i], gfs[i](x, c), 0))
        H.explore(body, max_paths=3000)
    return Check(f"stack{t}", [f"{TR}.stack._stack", f"{TR}.stack._stack_one_key", f"{TR}._utils.dicts_union"], fn, replay_keys=["C15.Stack", "C02."])


CHECKS += [
    Check("grad", [f"{TR}.grad.Grad.__init__", f"{TR}.grad.Grad._differentiate"], grad_check, replay_keys=["C15.Grad"]),
    Check("select", [f"{TR}.select.Select.__init__", f"{TR}.select.Select._compute"], select_compute_check, replay_keys=["C15.Select"]),
    stack_check(2), stack_check(3),
]

VALIDATE_LAYOUT_PRIMS = True  # [V] the layout primitive contracts are sampled against real torch on every run


# ----------------------------------------------------------------------------- Conjunction._compute / Stack._compute


def _members(cx, it, H, k, name):
    """k abstract member transforms sharing one required key set, with pairwise disjoint duplicate-free output key lists; the
    i-th returns a fixed Gradients dictionary g_i over its output keys (built through the real constructor)."""
    from tjv.pyvc.interp import SymObj
    from .C02 import disjoint_seqs
    req = V.SymSet(cx, f"{name}.req")
    Ks = [A.tensor_list(cx, f"{name}.K{i}", distinct=True) for i in range(k)]
    members, gfs = [], []
    for i in range(k):
        d, gf = sym_gradients(cx, it, Ks[i], name=f"{name}.g{i}")
        o = SymObj(H.repo.get(f"{TR}.base.Transform"))
        o.attrs["required_keys"] = req
        o.attrs["output_keys"] = P.lift_set(it, P.set_from_seq(it, Ks[i]))
        o.calls = []

        def compute(interp, inp, o=o, d=d):
            o.calls.append(inp)
            return d
        o.attrs["_compute"] = V.SymMethod(compute)
        members.append(o)
        gfs.append(gf)
    x = it.call(H.repo.get(f"{TR}.tensor_dict.TensorDict"), [V.SymMap(req.seq(cx), lambda t: LTen(V.TRef(t).shape, lambda ix: z3.RealVal(0)))])
    return req, Ks, members, gfs, x


def conj_compute_check(k):
    def fn(H):
        def body(cx):
            from .C02 import disjoint_seqs
            it = H.interp(cx, loop_specs=A.LOOPS, overrides=A.OVERRIDES)
            req, Ks, members, gfs, x = _members(cx, it, H, k, "cj")
            for i in range(k):
                for j in range(i + 1, k):
                    disjoint_seqs(cx, Ks[i], Ks[j])
            kind, c = call_catch(lambda: it.call(H.repo.get(f"{TR}.base.Conjunction"), [list(members)]))
            cx.oblige(f"C15.conj{k}.well_formed_members_are_accepted", kind == "return", where=str(getattr(c, "where", "")))
            if kind != "return":
                return
            n_ev = len(cx.events)
            kind, out = call_catch(lambda: it.call(c, [x]))
            cx.oblige(f"C15.conj{k}.no_raise", kind == "return", where=str(getattr(out, "where", "")))
            if kind != "return":
                return
            # applying a transform stores nothing into it (what it returns may not depend on earlier applications)
            cx.oblige(f"C15.conj{k}.application_is_stateless", not [e for e in cx.events[n_ev:] if e[0] == "setattr" and e[1]["obj"] is c])
            cx.oblige(f"C15.conj{k}.each_member_runs_once_on_the_input", all(len(m.calls) == 1 and m.calls[0] is x for m in members))
            cx.oblige(f"C15.conj{k}.type", out.cls.name == "Gradients")
            y, cc = cx.fresh_const("y", A.TenS), cx.fresh_int("c")
            member = [P.map_dom(it, V.SymMap(Ks[i], lambda tt: None))(y) for i in range(k)]
            if isinstance(out.payload, dict) and not out.payload:
                cx.oblige(f"C15.conj{k}.keys", z3.Not(z3.Or(member)))
                return
            om = P.to_symmap(it, out.payload)
            cx.oblige(f"C15.conj{k}.keys", P.map_dom(it, om)(y) == z3.Or(member))
            cx.assume(z3.Or(member))
            v = om.get(y)
            for i in range(k):
                cx.oblige(f"C15.conj{k}.value_comes_from_member{i}", z3.Implies(member[i], v.elem([cc]) == gfs[i](y, cc)))
        H.explore(body, max_paths=3000)
    return Check(f"conj_compute{k}", [f"{TR}.base.Conjunction._compute", f"{TR}._utils._union", f"{TR}.base.Transform.__call__"], fn,
                 replay_keys=["C15.", "C14.conjunction"])


def stack_compute_check(k):
    def fn(H):
        def body(cx):
            it = H.interp(cx, loop_specs=A.LOOPS, overrides=A.OVERRIDES)
            req, Ks, members, gfs, x = _members(cx, it, H, k, "st")
            kind, s = call_catch(lambda: it.call(H.repo.get(f"{TR}.stack.Stack"), [list(members)]))
            cx.oblige(f"C15.stackc{k}.members_with_one_required_set_are_accepted", kind == "return", where=str(getattr(s, "where", "")))
            if kind != "return":
                return
            n_ev = len(cx.events)
            kind, out = call_catch(lambda: it.call(s, [x]))
            cx.oblige(f"C15.stackc{k}.no_raise", kind == "return", where=str(getattr(out, "where", "")))
            if kind != "return":
                return
            cx.oblige(f"C15.stackc{k}.application_is_stateless", not [e for e in cx.events[n_ev:] if e[0] == "setattr" and e[1]["obj"] is s])
            cx.oblige(f"C15.stackc{k}.each_member_runs_once_on_the_input", all(len(m.calls) == 1 and m.calls[0] is x for m in members))
            cx.oblige(f"C15.stackc{k}.type", out.cls.name == "Jacobians")
            y, cc = cx.fresh_const("y", A.TenS), cx.fresh_int("c")
            member = [P.map_dom(it, V.SymMap(Ks[i], lambda tt: None))(y) for i in range(k)]
            if isinstance(out.payload, dict) and not out.payload:
                cx.oblige(f"C15.stackc{k}.keys", z3.Not(z3.Or(member)))
                return
            om = P.to_symmap(it, out.payload)
            cx.oblige(f"C15.stackc{k}.keys", P.map_dom(it, om)(y) == z3.Or(member))
            cx.assume(z3.Or(member))
            v = om.get(y)
            cx.oblige(f"C15.stackc{k}.shape", z3.And(len(v.shape.lead) == 1, lift(v.shape.lead[0]) == k, v.shape.tail == V.TRef(y).shape.tail))
            for i in range(k):
                cx.oblige(f"C15.stackc{k}.row{i}_comes_from_member{i}", v.elem([z3.IntVal(i), cc]) == z3.If(member[i], gfs[i](y, cc), 0))
        H.explore(body, max_paths=3000)
    return Check(f"stack_compute{k}", [f"{TR}.stack.Stack._compute", f"{TR}.stack._stack", f"{TR}.base.Transform.__call__"], fn,
                 replay_keys=["C15.Stack", "C02."])


CHECKS += [conj_compute_check(2), stack_compute_check(2)]
