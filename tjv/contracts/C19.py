"""C19 — NashMTL's state: reset() means fresh, weights are reused as scheduled [P].

  reset.fields   reset() stores, into the same fields, exactly the values __init__ stores (prvs_alpha_param,
                 normalization_factor, init_gtg, step, prvs_alpha), and nothing else
  dead.fields    with step = 0, forward reads none of the solver fields (alpha_param, G_param,
                 normalization_factor_param, phi_alpha, prob, prvs_alpha_param) before _init_optim_problem has
                 rewritten them — so they cannot carry state across a reset
  step           forward increments step by exactly one on every path; it recomputes (calls _solve_optimization) iff
                 step % update_weights_every == 0 and otherwise reuses the stored prvs_alpha unchanged
  kinds          every `@`, torch.from_numpy, torch.linalg.norm operand has the right library kind on every path
                 (the former TypeError of the reuse branch)
  maxnorm        when max_norm > 0 and |alpha @ J| > max_norm the weights are alpha / |alpha @ J| * max_norm
                 (so the returned vector has norm max_norm by homogeneity of the norm [T])
  solve          _solve_optimization against the contract forward's verification applies at its call site (loop invariant:
                 alpha_t is an ndarray of n_tasks entries and never None; frame: prvs_alpha only; result is the stored object)
  outer          NashMTL.__init__ / NashMTL.reset: parameters passed through unpermuted, reset reaches the weighting
_solve_optimization and _init_optim_problem are abstracted by their contracts when forward is verified (they return /
store solver objects; the ECOS iterations themselves are [T]); the former contract is itself proved (solve), the latter is
executed for n_tasks = 2 (dead_fields)."""
from __future__ import annotations

import ast

import z3

from tjv.pyvc import prims as P
from tjv.pyvc import values as V
from tjv.pyvc.aten import ATen, as_real, item_of, mk
from tjv.pyvc.interp import SymObj
from tjv.pyvc.run import Check
from tjv.pyvc.values import ArrS, U, lift
from . import specs as S
from .common import AGG, call_catch, same_term, sym_matrix

NW = f"{AGG}.nash_mtl._NashMTLWeighting"
RESET_FIELDS = ["prvs_alpha_param", "normalization_factor", "init_gtg", "step", "prvs_alpha"]
SOLVER_FIELDS = ["alpha_param", "G_param", "normalization_factor_param", "phi_alpha", "prob", "prvs_alpha_param"]


def val_eq(a, b):
    if a is None or b is None:
        return a is None and b is None
    if isinstance(a, ATen) and isinstance(b, ATen):
        return z3.And(same_term(a, b), a.kind == b.kind, a.dtype == b.dtype)
    if isinstance(a, (int, float)) and isinstance(b, (int, float)):
        return a == b and type(a) is type(b)
    return lift(a) == lift(b)


def mk_weighting(cx, it, H):
    n, k, niter = z3.Int("n_tasks"), z3.Int("update_weights_every"), z3.Int("optim_niter")
    mx = z3.Real("max_norm")
    cx.assume(z3.And(n >= 1, k >= 1, niter >= 0))
    w = it.call(H.repo.get(NW), [], {"n_tasks": n, "max_norm": mx, "update_weights_every": k, "optim_niter": niter})
    return w, n, k, niter, mx


def reset_check(H):
    def body(cx):
        it = H.interp(cx)
        w, n, k, niter, mx = mk_weighting(cx, it, H)
        init_vals = {f: w.attrs.get(f, "<unset>") for f in RESET_FIELDS}
        cfg = {f: w.attrs[f] for f in ("n_tasks", "optim_niter", "update_weights_every", "max_norm")}
        # arbitrary state: every mutable field is clobbered
        for f in RESET_FIELDS:
            w.attrs[f] = ATen(cx.fresh_const("junk_" + f, ArrS), [z3.Int("junk_len_" + f)], z3.Const("junk_dt", V.DtypeS), "numpy")
        n_ev = len(cx.events)
        it.call(it.getattr(w, "reset"), [])
        stores = [e[1]["name"] for e in cx.events[n_ev:] if e[0] == "setattr" and e[1]["obj"] is w]
        cx.oblige("C19.reset.fields.stores_exactly_the_constructor_state", sorted(stores) == sorted(RESET_FIELDS))
        for f in RESET_FIELDS:
            cx.oblige(f"C19.reset.fields.{f}", val_eq(w.attrs.get(f), init_vals[f]) if init_vals[f] != "<unset>" else False)
        for f, v in cfg.items():
            cx.oblige(f"C19.reset.keeps_parameter.{f}", w.attrs[f] is v)
    H.explore(body)


def forward_check(H):
    def body(cx):
        calls = {"solve": [], "init": 0, "reads_before_init": []}

        def solve_contract(interp, args, kwargs):
            self, gtg = args[0], args[1]
            calls["solve"].append(gtg)
            if not (isinstance(gtg, ATen) and gtg.kind == "numpy"):
                interp.cx.oblige("C19.kinds.solve_gets_ndarray", False)
            n = self.attrs["n_tasks"]
            # exactly the contract proved for the real function by C19.solve.*: an ndarray of n_tasks entries (of SOME dtype:
            # the float32 initial weights or a float64 solution), left in self.prvs_alpha
            res = ATen(interp.cx.fresh_const("alpha_solved", ArrS), [n], interp.cx.fresh_const("alpha_solved_dt", V.DtypeS), "numpy")
            interp.setattr(self, "prvs_alpha", res)
            return res

        def init_contract(interp, args, kwargs):
            self = args[0]
            calls["init"] += 1
            for f in SOLVER_FIELDS:
                interp.setattr(self, f, ATen(interp.cx.fresh_const("solver_" + f, ArrS), [], P.F64, "cvxpy"))
            return None
        it = H.interp(cx, overrides={f"{NW}._solve_optimization": solve_contract, f"{NW}._init_optim_problem": init_contract})
        w, n, k, niter, mx = mk_weighting(cx, it, H)
        # arbitrary reachable state: step is a whole number >= 0 [T: float counter incremented by 1.0], prvs_alpha an ndarray
        step_i = z3.Int("step_int")
        cx.assume(step_i >= 0)
        w.attrs["step"] = z3.ToReal(step_i)
        from tjv.pyvc.aten import Storage
        # the stored weights are aggregator STATE: an in-place operation on (a view of) them is a frame violation
        w.attrs["prvs_alpha"] = ATen(z3.Const("prvs_alpha", ArrS), [n], z3.Const("prvs_dtype", V.DtypeS), "numpy",
                                     storage=Storage(is_input=True, label="state.prvs_alpha"))
        for f in SOLVER_FIELDS:
            w.attrs[f] = ATen(cx.fresh_const("stale_" + f, ArrS), [], P.F64, "cvxpy")
        J, (m, nn) = sym_matrix(cx, "J")
        cx.assume(m == n)
        stored = w.attrs["prvs_alpha"]
        n_ev = len(cx.events)
        kind, out = call_catch(lambda: it.call(it.getattr(w, "forward"), [J]))
        cx.oblige("C19.forward.every_call_succeeds", kind == "return", where=str(getattr(out, "where", "")))
        if kind != "return":
            return
        recompute = (step_i % k) == 0
        cx.oblige("C19.step.increments_by_one", as_real(w.attrs["step"]) == z3.ToReal(step_i) + 1)
        cx.oblige("C19.step.recomputes_iff_scheduled", recompute if calls["solve"] else z3.Not(recompute))
        cx.oblige("C19.step.solver_called_at_most_once", len(calls["solve"]) <= 1)
        cx.oblige("C19.step.problem_initialised_iff_first_call", (step_i == 0) if calls["init"] else (step_i != 0))
        with cx.mute():
            if calls["solve"]:
                base = it.call(it.getattr(P.call(it, "torch.from_numpy", [w.attrs["prvs_alpha"]], {}), "to"), [], {"dtype": J.dtype})
            else:
                base = it.call(it.getattr(P.call(it, "torch.from_numpy", [stored], {}), "to"), [], {"dtype": J.dtype})
                cx.oblige("C19.step.reuse_keeps_stored_weights", w.attrs["prvs_alpha"] is stored)
            nrm = P.call(it, "torch.linalg.norm", [S.matmul(it, base, J)], {})
            scaled = S.B(it, ast.Mult(), S.B(it, ast.Div(), base, nrm), mx)
            too_long = z3.And(mx > 0, item_of(nrm) > mx)
        cx.oblige("C19.maxnorm.post", z3.If(too_long, same_term(out, scaled), same_term(out, base)))
        cx.oblige("C19.forward.dtype", out.dtype == J.dtype)
        if calls["solve"]:
            with cx.mute():
                G = P.call(it, "torch.mm", [J, it.call(it.getattr(J, "t"), [])], {})
                nf = P.call(it, "torch.norm", [G], {})
                gn = S.B(it, ast.Div(), G, item_of(nf))
            cx.oblige("C19.step.solver_gets_normalised_gramian", calls["solve"][0].term == gn.term)
    H.explore(body)


def dead_fields_check(H):
    """forward at step 0: the solver fields are written (by _init_optim_problem) before any read."""
    def body(cx):
        order = []

        def solve_contract(interp, args, kwargs):
            self = args[0]
            res = ATen(interp.cx.fresh_const("alpha_solved", ArrS), [self.attrs["n_tasks"]], P.F64, "numpy")
            interp.setattr(self, "prvs_alpha", res)
            return res
        it = H.interp(cx, overrides={f"{NW}._solve_optimization": solve_contract})
        nsym = cx.choose(2, "n_tasks_symbolic")
        # n = 2: the constraint loop of _init_optim_problem is unrolled; symbolic n: it is summarised as an append-only map loop
        n = 2 if nsym == 0 else z3.Int("n_tasks")
        if nsym:
            cx.assume(n >= 1)
        w = it.call(H.repo.get(NW), [], {"n_tasks": n, "max_norm": z3.Real("max_norm"), "update_weights_every": z3.Int("k"), "optim_niter": 5})
        cx.assume(z3.Int("k") >= 1)
        marks = {}
        for f in SOLVER_FIELDS:
            if f != "prvs_alpha_param":
                marks[f] = ATen(cx.fresh_const("stale_" + f, ArrS), [], P.F64, "cvxpy")
                w.attrs[f] = marks[f]
        J, (m, nn) = sym_matrix(cx, "J")
        cx.assume(m == n)
        orig_getattr = it.getattr

        def spy(obj, name):
            if obj is w and name in SOLVER_FIELDS:
                order.append(("read", name, w.attrs.get(name)))
            return orig_getattr(obj, name)
        it.getattr = spy
        kind, out = call_catch(lambda: it.call(it.getattr(w, "forward"), [J]))
        cx.oblige("C19.dead.forward_succeeds_at_step_zero", kind == "return", where=str(getattr(out, "where", "")))
        stale_reads = [r for r in order if any(r[2] is v for v in marks.values())]
        cx.oblige("C19.dead.fields.no_stale_solver_field_is_read", len(stale_reads) == 0)
        for f in SOLVER_FIELDS:
            cx.oblige(f"C19.dead.fields.{f}_rewritten", w.attrs.get(f) is not marks.get(f, object()))
        # what _init_optim_problem builds is what C19.solve.* takes as the precondition of _solve_optimization
        from tjv.pyvc.cvx import CvxLeaf, CvxProblem, _leaves_of
        want = {"alpha_param": ("cpvar", [n]), "prvs_alpha_param": ("cpparam", [n]), "G_param": ("cpparam", [n, n]),
                "normalization_factor_param": ("cpparam", [1])}
        for f, (lk, shp) in want.items():
            v = w.attrs.get(f)
            cx.oblige(f"C19.dead.init_builds.{'n2' if nsym == 0 else 'any_n'}.{f}", isinstance(v, CvxLeaf) and v.leaf_kind == lk
                      and len(v.shape_l) == len(shp) and all(z3.is_true(z3.simplify(lift(a) == lift(b))) or lift(a).eq(lift(b)) for a, b in zip(v.shape_l, shp)))
        pr = w.attrs.get("prob")
        cx.oblige(f"C19.dead.init_builds.{'n2' if nsym == 0 else 'any_n'}.prob", isinstance(pr, CvxProblem) and all(any(l is w.attrs.get(f) for l in _leaves_of(pr)) for f in want))
    H.explore(body)


def solve_loop():
    """_solve_optimization, loop 0.  Invariant: alpha_t is an ndarray of n_tasks entries (never None); the loop writes only
    alpha_t and the .value of alpha_param / prvs_alpha_param."""
    def _unwrap(v):
        return v.value if isinstance(v, V.Opt) else v

    def havoc(cx, frame, i):
        self = frame.vars["self"]
        n = self.attrs["n_tasks"]
        frame.vars["alpha_t"] = ATen(cx.fresh_const("alpha_t", ArrS), [n], cx.fresh_const("alpha_dt", V.DtypeS), "numpy")
        for f in ("alpha_param", "prvs_alpha_param"):
            self.attrs[f]._value = ATen(cx.fresh_const(f + "_value", ArrS), [n], cx.fresh_const(f + "_dt", V.DtypeS), "numpy")

    def inv(cx, frame, i):
        self = frame.vars["self"]
        n = self.attrs["n_tasks"]
        a = frame.vars["alpha_t"]
        not_none = z3.Not(a.is_none) if isinstance(a, V.Opt) else z3.BoolVal(a is not None)
        a = _unwrap(a)
        ok = isinstance(a, ATen) and a.kind == "numpy" and len(a.shape_l) == 1
        if "__alpha_entry__" not in frame.vars:
            frame.vars["__alpha_entry__"] = a.term if ok else None   # the first evaluation is the one on loop entry
        a0 = frame.vars["__alpha_entry__"]
        return [("alpha_t_is_never_None", not_none), ("alpha_t_is_an_ndarray", z3.BoolVal(bool(ok))),
                ("alpha_t_has_n_tasks_entries", (lift(a.shape_l[0]) == lift(n)) if ok else z3.BoolVal(False)),
                ("before_the_first_iteration_alpha_t_is_the_stored_one", z3.Implies(lift(i) == 0, a.term == a0) if ok and a0 is not None else z3.BoolVal(False))]
    from tjv.pyvc.interp import LoopSpec
    return LoopSpec(havoc, inv, has_break=True)


SOLVE_LOOPS = {(f"{NW}._solve_optimization", 0): solve_loop()}


def solve_check(H):
    """_solve_optimization(gtg) against the contract that forward's verification assumes for it: it returns the object it leaves
    in self.prvs_alpha, an ndarray of n_tasks entries; of the weighting's own fields it writes prvs_alpha only; G_param /
    normalization_factor_param receive gtg / the stored normalisation factor; with optim_niter = 0 the stored weights are returned
    untouched.  Precondition: the solver fields are the cvxpy objects _init_optim_problem builds (their kinds are obligations of
    C19.dead.*).  cp.Problem.solve may raise, and may leave .value = None [T]."""
    from tjv.pyvc.cvx import _LEAVES, CvxLeaf, CvxProblem

    def body(cx):
        cx.ghost["cvx_value_may_be_none"] = True
        it = H.interp(cx, loop_specs=SOLVE_LOOPS)
        w, n, k, niter, mx = mk_weighting(cx, it, H)
        leaves = {"alpha_param": CvxLeaf(cx, "cpvar", [n]), "prvs_alpha_param": CvxLeaf(cx, "cpparam", [n]),
                  "G_param": CvxLeaf(cx, "cpparam", [n, n]), "normalization_factor_param": CvxLeaf(cx, "cpparam", [1])}
        for f, v in leaves.items():
            w.attrs[f] = v
        prob = CvxProblem(cx, ATen(cx.fresh_const("objective", ArrS), [], P.F64, "cvxpy"), [])
        _LEAVES[id(prob)] = list(leaves.values())
        w.attrs["prob"] = prob
        stored = ATen(z3.Const("prvs_alpha", ArrS), [n], z3.Const("prvs_dtype", V.DtypeS), "numpy")
        w.attrs["prvs_alpha"] = stored
        nf = w.attrs["normalization_factor"]
        gtg = ATen(z3.Const("gtg", ArrS), [n, n], P.F64, "numpy")
        n_ev = len(cx.events)
        kind, out = call_catch(lambda: it.call(it.getattr(w, "_solve_optimization"), [gtg]))
        cx.oblige("C19.solve.never_raises", kind == "return", where=str(getattr(out, "where", "")))
        if kind != "return":
            return
        stores = sorted({e[1]["name"] for e in cx.events[n_ev:] if e[0] == "setattr" and e[1]["obj"] is w})
        cx.oblige("C19.solve.frame.writes_only_prvs_alpha", all(x == "prvs_alpha" for x in stores))
        cx.oblige("C19.solve.returns_the_stored_weights", out is w.attrs["prvs_alpha"])
        r = out.value if isinstance(out, V.Opt) else out
        cx.oblige("C19.solve.result_is_never_None", z3.Not(out.is_none) if isinstance(out, V.Opt) else out is not None)
        ok = isinstance(r, ATen) and r.kind == "numpy" and len(r.shape_l) == 1
        cx.oblige("C19.solve.result_is_an_ndarray_of_n_tasks", (lift(r.shape_l[0]) == n) if ok else False)
        cx.oblige("C19.solve.G_param_receives_gtg", leaves["G_param"]._value is gtg)
        cx.oblige("C19.solve.normalization_param_receives_the_factor", leaves["normalization_factor_param"]._value is nf)
        n_solves = len([e for e in cx.events[n_ev:] if e[0] == "cvx_solve"])
        cx.oblige("C19.solve.no_iteration_means_stored_weights", z3.Implies(niter == 0, r.term == stored.term) if ok else False)
        cx.oblige("C19.solve.no_iteration_means_no_solver_call", z3.Implies(niter == 0, z3.BoolVal(n_solves == 0)) if n_solves else True)
    H.explore(body, max_paths=3000)


def outer_check(H):
    """NashMTL(n_tasks, max_norm, update_weights_every, optim_niter): its weighting is a _NashMTLWeighting configured with exactly
    these parameters (no permutation / default substituted), and NashMTL.reset() resets THAT weighting, once."""
    def body(cx):
        resets = []

        def reset_contract(interp, args, kwargs):
            resets.append(args[0])
            return None
        it = H.interp(cx, overrides={f"{NW}.reset": reset_contract})
        n, k, niter, mx = z3.Int("n_tasks"), z3.Int("update_weights_every"), z3.Int("optim_niter"), z3.Real("max_norm")
        cx.assume(z3.And(n >= 1, k >= 1, niter >= 0))
        style = cx.choose(2, "argument_style")
        if style == 0:
            a = it.call(H.repo.get(f"{AGG}.nash_mtl.NashMTL"), [], {"n_tasks": n, "max_norm": mx, "update_weights_every": k, "optim_niter": niter})
        else:
            a = it.call(H.repo.get(f"{AGG}.nash_mtl.NashMTL"), [n, mx, k, niter], {})
        w = a.attrs.get("weighting")
        ok = isinstance(w, SymObj) and w.cls.name == "_NashMTLWeighting"
        cx.oblige("C19.outer.weighting_is_a_nash_weighting", ok)
        if not ok:
            return
        for f, v in (("n_tasks", n), ("max_norm", mx), ("update_weights_every", k), ("optim_niter", niter)):
            got = w.attrs.get(f)
            cx.oblige(f"C19.outer.parameter.{f}", (lift(got) == v) if got is not None and not isinstance(got, (ATen, SymObj)) else False)
        cx.oblige("C19.outer.fresh_state.step", as_real(w.attrs["step"]) == 0)
        it.call(it.getattr(a, "reset"), [])
        cx.oblige("C19.outer.reset_resets_the_weighting_once", len(resets) == 1 and resets[0] is w)
        cx.oblige("C19.outer.reset_keeps_the_weighting_object", a.attrs.get("weighting") is w)
    H.explore(body)


CHECKS = [
    Check("reset", [f"{NW}.__init__", f"{NW}.reset"], reset_check, replay_keys=["C19.reset"]),
    Check("solve", [f"{NW}._solve_optimization", f"{NW}._stop_criteria"], solve_check, replay_keys=["C19."]),
    Check("outer", [f"{AGG}.nash_mtl.NashMTL.__init__", f"{AGG}.nash_mtl.NashMTL.reset"], outer_check, replay_keys=["C19.reset"]),
    Check("forward", [f"{NW}.forward"], forward_check, replay_keys=["C19.reuse", "C19.schedule", "C19.maxnorm"]),
    Check("dead_fields", [f"{NW}.forward", f"{NW}._init_optim_problem", f"{NW}._calc_phi_alpha_linearization"], dead_fields_check,
          replay_keys=["C19.reset"]),
]
TRUSTED = ["cvxpy: Problem.solve either raises (caught) or leaves Variable.value an ndarray or None; ECOS is deterministic for equal "
           "parameter values [T]", "torch.linalg.norm(c x) = |c| torch.linalg.norm(x) [T]",
           "the float step counter stays a whole number (exact below 2^53) [T]"]
