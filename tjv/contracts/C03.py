"""C03 — UPGrad / DualProj return the exact (regularised) dual-cone projection [P]+[L].

Postconditions (from the statement): with RNG(J,a,b) = NG(J,a) + b*I,
  DualProj(u, a, b).weighting(J) = QPMin(RNG(J,a,b), u)                      (u = pref_vector or uniform 1/m)
  UPGrad(u, a, b).weighting(J)   = sum_i QPMin(RNG(J,a,b), u_i e_i) = column sums of the row-wise projection of diag(u)
  output = weights @ J;  the QP is handed to the solver as QPGen(G, 0, -I, -row)  [qpgen_to_qpmin, Lean].
The obligations run the REAL constructors and forward() end to end (every helper inlined from its AST)."""
from __future__ import annotations

import z3

from tjv.pyvc import prims as P
from tjv.pyvc.run import Check
from tjv.pyvc.values import lift
from . import specs as S
from .common import AGG, call_catch, finite, same_term, sym_matrix, sym_vector

UP, DP = f"{AGG}.upgrad", f"{AGG}.dualproj"
GU, DC = f"{AGG}._gramian_utils", f"{AGG}._dual_cone_utils"
FUNCS = [f"{GU}._compute_regularized_normalized_gramian", f"{GU}._compute_normalized_gramian", f"{GU}._regularize",
         f"{DC}._project_weights", f"{DC}._project_weight_vector", f"{DC}._to_array",
         f"{AGG}._pref_vector_utils._check_pref_vector", f"{AGG}._pref_vector_utils._pref_vector_to_weighting",
         f"{AGG}.constant._ConstantWeighting.__init__", f"{AGG}.constant._ConstantWeighting.forward",
         f"{AGG}.constant._ConstantWeighting._check_matrix_shape", f"{AGG}.mean._MeanWeighting.forward",
         f"{AGG}.bases._WeightedAggregator.__init__", f"{AGG}.bases._WeightedAggregator.forward",
         f"{AGG}.bases._WeightedAggregator.combine", f"{AGG}.bases.Aggregator._check_is_matrix",
         f"{AGG}.bases.Aggregator._check_is_finite"]


def make(which, with_pref):
    cls = f"{UP}.UPGrad" if which == "upgrad" else f"{DP}.DualProj"
    tag = f"C03.{which}." + ("pref" if with_pref else "default")

    def fn(H):
        def body(cx):
            it = H.interp(cx)
            a, b = z3.Real("norm_eps"), z3.Real("reg_eps")
            cx.assume(z3.And(a > 0, b > 0))
            J, (m, n) = sym_matrix(cx, "J")
            cx.assume(m >= 1)  # precondition: at least one objective (Mean divides by m)
            pref = None
            if with_pref:
                pref, plen = sym_vector(cx, "u", dtype=J.dtype)
            kind, agg = call_catch(lambda: it.call(H.repo.get(cls), [], {"pref_vector": pref, "norm_eps": a, "reg_eps": b}))
            if kind == "raise":
                cx.oblige(f"{tag}.ctor_accepts_vectors", False)
                return
            kind, v = call_catch(lambda: it.call(agg, [J]))
            valid = finite(J) if not with_pref else z3.And(finite(J), plen == m)
            if kind == "raise":
                # allowed failures: invalid input (ValueError), SVD failure, QP solver returning None (ValueError)
                flags = [x for x in cx.pc if "fails" in str(x) or "returns_none" in str(x)]
                external = z3.Or([f for f in flags]) if flags else z3.BoolVal(False)
                solver_raised = any("fails_with_ProblemError" in str(f) and not z3.is_not(f) for f in flags)
                cx.oblige(f"{tag}.raises_only_if_invalid_or_solver_failure",
                          z3.And(v.cls == "ValueError" or (solver_raised and v.cls == "ProblemError"), z3.Or(z3.Not(valid), external)))
                return
            cx.oblige(f"{tag}.accepts_only_valid", valid)
            # a result is returned only when every solver call succeeded: a failure is never papered over
            pos = [x for x in cx.pc if ("fails" in str(x) or "returns_none" in str(x)) and z3.is_const(x)]
            cx.oblige(f"{tag}.returns_only_if_the_solver_succeeded", len(pos) == 0)
            small, G0, G1 = S.RNG(it, J, a, b)
            u = pref if with_pref else S.mean_weights(it, J)
            with cx.mute():
                def weights(G):
                    if which == "upgrad":
                        W = S.project(it, P.call(it, "torch.diag", [u], {}), G)
                        return P.call(it, "torch.sum", [W], {"dim": 0})
                    return S.project(it, u, G)
                w0, w1 = weights(G0), weights(G1)
                out0, out1 = S.matmul(it, w0, J), S.matmul(it, w1, J)
            cx.oblige(f"{tag}.post", z3.If(small, same_term(v, out0), same_term(v, out1)),
                      numeric={"code": v.term, "cases": [(small, out0.term), (z3.Not(small), out1.term)],
                               "call": {"cls": cls, "kwargs": {"pref_vector": pref.term if pref is not None else None, "norm_eps": a, "reg_eps": b},
                                        "input": "J"}})
            cx.oblige(f"{tag}.dtype", v.dtype == J.dtype)
        H.explore(body)
    return Check(f"{which}.{'pref' if with_pref else 'default'}", [f"{cls}.__init__",
                 f"{UP}._UPGradWrapper.__init__" if which == "upgrad" else f"{DP}._DualProjWrapper.__init__",
                 f"{UP}._UPGradWrapper.forward" if which == "upgrad" else f"{DP}._DualProjWrapper.forward"] + FUNCS, fn,
                 replay_keys=["C03."], focus={"norm_eps_ne_reg_eps": True})


CHECKS = [make("upgrad", False), make("upgrad", True), make("dualproj", False), make("dualproj", True)]

TRUSTED = [
    "qpsolvers.solve_qp returns None or the exact minimiser QPGen(P,q,G,h) (solver accuracy is covered only by the bounded arm)",
    "torch.linalg.svd returns J = U diag(S) Vh with orthonormal factors; torch.max(S) = sigma_max",
    "numpy.apply_along_axis(f, -1, A)[i] = f(A[i]); torch.as_tensor / astype(float64) convert values exactly (floats as reals)",
    "bridge lemmas svd_gram, qpgen_to_qpmin, qpmin_unique, qpmin_nonconflict, small_sigma (Lean) carry the postcondition to the statement",
]

ASSUMPTIONS = ["C03 contracts: precondition m >= 1 (a Jacobian with zero rows is outside the property)"]

VALIDATE_ALGEBRAIC_PRIMS = True  # [V] the algebraic primitive contracts are sampled against real torch on every run
