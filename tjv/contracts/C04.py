"""C04 — non-conflicting aggregators never oppose any objective [P]+[L].

[P] the weights of UPGrad / DualProj are the QP minimisers for the regularised normalised Gramian (C03 end-to-end
contracts); MGDA's Frank-Wolfe loop keeps alpha on the simplex, never increases |J^T alpha| and every iteration is an
exact-line-search step towards e_t, t = argmin(G alpha) (loop contract, `body.exact_line_search_step`); CAGrad solves the
stated conic problem over the simplex and combines  1/m + (c|g0|/|g_w|) w_opt  (definitional contract).
[L] qp_min_Gw_nonneg, upgrad_allowance, dualproj_allowance, upgrad_sum_allowance (allowance reg_eps s^2 w_i);
hull_min_inner, hull_allowance (MGDA: s sqrt(|x|^2 - min-norm^2)); fw_rate (sub-optimality <= 8 s^2/(k+2) for exact
line search, epsilon = 0); cagrad_dual (c >= 1 => no conflict at the exact conic optimum) — all proved in Lean.
The conic solver's tolerance and floating point are decided by the bounded arm only."""
from .aggs import SPECS, build_check
from . import C03 as _c03
from .C18 import CHECKS as _c18

CHECKS = list(_c03.CHECKS) + [c for c in _c18 if c.name in ("MGDA", "CAGrad")]
TRUSTED = ["qpsolvers.solve_qp / CLARABEL return exact minimisers [T]",
           "bridge lemmas qp_min_Gw_nonneg, upgrad_allowance, dualproj_allowance, upgrad_sum_allowance, hull_allowance, fw_rate, cagrad_dual (Lean)"]
