"""Contracts of the autojac transforms and entry points (shared by C01, C02, C05, C06, C07, C13, C14, C15, C20).

Symbolic setting: the number of tensors/keys is a symbolic Int, every key has an opaque shape of arbitrary rank
(only its numel matters), the content of every tensor is symbolic, the aggregator is abstract."""
from __future__ import annotations

import z3

from tjv.pyvc import prims as P
from tjv.pyvc import values as V
from tjv.pyvc.core import SymRaise
from tjv.pyvc.interp import LoopSpec, SymObj
from tjv.pyvc.lten import DJ, AbstractAgg, Heap, LTen, RowBlocks, bigsum, delta_sum, shape_numel_s
from tjv.pyvc.values import ShapeS, TenS, U, lift

AJ = "torchjd.autojac"
TR = f"{AJ}._transform"
ZERO, ONE = z3.RealVal(0), z3.RealVal(1)
IntS, RealS = z3.IntSort(), z3.RealSort()


def numel(ref):
    return shape_numel_s(U("shape", ShapeS, ref))


def tensor_list(cx, name, distinct=True, min_len=0, nonempty_numel=False):
    """A symbolic list of user tensors.  distinct=True: assumed duplicate-free; None: unknown."""
    n = z3.Int(f"{name}.len")
    f = z3.Function(name, IntS, TenS)
    cx.assume(n >= min_len)
    seq = V.SymSeq(n, lambda i: V.TRef(f(lift(i))), distinct=distinct)
    seq.fn = f
    j = z3.Int("j!q")
    # numel of every tensor is a natural number [T: shapes have non-negative sizes]
    cx.assume(V.forall([j], numel(f(j)) >= (1 if nonempty_numel else 0), patterns=[numel(f(j))]), tag="numel>=0")
    if distinct is True:
        P.seq_index_fn(_FakeInterp(cx), seq)
        seq.at_key = lambda t: V.TRef(t)
    return seq


class _FakeInterp:
    def __init__(self, cx):
        self.cx = cx


def arbitrary_order(cx, it, seq: V.SymSeq):
    """Another duplicate-free enumeration of the same set of tensors, in an arbitrary (unrelated) order."""
    S = P.set_from_seq(it, seq)
    if not isinstance(S, V.SymSet):
        return seq
    other = V.SymSet(cx, member=S.arr)
    return other.seq(cx)


def offsets(interp, seq: V.SymSeq):
    """prefix sums of the numels of a tensor sequence (shared, canonical)"""
    lens = V.SymSeq(seq.length, lambda j: seq.get(j).numel())
    return P.prefix_sum(interp, lens)


def seq_len(x):
    if isinstance(x, (list, tuple)):
        return len(x)
    return x.length


def seq_get(x, j):
    if isinstance(x, (list, tuple)):
        return P.conc_seq(x).get(j) if x else None
    return x.get(j)


# ----------------------------------------------------------------------------- loop contracts (sidecar, keyed by function + ordinal)


def diag_init_loop():
    """Diagonalize.__init__:  for tensor in self.considered: end = begin + numel; indices.append((begin, end)); begin = end
    invariant at iteration i:  begin = off(i),  len(indices) = i,  indices[j] = (off(j), off(j+1)) for j < i."""

    def keys(frame):
        return frame.vars["self"].attrs["considered"].keys

    def havoc(cx, frame, i):
        frame.vars["begin"] = cx.fresh_int("begin")
        lo, hi = cx.fresh_func("ind_lo", IntS, IntS), cx.fresh_func("ind_hi", IntS, IntS)
        ln = cx.fresh_int("ind_len")
        frame.vars["self"].attrs["indices"] = V.SymList(ln, lambda j: (lo(lift(j)), hi(lift(j))))

    def inv(cx, frame, i):
        it = _FakeInterp(cx)
        off = offsets(it, keys(frame))
        ind = frame.vars["self"].attrs["indices"]
        j = z3.Int("j!q")
        facts = [("begin", lift(frame.vars["begin"]) == off.off(i)), ("len", lift(seq_len(ind)) == lift(i))]
        if isinstance(ind, list) and not ind:
            facts.append(("content", z3.BoolVal(True)))
        else:
            g = seq_get(ind, j)
            facts.append(("content", V.forall([j], z3.Implies(z3.And(0 <= j, j < lift(i)),
                                                                z3.And(lift(g[0]) == off.off(j), lift(g[1]) == off.off(j + 1))))))
        return facts
    return LoopSpec(havoc, inv)


LOOPS = {
    (f"{TR}.diagonalize.Diagonalize.__init__", 0): diag_init_loop(),
}


# ----------------------------------------------------------------------------- Jac / Grad


def materialize_contract(interp, args, kwargs):
    """Contract of _utils._materialize(optional_tensors, inputs): a tuple with, at position j, optional_tensors[j]
    if it is not None, else zeros of the shape of inputs[j].  (Verified on its own against the loop: theory check
    `materialize`.)"""
    opt = args[0] if args else kwargs["optional_tensors"]
    inp = args[1] if len(args) > 1 else kwargs["inputs"]
    oseq = P.as_symseq(interp, opt) if V.concrete_iter(opt) is None else P.conc_seq(V.concrete_iter(opt))
    iseq = P.as_symseq(interp, inp) if V.concrete_iter(inp) is None else P.conc_seq(V.concrete_iter(inp))

    def get(j):
        o = oseq.get(j)
        x = iseq.get(j)
        if not isinstance(o, V.Opt):
            return o
        return LTen(x.shape, lambda idx: z3.If(o.is_none, ZERO, o.value.elem(idx)), fresh=True)
    return V.SymSeq(oseq.length, get)


OVERRIDES = {f"{TR}._utils._materialize": materialize_contract}


def cot_family(cx, outs: V.SymSeq, m, name="cot"):
    """jac_outputs: for output j a tensor of shape (m,) + shape(out_j) with symbolic content cot(j, r, e)."""
    f = cx.fresh_func(name, IntS, IntS, IntS, RealS)
    seq = V.SymSeq(outs.length, lambda j: LTen(V.Shape([m], outs.get(j).shape.tail),
                                               lambda idx, j=j: f(lift(j), idx[0], idx[1]), fresh=False))
    return seq, f


def jac_spec_row(cx, outs, inputs, jac_outputs, r, k, c):
    """Row r of the Jacobian pulled back to input k, flat position c:
       0 if input k is unreachable from the outputs, else sum_{r'} cot_r(r') * DJ(outs, r', x_k, c), where cot_r is
       the flattened r-th row of `jac_outputs` (flattening in the order of `outs`)."""
    from tjv.pyvc.lten import _outs_handle
    it = _FakeInterp(cx)
    h, _ = _outs_handle(it, outs)
    offO = offsets(it, outs)
    x = inputs.get(k).ref

    def body(rp):
        j = offO.blk(rp)
        return jac_outputs.get(j).elem([r, rp - offO.off(j)]) * DJ(h, rp, x, c)
    return z3.If(U("unreachable", z3.BoolSort(), h, x), ZERO, delta_sum(cx, offO.total(), body))


def jac_chunk_loop():
    """Jac._differentiate, loop 0 (all chunks but the last): iteration i differentiates rows [i*k, (i+1)*k) with
    retain_graph=True and appends them.  Invariant: the chunks so far stack to exactly the first i*k spec rows."""

    def ctxvals(frame):
        self = frame.vars["self"]
        return self, frame.vars["jac_outputs"], frame.vars["m"], frame.vars["max_chunk_size"], frame.vars["n_chunks"]

    def havoc(cx, frame, i):
        rowf = cx.fresh_func("rows", IntS, IntS, RealS)
        total = cx.fresh_int("rows_total")
        it = _FakeInterp(cx)
        inputs = frame.vars["inputs"]
        N = offsets(it, P.as_symseq(it, inputs)).total()
        frame.vars["jac_matrix_chunks"] = RowBlocks(total, N, lambda r, c: rowf(r, c))

    def inv(cx, frame, i):
        it = _FakeInterp(cx)
        self, jac_outputs, m, k, n = ctxvals(frame)
        k = k.value if isinstance(k, V.Opt) else k
        chunks = frame.vars["jac_matrix_chunks"]
        facts = []
        ik = lift(i) * lift(k)
        if isinstance(chunks, list):
            facts.append(("empty_at_start", z3.BoolVal(len(chunks) == 0) if True else None))
            facts.append(("index_zero", lift(i) == 0))
            return facts
        facts.append(("rows_so_far", lift(chunks.total) == ik))
        r, c = z3.Int("r!q"), z3.Int("c!q")
        inputs = P.as_symseq(it, frame.vars["inputs"])
        outs = P.as_symseq(it, frame.vars["outputs"])
        offI = offsets(it, inputs)
        kk = offI.blk(c)
        body = chunks.row(r, c) == jac_spec_row(cx, outs, inputs, P.as_symseq(it, jac_outputs), r, kk, c - offI.off(kk))
        facts.append(("rows_are_spec_rows", V.forall([r, c], z3.Implies(z3.And(0 <= r, r < ik, 0 <= c, c < offI.total()), body))))
        return facts
    return LoopSpec(havoc, inv)


LOOPS[(f"{TR}.jac.Jac._differentiate", 0)] = jac_chunk_loop()


# ----------------------------------------------------------------------------- Aggregate: _disunite loop


def disunite_loop():
    """_AggregateMatrices._disunite, loop 0:  for key, M in jacobian_matrices.items(): end = start + ncols(M);
    gradient_vectors[key] = united[start:end]; start = end.
    Invariant at i: start = offC(i); gradient_vectors has exactly the first i keys (in order), and key j maps to
    united[offC(j):offC(j+1)]."""

    def cols(cx, frame):
        it = _FakeInterp(cx)
        jm = frame.vars["jacobian_matrices"]
        m = P.to_symmap(it, jm.payload if isinstance(jm, SymObj) else jm)
        val = m.by_index if m.by_index is not None else (lambda j: m.get(m.keys.get(j).ref))
        lens = V.SymSeq(m.keys.length, lambda j: val(j).shape.lead[1])
        return m, P.prefix_sum(it, lens)

    def havoc(cx, frame, i):
        frame.vars["start"] = cx.fresh_int("start")
        m, ps = cols(cx, frame)
        gvf = cx.fresh_func("gv", TenS, IntS, RealS)
        gvlen = cx.fresh_func("gvlen", TenS, IntS)
        keys = V.SymSeq(lift(i), m.keys.get, distinct=True)
        keys.index_of = P.seq_index_fn(_FakeInterp(cx), m.keys)
        frame.vars["gradient_vectors"] = V.SymMap(keys, lambda t: LTen(V.Shape([gvlen(t)]), lambda idx, t=t: gvf(t, idx[0]), fresh=False))

    def inv(cx, frame, i):
        it = _FakeInterp(cx)
        m, ps = cols(cx, frame)
        gv = frame.vars["gradient_vectors"]
        united = frame.vars["united_gradient_vector"]
        facts = [("start", lift(frame.vars["start"]) == ps.off(i))]
        if isinstance(gv, dict):
            facts.append(("empty_at_start", z3.And(len(gv) == 0, lift(i) == 0)))
            return facts
        j, c = z3.Int("j!q"), z3.Int("c!q")
        facts.append(("n_keys", lift(gv.keys.length) == lift(i)))
        facts.append(("keys_in_order", V.forall([j], z3.Implies(z3.And(0 <= j, j < lift(i)), gv.keys.get(j).ref == m.keys.get(j).ref))))
        kj = m.keys.get(j).ref
        val = gv.get(kj)
        facts.append(("slice_len", V.forall([j], z3.Implies(z3.And(0 <= j, j < lift(i)),
                                                             lift(val.shape.lead[0]) == ps.off(j + 1) - ps.off(j)))))
        facts.append(("slice_content", V.forall([j, c], z3.Implies(z3.And(0 <= j, j < lift(i), 0 <= c, c < ps.off(j + 1) - ps.off(j)),
                                                                    val.elem([c]) == united.elem([ps.off(j) + c])))))
        return facts
    return LoopSpec(havoc, inv)


LOOPS[(f"{TR}.aggregate._AggregateMatrices._disunite", 0)] = disunite_loop()


# ----------------------------------------------------------------------------- Accumulate: heap loop


def accumulate_loop():
    """Accumulate._compute, loop 1 (after the up-front check loop):  for key in gradients.keys():
        key.grad += g[key]  if key.grad exists  else  key.grad = g[key].clone()
    Invariant at i: exactly the first i keys have been updated: grad'(k) = grad0(k) (+) g[k]; every other tensor's
    .grad is as at loop entry."""

    def keys_and_g(cx, frame):
        it = _FakeInterp(cx)
        g = frame.vars["gradients"]
        m = P.to_symmap(it, g.payload if isinstance(g, SymObj) else g)
        return m

    def havoc(cx, frame, i):
        cx.ghost["heap"].havoc(cx)

    def inv(cx, frame, i):
        it = _FakeInterp(cx)
        heap = cx.ghost["heap"]
        if "__h0__" not in frame.vars:
            frame.vars["__h0__"] = heap.snapshot()
        has0, val0, stor0 = frame.vars["__h0__"]
        m = keys_and_g(cx, frame)
        idx = P.seq_index_fn(it, m.keys)
        dom = P.map_dom(it, m)
        t, c = z3.Const("t!q", TenS), z3.Int("c!q")
        done = z3.And(dom(t), idx(t) < lift(i))
        upd = z3.If(has0(t), val0(t, c), ZERO) + m.get(t).elem([c])
        facts = [
            ("has", V.forall([t], heap.has_f(t) == z3.If(done, True, has0(t)))),
            ("val", V.forall([t, c], heap.val_f(t, c) == z3.If(done, upd, val0(t, c)))),
            ("storage_kept_when_existing", V.forall([t], z3.Implies(z3.Or(z3.Not(done), has0(t)), heap.stor_f(t) == stor0(t)))),
        ]
        return facts
    return LoopSpec(havoc, inv)


LOOPS[(f"{TR}.accumulate.Accumulate._compute", 1)] = accumulate_loop()


def expects_grad(ref):
    return z3.And(U("requires_grad", z3.BoolSort(), ref), z3.Or(U("is_leaf", z3.BoolSort(), ref), U("retains_grad", z3.BoolSort(), ref)))


# ============================================================================= contract summaries (modular verification)
# Each transform's _compute is verified in isolation against spec_*() (C15 / C06 checks); when a CALLER (backward,
# mtl_backward) is verified, the same spec_*() is applied at the call site instead of the callee's body.


def payload_map(it, d):
    return P.to_symmap(it, d.payload if isinstance(d, SymObj) else d)


def make_dict(it, clsname, m):
    """Build a TensorDict subclass instance through its REAL constructor (its shape checks become obligations of the
    summary: they must not raise)."""
    return it.call(it.repo.get(f"{TR}.tensor_dict.{clsname}"), [m])


def spec_diag_map(it, considered: V.SymSeq, gmap: V.SymMap):
    """Diagonalize: key t_j -> tensor of shape (R,)+shape(t_j): row r holds, at flat position e, g[t_j][e] if r is the
    scalar (j, e) in the flattened key order (r = off(j)+e), else 0."""
    off = offsets(it, considered)
    idx = P.seq_index_fn(it, considered)

    def get(t):
        g = gmap.get(t)
        j = idx(t)
        return LTen(V.Shape([off.total()], V.TRef(t).shape.tail),
                    lambda ix: z3.If(ix[0] == off.off(j) + ix[1], g.elem([ix[1]]), ZERO))
    return V.SymMap(considered, get)


def diag_init_contract(interp, args, kwargs):
    """Diagonalize.__init__(self, considered): considered = ordered_set(considered) (REAL function, may raise on
    duplicates); indices[j] = (off(j), off(j+1))  [proved: C15.diag loop invariant]."""
    self, considered = args[0], args[1]
    od = interp.call(interp.repo.get(f"{TR}._utils.ordered_set"), [considered])
    self.attrs["considered"] = od
    keys = P.to_symmap(interp, od).keys if not isinstance(od, dict) else P.conc_seq(list(od.keys()))
    off = offsets(interp, keys)
    self.attrs["indices"] = V.SymSeq(keys.length, lambda j: (off.off(j), off.off(lift(j) + 1)))
    return None


def diag_compute_contract(interp, args, kwargs):
    self, tensors = args[0], args[1]
    od = self.attrs["considered"]
    keys = P.to_symmap(interp, od).keys if not isinstance(od, dict) else P.conc_seq(list(od.keys()))
    gmap = payload_map(interp, tensors)
    return make_dict(interp, "Jacobians", spec_diag_map(interp, keys, gmap))


def spec_jac_seq(it, outs: V.SymSeq, inputs: V.SymSeq, jac_outputs: V.SymSeq, m):
    return V.SymSeq(inputs.length, lambda k: LTen(V.Shape([m], inputs.get(k).shape.tail),
                                                  lambda ix, k=k: jac_spec_row(it.cx, outs, inputs, jac_outputs, ix[0], k, ix[1])))


def jac_differentiate_contract(interp, args, kwargs):
    """Jac._differentiate(self, jac_outputs): per input k the (m,)+shape tensor of spec rows; ghost: ceil(m/k) sweeps,
    all but the last retaining the graph, the last with self.retain_graph; vmap only for chunks of > 1 rows
    [proved: C15.jac.*]."""
    self, jac_outputs = args[0], args[1]
    cx = interp.cx
    outs = P.to_symmap(interp, self.attrs["outputs"]).keys
    inputs_map = self.attrs["inputs"]
    if isinstance(inputs_map, dict) and not inputs_map:
        return ()
    inputs = P.to_symmap(interp, inputs_map).keys
    jo = P.as_symseq(interp, jac_outputs) if V.concrete_iter(jac_outputs) is None else P.conc_seq(V.concrete_iter(jac_outputs))
    if cx.branch(lift(inputs.length) == 0):
        return ()
    cx.oblige("requires.jac.one_cotangent_per_output", lift(jo.length) == lift(outs.length), kind="requires")
    cx.oblige("requires.jac.at_least_one_output", lift(outs.length) >= 1, kind="requires")
    m = jo.get(z3.IntVal(0)).shape.lead[0]
    chunk = self.attrs["chunk_size"]
    kk = chunk.value if isinstance(chunk, V.Opt) else chunk
    kn = chunk.is_none if isinstance(chunk, V.Opt) else (chunk is None)
    # m / max_chunk_size with max_chunk_size = m when chunk is None: division by zero when m = 0
    cx.oblige("requires.jac.at_least_one_row", lift(m) >= 1, kind="requires")
    cx.oblige("requires.jac.positive_chunk", z3.Or(lift(kn), lift(kk) > 0) if not isinstance(kn, bool) or not kn else True, kind="requires")
    cx.event("jac_call", outs=outs, inputs=inputs, rows=m, chunk=chunk, retain=self.attrs["retain_graph"],
             create_graph=self.attrs["create_graph"], pc_len=len(cx.pc))
    return spec_jac_seq(interp, outs, inputs, jo, m)


def spec_aggregate(it, agg, key_order: V.SymSeq, jmap: V.SymMap):
    """Aggregate: U = column-wise concatenation over key_order of the matrixified jacobians; v = agg(U);
    key k_i -> v[offI(i):offI(i+1)] reshaped to shape(k_i).  Returns (U, SymMap)."""
    offI = offsets(it, key_order)
    first = jmap.get(key_order.get(z3.IntVal(0)).ref)
    m = first.shape.lead[0]

    def U_elem(ix):
        i = offI.blk(ix[1])
        return jmap.get(key_order.get(i).ref).elem([ix[0], ix[1] - offI.off(i)])
    Um = LTen(V.Shape([m, offI.total()]), U_elem)
    v = agg.sym_call(it, [Um], {})
    idx = P.seq_index_fn(it, key_order)
    out = V.SymMap(key_order, lambda t: LTen(V.TRef(t).shape, lambda ix, t=t: v.elem([offI.off(idx(t)) + ix[0]]),
                                             storage=v.storage, fresh=v.fresh))
    return Um, out


def aggregate_compute_contract(interp, args, kwargs):
    """Aggregate._compute(self, jacobians)  [proved: C15.aggregate.*]."""
    self, jac = args[0], args[1]
    cx = interp.cx
    tr = self.attrs["transform"]  # reshape << aggregate_matrices << matrixify

    def find(o):
        if isinstance(o, SymObj):
            if "aggregator" in o.attrs and "key_order" in o.attrs:
                return o
            for v in o.attrs.values():
                r = find(v)
                if r is not None:
                    return r
        return None
    am = find(tr)
    if am is None:
        raise KeyError("no _AggregateMatrices inside Aggregate.transform")
    ko = am.attrs["key_order"]
    agg = am.attrs["aggregator"]
    if isinstance(ko, dict) and not ko:
        return interp.call(interp.repo.get(f"{TR}.tensor_dict.EmptyTensorDict"), [])
    keys = P.to_symmap(interp, ko).keys
    if cx.branch(lift(keys.length) == 0):
        return interp.call(interp.repo.get(f"{TR}.tensor_dict.EmptyTensorDict"), [])
    jmap = payload_map(interp, jac)
    _, out = spec_aggregate(interp, agg, keys, jmap)
    return make_dict(interp, "Gradients", out)


def accumulate_compute_contract(interp, args, kwargs):
    """Accumulate._compute(self, gradients): raises ValueError, before any write, iff some key does not expect a
    gradient; otherwise grad'(k) = grad(k) (+) g[k] (in place when it existed, a fresh owned clone otherwise) for every
    key and nothing else changes  [proved: C06.accumulate.*]."""
    from tjv.pyvc.core import ExcValue
    self, grads = args[0], args[1]
    cx = interp.cx
    heap = cx.ghost["heap"]
    if isinstance(grads.payload, dict) and not grads.payload:
        return interp.call(interp.repo.get(f"{TR}.tensor_dict.EmptyTensorDict"), [])
    gmap = payload_map(interp, grads)
    keys = gmap.keys
    jq = z3.Int("j!q")
    all_expect = cx.fresh_bool("all_keys_expect_grad")
    w = cx.fresh_int("bad_key")
    n = lift(keys.length)
    cx.assume(z3.Implies(all_expect, V.forall([jq], z3.Implies(z3.And(0 <= jq, jq < n), expects_grad(keys.get(jq).ref)),
                                               patterns=[keys.get(jq).ref])), tag="accumulate contract")
    cx.assume(z3.Implies(z3.Not(all_expect), z3.And(0 <= w, w < n, z3.Not(expects_grad(keys.get(w).ref)))), tag="accumulate contract")
    if not cx.branch(all_expect):
        raise SymRaise(ExcValue("ValueError"))
    has0, val0, stor0 = heap.snapshot()
    dom = P.map_dom(interp, gmap)
    fresh_stor = cx.fresh_func("clone_stor", TenS, IntS)
    heap.has_f = lambda t: z3.If(dom(t), True, has0(t))
    heap.val_f = lambda t, c: z3.If(dom(t), z3.If(has0(t), val0(t, c), ZERO) + gmap.get(t).elem([c]), val0(t, c))
    heap.stor_f = lambda t: z3.If(z3.And(dom(t), z3.Not(has0(t))), fresh_stor(t), stor0(t))
    cx.event("accumulate_call", keys=keys, pc_len=len(cx.pc))
    return interp.call(interp.repo.get(f"{TR}.tensor_dict.EmptyTensorDict"), [])


def leaf_tensors_contract(interp, args, kwargs):
    """Contract of _get_leaf_tensors applied at a call site (its own verification: C12.leaves.* / C12.bfs.*): SOME set of
    tensors, each a leaf requiring grad [T: variables of AccumulateGrad nodes].  Which tensors are in the graph is not known
    to the caller's proof: the result is an arbitrary such set."""
    D = V.SymSet(interp.cx, "discovered")
    tq = z3.Const("t!q", TenS)
    interp.cx.assume(V.forall([tq], z3.Implies(D.contains(tq), expects_grad(tq))), tag="discovered parameters are leaves requiring grad [T]")
    return D


SUMMARIES = dict(OVERRIDES)
SUMMARIES.update({
    f"{AJ}._utils._get_leaf_tensors": leaf_tensors_contract,
    f"{TR}.diagonalize.Diagonalize.__init__": diag_init_contract,
    f"{TR}.diagonalize.Diagonalize._compute": diag_compute_contract,
    f"{TR}.jac.Jac._differentiate": jac_differentiate_contract,
    f"{TR}.aggregate.Aggregate._compute": aggregate_compute_contract,
    f"{TR}.accumulate.Accumulate._compute": accumulate_compute_contract,
})
