"""Contracts of the autojac transforms and entry points (shared by C01, C02, C05, C06, C07, C13, C14, C15, C20).

Symbolic setting: the number of tensors/keys is a symbolic Int, every key has an opaque shape of arbitrary rank
(only its numel matters), the content of every tensor is symbolic, the aggregator is abstract."""
from __future__ import annotations

import z3

from tjv.pyvc import prims as P
from tjv.pyvc import values as V
from tjv.pyvc.core import SymRaise
from tjv.pyvc.interp import LoopSpec, SymObj
from tjv.pyvc.lten import DJ, AbstractAgg, Heap, LTen, RowBlocks, bigsum, delta_sum, shape_numel_s
from tjv.pyvc.values import ShapeS, TenS, U, lift

AJ = "torchjd.autojac"
TR = f"{AJ}._transform"
ZERO, ONE = z3.RealVal(0), z3.RealVal(1)
IntS, RealS = z3.IntSort(), z3.RealSort()


def numel(ref):
    return shape_numel_s(U("shape", ShapeS, ref))


def tensor_list(cx, name, distinct=True, min_len=0, nonempty_numel=False):
    """A symbolic list of user tensors.  distinct=True: assumed duplicate-free; None: unknown."""
    n = z3.Int(f"{name}.len")
    f = z3.Function(name, IntS, TenS)
    cx.assume(n >= min_len)
    seq = V.SymSeq(n, lambda i: V.TRef(f(lift(i))), distinct=distinct)
    seq.fn = f
    j = z3.Int("j!q")
    # numel of every tensor is a natural number [T: shapes have non-negative sizes]
    cx.assume(z3.ForAll([j], numel(f(j)) >= (1 if nonempty_numel else 0), patterns=[numel(f(j))]), tag="numel>=0")
    if distinct is True:
        P.seq_index_fn(_FakeInterp(cx), seq)
    return seq


class _FakeInterp:
    def __init__(self, cx):
        self.cx = cx


def arbitrary_order(cx, it, seq: V.SymSeq):
    """Another duplicate-free enumeration of the same set of tensors, in an arbitrary (unrelated) order."""
    S = P.set_from_seq(it, seq)
    if not isinstance(S, V.SymSet):
        return seq
    other = V.SymSet(cx, member=S.arr)
    return other.seq(cx)


def offsets(interp, seq: V.SymSeq):
    """prefix sums of the numels of a tensor sequence (shared, canonical)"""
    lens = V.SymSeq(seq.length, lambda j: seq.get(j).numel())
    return P.prefix_sum(interp, lens)


def seq_len(x):
    if isinstance(x, (list, tuple)):
        return len(x)
    return x.length


def seq_get(x, j):
    if isinstance(x, (list, tuple)):
        return P.conc_seq(x).get(j) if x else None
    return x.get(j)


# ----------------------------------------------------------------------------- loop contracts (sidecar, keyed by function + ordinal)


def diag_init_loop():
    """Diagonalize.__init__:  for tensor in self.considered: end = begin + numel; indices.append((begin, end)); begin = end
    invariant at iteration i:  begin = off(i),  len(indices) = i,  indices[j] = (off(j), off(j+1)) for j < i."""

    def keys(frame):
        return frame.vars["self"].attrs["considered"].keys

    def havoc(cx, frame, i):
        frame.vars["begin"] = cx.fresh_int("begin")
        lo, hi = cx.fresh_func("ind_lo", IntS, IntS), cx.fresh_func("ind_hi", IntS, IntS)
        ln = cx.fresh_int("ind_len")
        frame.vars["self"].attrs["indices"] = V.SymList(ln, lambda j: (lo(lift(j)), hi(lift(j))))

    def inv(cx, frame, i):
        it = _FakeInterp(cx)
        off = offsets(it, keys(frame))
        ind = frame.vars["self"].attrs["indices"]
        j = z3.Int("j!q")
        facts = [("begin", lift(frame.vars["begin"]) == off.off(i)), ("len", lift(seq_len(ind)) == lift(i))]
        if isinstance(ind, list) and not ind:
            facts.append(("content", z3.BoolVal(True)))
        else:
            g = seq_get(ind, j)
            facts.append(("content", z3.ForAll([j], z3.Implies(z3.And(0 <= j, j < lift(i)),
                                                                z3.And(lift(g[0]) == off.off(j), lift(g[1]) == off.off(j + 1))))))
        return facts
    return LoopSpec(havoc, inv)


LOOPS = {
    (f"{TR}.diagonalize.Diagonalize.__init__", 0): diag_init_loop(),
}
