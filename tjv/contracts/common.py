"""Helpers shared by the contract modules."""
from __future__ import annotations

import z3

from tjv.pyvc import prims
from tjv.pyvc import values as V
from tjv.pyvc.aten import ATen, Storage, mk, as_real, item_of
from tjv.pyvc.core import SymRaise
from tjv.pyvc.values import ArrS, DtypeS, U, lift

AGG = "torchjd.aggregation"


def sym_matrix(cx, name="J", rank=2, dtype=None):
    """Symbolic input tensor of the given rank (shape entries are non-negative Int constants)."""
    dims = [z3.Int(f"{name}.d{i}") for i in range(rank)]
    for d in dims:
        cx.assume(d >= 0)
    dt = dtype if dtype is not None else z3.Const(f"{name}.dtype", DtypeS)
    t = ATen(z3.Const(name, ArrS), dims, dt, "torch", storage=Storage(is_input=True, label=name))
    return t, dims


def sym_vector(cx, name, n=None, dtype=None):
    n = n if n is not None else z3.Int(f"{name}.len")
    cx.assume(lift(n) >= 0)
    dt = dtype if dtype is not None else z3.Const(f"{name}.dtype", DtypeS)
    return ATen(z3.Const(name, ArrS), [n], dt, "torch", storage=Storage(is_input=True, label=name)), n


def finite(J: ATen):
    """Spec predicate 'all entries finite' — the same term the primitive contracts build for
    `matrix.isfinite().all()`."""
    return U("truth", z3.BoolSort(), U("all", ArrS, U("isfinite", ArrS, J.term)))


def T(interp, dotted, *args, **kw):
    """Spec-side application of a primitive (obligations of the primitive are muted)."""
    with interp.cx.mute():
        return prims.call(interp, dotted, list(args), kw)


def same_term(a, b):
    """Equality of two algebraic tensors: equal Arr terms, equal shapes, equal dtypes."""
    c = a.term == b.term
    if len(a.shape_l) != len(b.shape_l):
        return z3.BoolVal(False)
    for x, y in zip(a.shape_l, b.shape_l):
        c = z3.And(c, lift(x) == lift(y))
    return c


def call_catch(fn):
    """Run fn(); return ('return', value) or ('raise', ExcValue)."""
    try:
        return "return", fn()
    except SymRaise as e:
        e.exc.where = e.where
        return "raise", e.exc
