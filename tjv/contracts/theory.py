"""Lemmas of the layout theory used as axioms by the primitive contracts, each proved here on every run (by explicit
induction: a base VC and a step VC), and the isolated verification of the contract of _materialize that the
transform summaries apply at its call sites."""
from __future__ import annotations

import z3

from tjv.pyvc import prims as P
from tjv.pyvc import values as V
from tjv.pyvc.interp import LoopSpec
from tjv.pyvc.lten import LTen
from tjv.pyvc.run import Check
from tjv.pyvc.values import ShapeS, TenS, lift
from . import autojac as A

IntS, RealS = z3.IntSort(), z3.RealSort()


def prefix_sum_monotone(H):
    """off(0) = 0, off(j+1) = off(j) + l(j), l >= 0  ==>  off is monotone on [0, n]   (induction on the upper index)."""
    def body(cx):
        off = z3.Function("off", IntS, IntS)
        ln = z3.Function("len", IntS, IntS)
        n, j, i0 = z3.Int("n"), z3.Int("j"), z3.Int("i0")
        i = z3.Int("i!q")
        cx.assume(z3.And(n >= 0, off(0) == 0))
        cx.oblige("theory.prefix_sum_monotone.base", z3.Implies(z3.And(0 <= i0, i0 <= 0), off(i0) <= off(0)))
        cx.assume(z3.And(0 <= j, j < n, off(j + 1) == off(j) + ln(j), ln(j) >= 0))
        cx.assume(V.forall([i], z3.Implies(z3.And(0 <= i, i <= j), off(i) <= off(j))))  # induction hypothesis at j
        cx.oblige("theory.prefix_sum_monotone.step", z3.Implies(z3.And(0 <= i0, i0 <= j + 1), off(i0) <= off(j + 1)))
    H.explore(body)


def block_lookup_exists(H):
    """every position c in [0, off(k)) lies in exactly one block: some j < k with off(j) <= c < off(j+1)
    (induction on k; uniqueness follows from monotonicity)."""
    def body(cx):
        off = z3.Function("off", IntS, IntS)
        ln = z3.Function("len", IntS, IntS)
        b = z3.Function("blk_k", IntS, IntS)
        k, c0 = z3.Int("k"), z3.Int("c0")
        c = z3.Int("c!q")
        cx.assume(z3.And(k >= 0, off(0) == 0, off(k + 1) == off(k) + ln(k), ln(k) >= 0))
        # base: the range [0, off(0)) is empty
        cx.oblige("theory.block_lookup.base", z3.Not(z3.And(0 <= c0, c0 < off(0))))
        # step: a lookup function for k blocks extends to k+1 blocks
        cx.assume(V.forall([c], z3.Implies(z3.And(0 <= c, c < off(k)), z3.And(0 <= b(c), b(c) < k, off(b(c)) <= c, c < off(b(c) + 1)))))
        b2 = z3.If(c0 < off(k), b(c0), k)
        cx.oblige("theory.block_lookup.step", z3.Implies(z3.And(0 <= c0, c0 < off(k + 1)),
                                                        z3.And(0 <= b2, b2 < k + 1, off(b2) <= c0, c0 < off(b2 + 1))))
    H.explore(body)


def materialize_loop():
    """_materialize: for optional_tensor, input in zip(...): tensors.append(zeros_like(input) if None else it).
    Invariant: tensors has i entries; entry j is optional_tensors[j] if not None, else zeros of inputs[j]'s shape."""
    def havoc(cx, frame, i):
        tailf = cx.fresh_func("mat_shape", IntS, ShapeS)
        matf = cx.fresh_func("mat", IntS, IntS, RealS)
        ln = cx.fresh_int("mat_len")
        frame.vars["tensors"] = V.SymList(ln, lambda j: LTen(V.Shape([], tailf(lift(j))), lambda ix, j=j: matf(lift(j), ix[0])))

    def inv(cx, frame, i):
        it = A._FakeInterp(cx)
        ts = frame.vars["tensors"]
        spec = A.materialize_contract(it, [frame.vars["optional_tensors"], frame.vars["inputs"]], {})
        if isinstance(ts, list):
            return [("empty_at_start", z3.And(len(ts) == 0, lift(i) == 0))]
        j, c = z3.Int("j!q"), z3.Int("c!q")
        a, b = ts.get(j), spec.get(j)
        return [("length", lift(ts.length) == lift(i)),
                ("shapes", V.forall([j], z3.Implies(z3.And(0 <= j, j < lift(i)), a.shape.tail == b.shape.tail))),
                ("entries", V.forall([j, c], z3.Implies(z3.And(0 <= j, j < lift(i)), a.elem([c]) == b.elem([c]))))]
    return LoopSpec(havoc, inv)


def materialize_check(H):
    def body(cx):
        loops = {(f"{A.TR}._utils._materialize", 0): materialize_loop()}
        it = H.interp(cx, loop_specs=loops)
        inputs = A.tensor_list(cx, "X", distinct=None)
        none = cx.fresh_func("is_none", IntS, z3.BoolSort())
        optf = cx.fresh_func("opt", IntS, IntS, RealS)
        opts = V.SymSeq(inputs.length, lambda j: V.Opt(none(lift(j)), LTen(inputs.get(j).shape, lambda ix, j=j: optf(lift(j), ix[0]), fresh=False)))
        from .common import call_catch
        kind, out = call_catch(lambda: it.call(H.repo.get(f"{A.TR}._utils._materialize"), [opts, inputs]))
        cx.oblige("theory.materialize.no_raise", kind == "return")
        if kind != "return":
            return
        spec = A.materialize_contract(it, [opts, inputs], {})
        o = P.as_symseq(it, out)
        j, c = cx.fresh_int("j"), cx.fresh_int("c")
        cx.assume(z3.And(0 <= j, j < inputs.length))
        cx.oblige("theory.materialize.length", lift(o.length) == lift(inputs.length))
        cx.oblige("theory.materialize.post", z3.And(o.get(j).shape.tail == spec.get(j).shape.tail, o.get(j).elem([c]) == spec.get(j).elem([c])))
    H.explore(body)


CHECKS = [
    Check("theory.prefix_sum_monotone", [], prefix_sum_monotone, kind="L-smt"),
    Check("theory.block_lookup", [], block_lookup_exists, kind="L-smt"),
    Check("theory.materialize", [f"{A.TR}._utils._materialize"], materialize_check),
]
