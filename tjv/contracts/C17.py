"""C17 — impartial aggregators: definitional postconditions of IMTL-G, ConFIG and Aligned-MTL [P]; the
equal-projection / equal-cosine / orthogonality statements follow by the bridge lemmas imtlg_equal_proj,
config_equal_cos, amtl_orthogonal [L]."""
from .aggs import SPECS, build_check

CHECKS = [build_check("C17", SPECS[k], clauses=("rejects", "post")) for k in
          ("IMTLG", "ConFIG.default", "ConFIG.pref", "AlignedMTL.default", "AlignedMTL.pref")]
TRUSTED = ["torch.linalg.pinv / eigh / nan_to_num obey their documentation (Moore-Penrose inverse; M = V diag(l) V^T with "
           "orthonormal V and ascending l)",
           "bridge lemmas imtlg_equal_proj, config_equal_cos, amtl_orthogonal (Lean) hold for full row rank"]

VALIDATE_ALGEBRAIC_PRIMS = True  # [V] the algebraic primitive contracts are sampled against real torch on every run
