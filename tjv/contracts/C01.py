"""C01 — backward() deposits the aggregation of the true Jacobian into .grad [P].

The REAL backward() is executed symbolically end to end (every transform inlined from its AST; loops by their
sidecar invariants) for a symbolic number of output tensors and inputs of arbitrary shapes, an abstract aggregator,
an arbitrary pre-existing .grad heap, any retain_graph flag and any parallel_chunk_size.

Postcondition (from the statement).  Let T = tensors (in the order given), R their total number of scalars, pi the
enumeration of set(inputs) in which the pipeline lists the keys (the set's iteration order), offI its numel prefix
sums.  Then
  (agg_input)  the matrix handed to the aggregator is U with U[r, offI(i)+c] = DJ(T, r, pi(i), c), 0 when pi(i) does
               not influence the outputs,  for all r < R;
  (heap)       for every input x = pi(i):  grad'(x)[c] = (grad(x)[c] if it existed else 0) + A(U)[offI(i) + c],
               every other .grad is unchanged;
  (no_raise)   a valid call does not raise.
Independence of the order in which `inputs` is LISTED holds because the code turns the list into a set first
(obligation `order`): the result only depends on set(inputs)."""
from __future__ import annotations

import z3

from tjv.pyvc import prims as P
from tjv.pyvc import values as V
from tjv.pyvc.core import PathEnd
from tjv.pyvc.lten import DJ, AbstractAgg, Heap, LTen, _outs_handle
from tjv.pyvc.run import Check
from tjv.pyvc.values import U, lift
from . import autojac as A
from .common import call_catch

TR, AJ = A.TR, A.AJ

FUNCS = [f"{AJ}.backward.backward", f"{AJ}._utils._check_optional_positive_chunk_size", f"{AJ}._utils._as_tensor_list",
         f"{TR}.init.Init.__init__", f"{TR}.init.Init._compute", f"{TR}.diagonalize.Diagonalize.__init__",
         f"{TR}.diagonalize.Diagonalize._compute", f"{TR}._differentiate._Differentiate.__init__",
         f"{TR}._differentiate._Differentiate._compute", f"{TR}.jac.Jac.__init__", f"{TR}.jac.Jac._differentiate",
         f"{TR}.jac._get_jac_matrix_chunk", f"{TR}.jac._extract_sub_matrices", f"{TR}.jac._reshape_matrices",
         f"{TR}.aggregate.Aggregate.__init__", f"{TR}.aggregate.Aggregate._compute", f"{TR}.aggregate._Matrixify._compute",
         f"{TR}.aggregate._AggregateMatrices.__init__", f"{TR}.aggregate._AggregateMatrices._compute",
         f"{TR}.aggregate._AggregateMatrices._select_ordered_subdict", f"{TR}.aggregate._AggregateMatrices._aggregate_group",
         f"{TR}.aggregate._AggregateMatrices._unite", f"{TR}.aggregate._AggregateMatrices._disunite",
         f"{TR}.aggregate._Reshape._compute", f"{TR}.accumulate.Accumulate.__init__", f"{TR}.accumulate.Accumulate._compute",
         f"{TR}.accumulate._check_expects_grad", f"{TR}.base.Composition.__init__", f"{TR}.base.Composition._compute",
         f"{TR}.base.Transform.__call__", f"{TR}.base.Transform.compose", f"{TR}._utils.ordered_set",
         f"{TR}.tensor_dict.TensorDict.__init__", f"{TR}.tensor_dict.TensorDict.check_keys_are",
         f"{TR}.tensor_dict.EmptyTensorDict.__init__"]


def setup(cx, it, H, valid=True, agg_may_raise=False):
    heap = Heap(cx)
    cx.ghost["heap"] = heap
    T = A.tensor_list(cx, "T", distinct=True if valid else None, min_len=1 if valid else 0)
    L = A.tensor_list(cx, "L", distinct=None)  # `inputs` as listed by the caller (duplicates allowed: it becomes a set)
    k, kn = z3.Int("chunk"), z3.Bool("chunk_is_none")
    if valid:
        cx.assume(z3.Or(kn, k > 0))
    rg = z3.Bool("retain_graph")
    agg = AbstractAgg(cx, may_raise=agg_may_raise)
    offT = A.offsets(it, T)
    if valid:
        cx.assume(offT.total() >= 1)  # precondition: at least one scalar to differentiate
        jq = z3.Int("j!q")
        cx.assume(V.forall([jq], z3.Implies(z3.And(0 <= jq, jq < L.length), A.expects_grad(L.get(jq).ref)),
                            patterns=[L.get(jq).ref]))
    return heap, T, L, V.Opt(kn, k), rg, agg, offT


def backward_check(H):
    def body(cx):
        it = H.interp(cx, loop_specs=A.LOOPS, overrides=A.SUMMARIES)
        heap, T, L, chunk, rg, agg, offT = setup(cx, it, H)
        has0, val0, stor0 = heap.snapshot()
        # `inputs` is annotated Iterable[Tensor]: it is passed as a ONE-SHOT iterable (a second traversal would be empty)
        kind, out = call_catch(lambda: it.call(H.repo.get(f"{AJ}.backward.backward"), [T, agg, V.SymIter(L), rg, chunk]))
        cx.oblige("C01.backward.no_raise_on_valid_call", kind == "return", where=str(getattr(out, "where", "")))
        if kind != "return":
            return
        S = P.set_from_seq(it, L)
        if not isinstance(S, V.SymSet):
            return
        pi = S.seq(cx)  # the enumeration of set(inputs) used by the pipeline
        offI = A.offsets(it, pi)
        h, _ = _outs_handle(it, T)
        R = offT.total()
        q = pi.length
        # ---- aggregator input
        if agg.calls:
            M, aggout = agg.calls[0]
            cx.oblige("C01.agg_input.called_once", len(agg.calls) == 1)
            cx.oblige("C01.agg_input.shape", z3.And(lift(M.shape.lead[0]) == R, lift(M.shape.lead[1]) == offI.total()))
            r, i, c = cx.fresh_int("r"), cx.fresh_int("i"), cx.fresh_int("c")
            cx.assume(z3.And(0 <= r, r < R, 0 <= i, i < q, 0 <= c, c < A.numel(pi.get(i).ref)))
            x = pi.get(i).ref
            want = z3.If(U("unreachable", z3.BoolSort(), h, x), 0, DJ(h, r, x, c))
            cx.oblige("C01.agg_input.post", M.elem([r, offI.off(i) + c]) == want)
        else:
            cx.oblige("C01.agg_input.skipped_only_without_inputs", q == 0)
            aggout = None
        # ---- heap
        x, c = cx.fresh_const("x", A.TenS), cx.fresh_int("c")
        inS = S.contains(x)
        cx.assume(z3.And(0 <= c, c < A.numel(x)))
        if aggout is not None:
            idx = pi.index_of
            upd = z3.If(has0(x), val0(x, c), 0) + aggout(offI.off(idx(x)) + c)
            cx.oblige("C01.backward.post.requested", z3.Implies(inS, z3.And(heap.has_f(x), heap.val_f(x, c) == upd)))
        cx.oblige("C01.backward.post.frame", z3.Implies(z3.Not(inS), z3.And(heap.has_f(x) == has0(x), heap.val_f(x, c) == val0(x, c),
                                                                               heap.stor_f(x) == stor0(x))))
    H.explore(body, max_paths=2000)


CHECKS = [Check("backward", FUNCS, backward_check, replay_keys=["C01."])]


def _with_summaries():
    """A caller verified against summaries is only as good as the isolated contracts of its callees: they are part of
    this property's obligations (C15: Diagonalize, Jac, Aggregate, _materialize and the layout lemmas; C06: Accumulate)."""
    from .C06 import CHECKS as c06
    from .C15 import CHECKS as c15
    keep = ("diag", "jac", "aggregate", "theory.prefix_sum_monotone", "theory.block_lookup", "theory.materialize")
    return [c for c in c15 if c.name in keep] + list(c06)

TRUSTED = [
    "autograd theory [T]: torch.autograd.grad(outputs, inputs, grad_outputs, allow_unused=True) returns per input None "
    "(unreachable) or sum_r cot(r)*DJ(outputs, r, x, c); DJ is DEFINED as what PyTorch differentiates (total derivative "
    "through several paths is PyTorch's property, validated only by the bounded arm)",
    "torch.vmap(f, chunk_size=c)(xs)[b] = f(xs[b]); view/reshape between (m,*s) and (m, numel(s)) is the identity on "
    "row-major addressing; cat/diag/slicing/clone/+= pointwise contracts",
    "the aggregator is an arbitrary function of its input matrix with len(A(M)) = ncols(M)",
    "contract of _materialize (None -> zeros of the input's shape) is applied at its call sites",
]
ASSUMPTIONS = ["C01: inputs / parameters that are NON-LEAF tensors retaining grad are outside the discharged obligations: the trusted contract 'torch.autograd.grad writes no .grad field' is false for them (autograd's retain_grad hook fills their .grad during the sweep) - known finding C06.retained_input, reproduced by the bounded arm on every run",
               "C01: precondition — `tensors` non-empty, duplicate-free, at least one scalar in total; every input expects grad"]


# ----------------------------------------------------------------------------- shared with C07 / C13 / C20


def plumbing_check(prefix):
    """backward(): the chunk size and the retain_graph flag of the caller reach the (single) Jac unchanged, and Jac is
    the only differentiating transform of the pipeline.  Together with the proved ghost contract of
    Jac._differentiate (C15.jac.ghost.*: ceil(m/k) sweeps of at most k rows, all but the last retaining the graph, the
    last with Jac.retain_graph, vmap only for chunks of more than one row) this gives C07 / C13 for backward()."""
    def fn(H):
        def body(cx):
            it = H.interp(cx, loop_specs=A.LOOPS, overrides=A.SUMMARIES)
            heap, T, L, chunk, rg, agg, offT = setup(cx, it, H)
            kind, out = call_catch(lambda: it.call(H.repo.get(f"{AJ}.backward.backward"), [T, agg, L, rg, chunk]))
            if kind != "return":
                return
            jc = [e for e in cx.events if e[0] == "jac_call"]
            sw = [e for e in cx.events if e[0] == "sweep"]
            S = P.set_from_seq(it, L)
            nonempty = (S.seq(cx).length > 0) if isinstance(S, V.SymSet) else z3.BoolVal(False)
            cx.oblige(f"{prefix}.backward.single_jac", z3.And(len(jc) <= 1, len(sw) == 0, z3.Implies(nonempty, len(jc) == 1)))
            for e in jc:
                c = e[1]["chunk"]
                cx.oblige(f"{prefix}.backward.chunk_size_reaches_jac", z3.And(lift(c.is_none) == chunk.is_none,
                                                                              z3.Implies(z3.Not(chunk.is_none), lift(c.value) == chunk.value)))
                cx.oblige(f"{prefix}.backward.retain_graph_reaches_jac", lift(e[1]["retain"]) == rg)
                cx.oblige(f"{prefix}.backward.no_create_graph", e[1]["create_graph"] is False)
                cx.oblige(f"{prefix}.backward.rows_are_all_output_scalars", lift(e[1]["rows"]) == offT.total())
        H.explore(body, max_paths=2000)
    return Check("backward.plumbing", FUNCS, fn, replay_keys=[prefix + "."])


CHECKS += _with_summaries()

VALIDATE_LAYOUT_PRIMS = True  # [V] the layout primitive contracts are sampled against real torch on every run
