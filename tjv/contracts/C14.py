"""C14 — transform pipelines are key-typed [P] (set-level, unbounded in the key universe).

Transforms are abstract objects with arbitrary symbolic key sets; the REAL Composition.__init__, Conjunction.__init__
(k = 1, 2, 3 members), Transform.__call__, Select.__init__ and the TensorDict machinery are executed from their ASTs."""
from __future__ import annotations

import z3

from tjv.pyvc import prims as P
from tjv.pyvc import values as V
from tjv.pyvc.core import SymRaise
from tjv.pyvc.interp import SymObj
from tjv.pyvc.lten import LTen
from tjv.pyvc.run import Check
from tjv.pyvc.values import TenS, lift
from . import autojac as A
from .common import call_catch

TR = A.TR
BASE = f"{TR}.base"


def abstract_transform(cx, it, H, name):
    """A transform known only through its key sets; _compute returns a TensorDict with exactly the output keys."""
    o = SymObj(H.repo.get(f"{BASE}.Transform"))
    req, out = V.SymSet(cx, f"{name}.req"), V.SymSet(cx, f"{name}.out")
    o.attrs["required_keys"] = req
    o.attrs["output_keys"] = out
    o.calls = []

    def compute(interp, inp):
        o.calls.append(inp)
        keys = out.seq(cx)
        m = V.SymMap(keys, lambda t: LTen(V.TRef(t).shape, lambda ix: z3.RealVal(0)))
        return interp.call(interp.repo.get(f"{TR}.tensor_dict.TensorDict"), [m])
    o.attrs["_compute"] = V.SymMethod(compute)
    return o, req, out


def composition_check(H):
    def body(cx):
        it = H.interp(cx)
        outer, oreq, oout = abstract_transform(cx, it, H, "outer")
        inner, ireq, iout = abstract_transform(cx, it, H, "inner")
        kind, c = call_catch(lambda: it.call(H.repo.get(f"{BASE}.Composition"), [outer, inner]))
        match = oreq.arr == iout.arr
        if kind == "raise":
            cx.oblige("C14.comp.init.raises_only_on_mismatch", z3.And(c.cls == "ValueError", z3.Not(match)))
            return
        cx.oblige("C14.comp.init.accepts_only_on_match", match)
        rk, ok = it.getattr(c, "required_keys"), it.getattr(c, "output_keys")
        cx.oblige("C14.comp.keys", z3.And(P.lift_set(it, rk).arr == ireq.arr, P.lift_set(it, ok).arr == oout.arr))
        # _compute = outer(inner(x)): inner runs first, then outer, each exactly once
        x = it.call(H.repo.get(f"{TR}.tensor_dict.TensorDict"), [V.SymMap(ireq.seq(cx), lambda t: LTen(V.TRef(t).shape, lambda ix: z3.RealVal(0)))])
        kind2, res = call_catch(lambda: it.call(c, [x]))
        cx.oblige("C14.comp.call_runs_inner_then_outer", kind2 == "return" and len(inner.calls) == 1 and len(outer.calls) == 1)
    H.explore(body)


def conjunction_check(k):
    def fn(H):
        def body(cx):
            it = H.interp(cx)
            ts = [abstract_transform(cx, it, H, f"t{i}") for i in range(k)]
            # the members' key sets as they are BEFORE the construction (set objects are mutable and may be aliased)
            req0, out0 = [t[1].arr for t in ts], [t[2].arr for t in ts]
            kind, c = call_catch(lambda: it.call(H.repo.get(f"{BASE}.Conjunction"), [[t[0] for t in ts]]))
            same_req = z3.And([req0[i] == req0[0] for i in range(1, k)]) if k > 1 else z3.BoolVal(True)
            tq = z3.Const("t!q", TenS)
            disj = z3.And([V.forall([tq], z3.Not(z3.And(z3.Select(out0[i], tq), z3.Select(out0[j], tq))))
                           for i in range(k) for j in range(i + 1, k)]) if k > 1 else z3.BoolVal(True)
            ok = z3.And(same_req, disj)
            cx.oblige(f"C14.conj{k}.init.members_key_sets_untouched", z3.And([ts[i][1].arr == req0[i] for i in range(k)] + [ts[i][2].arr == out0[i] for i in range(k)]))
            if kind == "raise":
                cx.oblige(f"C14.conj{k}.init.raises_only_if_ill_formed", z3.And(c.cls == "ValueError", z3.Not(ok)))
                return
            cx.oblige(f"C14.conj{k}.init.accepts_only_if_well_formed.same_required", same_req)
            cx.oblige(f"C14.conj{k}.init.accepts_only_if_well_formed.disjoint_outputs", disj)
            rk, okk = it.getattr(c, "required_keys"), it.getattr(c, "output_keys")
            x = cx.fresh_const("x", TenS)
            cx.oblige(f"C14.conj{k}.keys.required", P.lift_set(it, rk).contains(x) == z3.Select(req0[0], x))
            cx.oblige(f"C14.conj{k}.keys.output_is_union", P.lift_set(it, okk).contains(x) == z3.Or([z3.Select(o, x) for o in out0]))
        H.explore(body, max_paths=2000)
    return Check(f"conjunction{k}", [f"{BASE}.Conjunction.__init__"], fn, replay_keys=["C14.conjunction", "C14.construct"])


def call_keys_check(H):
    def body(cx):
        it = H.interp(cx)
        tr, req, out = abstract_transform(cx, it, H, "t")
        K = V.SymSet(cx, "dict_keys")
        x = it.call(H.repo.get(f"{TR}.tensor_dict.TensorDict"), [V.SymMap(K.seq(cx), lambda t: LTen(V.TRef(t).shape, lambda ix: z3.RealVal(0)), dom=K.contains)])
        call = H.repo.get(f"{BASE}.Transform").methods["__call__"]
        kind, res = call_catch(lambda: it.call_func(call, [tr, x], {}))
        match = K.arr == req.arr
        if kind == "raise":
            cx.oblige("C14.call.keys.raises_only_on_mismatch", z3.And(res.cls == "ValueError", z3.Not(match)))
            cx.oblige("C14.call.keys.raises_before_compute", len(tr.calls) == 0)
            return
        cx.oblige("C14.call.keys.accepts_only_on_match", match)
        y = cx.fresh_const("y", TenS)
        cx.oblige("C14.call.result_has_exactly_the_output_keys", P.map_dom(it, P.to_symmap(it, res.payload))(y) == out.contains(y))
    H.explore(body)


def select_check(H):
    def body(cx):
        it = H.interp(cx)
        keys, req = A.tensor_list(cx, "keys", distinct=None), A.tensor_list(cx, "req", distinct=None)
        kind, s = call_catch(lambda: it.call(H.repo.get(f"{TR}.select.Select"), [keys, req]))
        Sk, Sr = P.set_from_seq(it, keys), P.set_from_seq(it, req)
        Sk, Sr = P.lift_set(it, Sk), P.lift_set(it, Sr)
        tq = z3.Const("t!q", TenS)
        sub = V.forall([tq], z3.Implies(Sk.contains(tq), Sr.contains(tq)))
        if kind == "raise":
            cx.oblige("C14.select.init.raises_only_if_not_subset", z3.And(s.cls == "ValueError", z3.Not(sub)))
            return
        cx.oblige("C14.select.init.accepts_only_subsets", sub)
        x = cx.fresh_const("x", TenS)
        cx.oblige("C14.select.keys", z3.And(P.lift_set(it, it.getattr(s, "required_keys")).contains(x) == Sr.contains(x),
                                            P.lift_set(it, it.getattr(s, "output_keys")).contains(x) == Sk.contains(x)))
    H.explore(body)


def declared_keys_check(H):
    """required_keys / output_keys of the concrete transforms are the declared ones."""
    def body(cx):
        it = H.interp(cx, loop_specs=A.LOOPS, overrides=A.SUMMARIES)
        Tl = A.tensor_list(cx, "T", distinct=True)
        Il = A.tensor_list(cx, "I", distinct=True)
        ST, SI = P.lift_set(it, P.set_from_seq(it, Tl)), P.lift_set(it, P.set_from_seq(it, Il))
        x = cx.fresh_const("x", TenS)

        def keys(o):
            return P.lift_set(it, it.getattr(o, "required_keys")), P.lift_set(it, it.getattr(o, "output_keys"))
        empty = lambda s: z3.Not(s.contains(x))  # noqa: E731
        same = lambda s, t: s.contains(x) == t.contains(x)  # noqa: E731
        init = it.call(H.repo.get(f"{TR}.init.Init"), [Tl])
        r, o = keys(init)
        cx.oblige("C14.keys.Init", z3.And(empty(r), same(o, ST)))
        diag = it.call(H.repo.get(f"{TR}.diagonalize.Diagonalize"), [Tl])
        r, o = keys(diag)
        cx.oblige("C14.keys.Diagonalize", z3.And(same(r, ST), same(o, ST)))
        acc = it.call(H.repo.get(f"{TR}.accumulate.Accumulate"), [Tl])
        r, o = keys(acc)
        cx.oblige("C14.keys.Accumulate", z3.And(same(r, ST), empty(o)))
        jac = it.call(H.repo.get(f"{TR}.jac.Jac"), [Tl, Il, None, False])
        r, o = keys(jac)
        cx.oblige("C14.keys.Jac", z3.And(same(r, ST), same(o, SI)))
        grad = it.call(H.repo.get(f"{TR}.grad.Grad"), [Tl, Il])
        r, o = keys(grad)
        cx.oblige("C14.keys.Grad", z3.And(same(r, ST), same(o, SI)))
        from tjv.pyvc.lten import AbstractAgg
        aggr = it.call(H.repo.get(f"{TR}.aggregate.Aggregate"), [AbstractAgg(cx), Tl])
        r, o = keys(aggr)
        cx.oblige("C14.keys.Aggregate", z3.And(same(r, ST), same(o, ST)))
    H.explore(body, max_paths=2000)


def lca_check(H):
    """[E] _least_common_ancestor on all pairs of the dictionary classes found in the AST, against the true least
    common ancestor computed independently from the C3 linearisations."""
    def body(cx):
        it = H.interp(cx)
        mod = H.repo.modules[f"{TR}.tensor_dict"]
        classes = [c for c in mod.classes.values() if c.issubclass_of(H.repo, mod.classes["TensorDict"])]
        lca = H.repo.get(f"{TR}.tensor_dict._least_common_ancestor")
        for a in classes:
            for b in classes:
                got = it.call(lca, [a, b])
                common = [c for c in a.mro(H.repo) if b.issubclass_of(H.repo, c)]
                # true LCA(s): common ancestors that are not a strict ancestor of another common ancestor
                minimal = [c for c in common if not any(d is not c and d.issubclass_of(H.repo, c) for d in common)]
                cx.oblige(f"C14.lca.{a.name}.{b.name}", got in minimal and (len(minimal) == 1 or got is minimal[0]))
        cx.oblige("C14.lca.six_classes", len(classes) == 6)
    H.explore(body)


def immutable_check(H):
    def body(cx):
        it = H.interp(cx)
        mod = H.repo.modules[f"{TR}.tensor_dict"]
        td = mod.classes["TensorDict"]
        names = ["__setitem__", "__delitem__", "clear", "update", "setdefault", "pop", "popitem"]
        for c in mod.classes.values():
            if not c.issubclass_of(H.repo, td):
                continue
            for n in names:
                look = c.lookup(H.repo, n)
                bound = look is not None and look[0] == "attr" and look[2] is td and getattr(look[1], "id", None) == "_raise_immutable_error"
                cx.oblige(f"C14.tdict.immutable.{c.name}.{n}", bound)
        # and the handler raises TypeError unconditionally
        obj = SymObj(td)
        obj.payload = {}
        kind, e = call_catch(lambda: it.call_func(td.methods["_raise_immutable_error"], [obj, 1, 2], {}))
        cx.oblige("C14.tdict.immutable.handler_always_raises_TypeError", kind == "raise" and e.cls == "TypeError")
    H.explore(body)


def gradients_shape_check(H):
    """Gradients(d) raises ValueError iff some value's shape differs from its key's shape (arbitrary ranks)."""
    def body(cx):
        it = H.interp(cx)
        K = A.tensor_list(cx, "K", distinct=True)
        shp = cx.fresh_func("vshape", TenS, A.ShapeS)
        m = V.SymMap(K, lambda t: LTen(V.Shape([], shp(t)), lambda ix: z3.RealVal(0)))
        kind, g = call_catch(lambda: it.call(H.repo.get(f"{TR}.tensor_dict.Gradients"), [m]))
        j = z3.Int("j!q")
        ok = V.forall([j], z3.Implies(z3.And(0 <= j, j < K.length), shp(K.get(j).ref) == V.TRef(K.get(j).ref).shape.tail))
        if kind == "raise":
            cx.oblige("C14.tdict.Gradients.init.raises_only_on_shape_mismatch", z3.And(g.cls == "ValueError", z3.Not(ok)))
        else:
            cx.oblige("C14.tdict.Gradients.init.accepts_only_matching_shapes", ok)
    H.explore(body)


CHECKS = [
    Check("composition", [f"{BASE}.Composition.__init__", f"{BASE}.Composition._compute", f"{BASE}.Transform.__call__"], composition_check,
          replay_keys=["C14.compose"]),
    conjunction_check(1), conjunction_check(2), conjunction_check(3),
    Check("call_keys", [f"{BASE}.Transform.__call__", f"{TR}.tensor_dict.TensorDict.check_keys_are"], call_keys_check, replay_keys=["C14.call_keys"]),
    Check("select", [f"{TR}.select.Select.__init__"], select_check, replay_keys=["C14.construct"]),
    Check("declared_keys", [f"{TR}.init.Init.__init__", f"{TR}.diagonalize.Diagonalize.__init__", f"{TR}.accumulate.Accumulate.__init__",
                            f"{TR}.jac.Jac.__init__", f"{TR}.grad.Grad.__init__", f"{TR}.aggregate.Aggregate.__init__",
                            f"{TR}._differentiate._Differentiate.__init__"], declared_keys_check, replay_keys=["C14.construct", "C14.output"]),
    Check("lca", [f"{TR}.tensor_dict._least_common_ancestor"], lca_check, replay_keys=["C14.lca", "C14.output"], kind="E"),
    Check("immutable", [f"{TR}.tensor_dict.TensorDict._raise_immutable_error"], immutable_check, replay_keys=["C14.immutable"]),
    Check("gradients_shape", [f"{TR}.tensor_dict.TensorDict.__init__", f"{TR}.tensor_dict.TensorDict._check_all_pairs",
                              f"{TR}.tensor_dict.Gradients._check_key_value_pair", f"{TR}.tensor_dict._check_same_shape"],
          gradients_shape_check, replay_keys=["C14.shape_check"]),
]
TRUSTED = ["finite-set cardinality: |A u B| = |A| + |B| iff A, B disjoint (inclusion-exclusion; Mathlib Finset.card_union_add_card_inter)"]
ASSUMPTIONS = ["C14: conjunctions with 1..3 members are unrolled (BOUNDED in the member count; key sets are arbitrary); associativity / "
               "commutativity and the shape grid of the four other dictionary types are decided by the bounded/exhaustive arm"]


def union_check(H):
    """_union([d1, d2]) (the body of Conjunction._compute): keys = union of the keys, type = the most specific
    dictionary type common to d1 and d2 — also when one of them has no key."""
    def val_for(cls_name, t, m):
        sh = V.TRef(t).shape
        if cls_name in ("Gradients", "TensorDict", "EmptyTensorDict"):
            return LTen(V.Shape([], sh.tail), lambda ix: z3.RealVal(0))
        if cls_name == "Jacobians":
            return LTen(V.Shape([m], sh.tail), lambda ix: z3.RealVal(0))
        if cls_name == "GradientVectors":
            return LTen(V.Shape([A.numel(t)]), lambda ix: z3.RealVal(0))
        return LTen(V.Shape([m, A.numel(t)]), lambda ix: z3.RealVal(0))

    def body(cx):
        it = H.interp(cx)
        mod = H.repo.modules[f"{TR}.tensor_dict"]
        td = mod.classes["TensorDict"]
        names = ["TensorDict", "Gradients", "Jacobians", "GradientVectors", "JacobianMatrices", "EmptyTensorDict"]
        ia, ib = cx.choose(len(names), "clsA"), cx.choose(len(names), "clsB")
        ca, cb = mod.classes[names[ia]], mod.classes[names[ib]]
        m, mb = z3.Int("m"), z3.Int("mb")   # first dimensions of the values of the two dictionaries (may differ)
        cx.assume(z3.And(m >= 0, mb >= 0))
        Ka, Kb = A.tensor_list(cx, "Ka", distinct=True), A.tensor_list(cx, "Kb", distinct=True)
        if names[ia] == "EmptyTensorDict":
            cx.assume(Ka.length == 0)
        if names[ib] == "EmptyTensorDict":
            cx.assume(Kb.length == 0)
        from .C02 import disjoint_seqs
        disjoint_seqs(cx, Ka, Kb)
        da = it.call(ca, [V.SymMap(Ka, lambda t: val_for(names[ia], t, m))] if names[ia] != "EmptyTensorDict" else [])
        db = it.call(cb, [V.SymMap(Kb, lambda t: val_for(names[ib], t, mb))] if names[ib] != "EmptyTensorDict" else [])
        kind, out = call_catch(lambda: it.call(H.repo.get(f"{TR}._utils._union"), [[da, db]]))
        common = [c for c in ca.mro(H.repo) if cb.issubclass_of(H.repo, c)]
        minimal = [c for c in common if not any(d is not c and d.issubclass_of(H.repo, c) for d in common)]
        # the merged dictionary is validated AS the common type: two row-typed dictionaries with different row counts must be
        # rejected (both non-empty), everything else is accepted
        rowtyped = len(minimal) == 1 and minimal[0].name in ("Jacobians", "JacobianMatrices")
        must_raise = z3.And(Ka.length >= 1, Kb.length >= 1, m != mb) if rowtyped else z3.BoolVal(False)
        if kind != "return":
            cx.oblige("C14.union.raises_only_on_row_count_mismatch", z3.And(out.cls == "ValueError", must_raise), where=str(getattr(out, "where", "")))
            return
        cx.oblige("C14.union.accepts_only_consistent_row_counts", z3.Not(must_raise))
        cx.oblige(f"C14.union.type.{names[ia]}.{names[ib]}", len(minimal) == 1 and out.cls is minimal[0])
        x = cx.fresh_const("x", TenS)
        ina = P.map_dom(it, V.SymMap(Ka, lambda t: None))(x)
        inb = P.map_dom(it, V.SymMap(Kb, lambda t: None))(x)
        dom = P.map_dom(it, P.to_symmap(it, out.payload))(x) if not (isinstance(out.payload, dict) and not out.payload) else z3.BoolVal(False)
        cx.oblige("C14.union.keys", dom == z3.Or(ina, inb))
    H.explore(body, max_paths=4000)


CHECKS.append(Check("union", [f"{TR}._utils._union", f"{TR}.tensor_dict._least_common_ancestor", f"{BASE}.Conjunction._compute"], union_check,
                    replay_keys=["C14.output"]))


# ----------------------------------------------------------------------------- shape rules of the other dictionary types; Stack.__init__


def typed_dict_shape_check(clsname):
    """<clsname>(d) raises ValueError iff some value contradicts the type's shape rule (values of the right RANK with
    arbitrary symbolic sizes; a value of another rank is rejected structurally: see rank_check)."""
    def fn(H):
        def body(cx):
            it = H.interp(cx)
            K = A.tensor_list(cx, "K", distinct=True)
            mf = cx.fresh_func("vrows", TenS, z3.IntSort())
            cf = cx.fresh_func("vcols", TenS, z3.IntSort())
            shp = cx.fresh_func("vshape", TenS, A.ShapeS)
            tq = z3.Const("t!q", TenS)
            cx.assume(V.forall([tq], z3.And(mf(tq) >= 0, cf(tq) >= 0)))
            if clsname == "Jacobians":
                val = lambda t: LTen(V.Shape([mf(t)], shp(t)), lambda ix: z3.RealVal(0))  # noqa: E731
                ok_pair = lambda t: shp(t) == V.TRef(t).shape.tail  # noqa: E731
                need_rows = True
            elif clsname == "JacobianMatrices":
                val = lambda t: LTen(V.Shape([mf(t), cf(t)]), lambda ix: z3.RealVal(0))  # noqa: E731
                ok_pair = lambda t: cf(t) == A.numel(t)  # noqa: E731
                need_rows = True
            else:  # GradientVectors
                val = lambda t: LTen(V.Shape([cf(t)]), lambda ix: z3.RealVal(0))  # noqa: E731
                ok_pair = lambda t: cf(t) == A.numel(t)  # noqa: E731
                need_rows = False
            order = A.arbitrary_order(cx, it, K)
            kind, g = call_catch(lambda: it.call(H.repo.get(f"{TR}.tensor_dict.{clsname}"), [V.SymMap(order, val)]))
            i, j = z3.Int("i!q"), z3.Int("j!q")
            ok = V.forall([j], z3.Implies(z3.And(0 <= j, j < K.length), ok_pair(K.get(j).ref)))
            if need_rows:
                ok = z3.And(ok, V.forall([i, j], z3.Implies(z3.And(0 <= i, i < K.length, 0 <= j, j < K.length),
                                                            mf(K.get(i).ref) == mf(K.get(j).ref))))
            if kind == "raise":
                cx.oblige(f"C14.tdict.{clsname}.init.raises_only_on_shape_mismatch", z3.And(g.cls == "ValueError", z3.Not(ok)),
                          where=str(getattr(g, "where", "")))
            else:
                cx.oblige(f"C14.tdict.{clsname}.init.accepts_only_matching_shapes", ok)
        H.explore(body, max_paths=2000)
    return Check(f"shape.{clsname}", [f"{TR}.tensor_dict.TensorDict.__init__", f"{TR}.tensor_dict.{clsname}._check_key_value_pair",
                                      f"{TR}.tensor_dict._check_values_have_unique_first_dim", f"{TR}.tensor_dict._check_value_n_dim",
                                      f"{TR}.tensor_dict._check_corresponding_numel", f"{TR}.tensor_dict._check_value_has_jacobian_shape"],
                 fn, replay_keys=["C14.shape_check"])


def stack_init_check(k):
    def fn(H):
        def body(cx):
            it = H.interp(cx)
            ts = [abstract_transform(cx, it, H, f"t{i}") for i in range(k)]
            req0, out0 = [t[1].arr for t in ts], [t[2].arr for t in ts]
            kind, s = call_catch(lambda: it.call(H.repo.get(f"{TR}.stack.Stack"), [[t[0] for t in ts]]))
            same_req = z3.And([req0[i] == req0[0] for i in range(1, k)]) if k > 1 else z3.BoolVal(True)
            cx.oblige(f"C14.stack{k}.init.members_key_sets_untouched", z3.And([ts[i][1].arr == req0[i] for i in range(k)] + [ts[i][2].arr == out0[i] for i in range(k)]))
            if kind == "raise":
                cx.oblige(f"C14.stack{k}.init.raises_only_if_required_keys_differ", z3.And(s.cls == "ValueError", z3.Not(same_req)))
                return
            cx.oblige(f"C14.stack{k}.init.accepts_only_same_required_keys", same_req)
            x = cx.fresh_const("x", TenS)
            cx.oblige(f"C14.stack{k}.keys.required", P.lift_set(it, it.getattr(s, "required_keys")).contains(x) == z3.Select(req0[0], x))
            cx.oblige(f"C14.stack{k}.keys.output_is_union", P.lift_set(it, it.getattr(s, "output_keys")).contains(x) == z3.Or([z3.Select(o, x) for o in out0]))
        H.explore(body, max_paths=2000)
    return Check(f"stack_init{k}", [f"{TR}.stack.Stack.__init__"], fn, replay_keys=["C14.construct"])


CHECKS += [typed_dict_shape_check("Jacobians"), typed_dict_shape_check("JacobianMatrices"), typed_dict_shape_check("GradientVectors"),
           stack_init_check(1), stack_init_check(2), stack_init_check(3)]


def extra_checks():
    """Conjunction._compute / Stack._compute (C15): each member runs once on the input, the result has the union of the keys, and
    applying the transform stores nothing into it."""
    from . import C15
    return [c for c in C15.CHECKS if c.name in ("conj_compute2", "stack_compute2")]
