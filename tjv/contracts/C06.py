"""C06 — gradients accumulate; nothing but the requested .grad fields is touched [P]."""
from __future__ import annotations

import z3

from tjv.pyvc import prims as P
from tjv.pyvc import values as V
from tjv.pyvc.lten import Heap, LTen
from tjv.pyvc.run import Check
from tjv.pyvc.values import lift
from . import autojac as A
from .C15 import sym_gradients
from .common import call_catch

TR = A.TR


def accumulate_check(H):
    def body(cx):
        it = H.interp(cx, loop_specs=A.LOOPS, overrides=A.OVERRIDES)
        heap = Heap(cx)
        cx.ghost["heap"] = heap
        has0, val0, stor0 = heap.snapshot()
        K = A.tensor_list(cx, "K", distinct=True)
        acc = it.call(H.repo.get(f"{TR}.accumulate.Accumulate"), [K])
        g, gf = sym_gradients(cx, it, K)
        jq = z3.Int("j!q")
        all_expect = V.forall([jq], z3.Implies(z3.And(0 <= jq, jq < K.length), A.expects_grad(K.get(jq).ref)))
        n_writes0 = len([e for e in cx.events if e[0] == "grad_write"])
        kind, out = call_catch(lambda: it.call(acc, [g]))
        writes = [e for e in cx.events if e[0] == "grad_write"][n_writes0:]
        if kind == "raise":
            cx.oblige("C06.accumulate.raises_only_if_some_key_does_not_expect_grad", z3.And(out.cls == "ValueError", z3.Not(all_expect)))
            cx.oblige("C06.accumulate.no_write_before_raise", len(writes) == 0)
            return
        cx.oblige("C06.accumulate.accepts_only_if_all_keys_expect_grad", all_expect)
        cx.oblige("C06.accumulate.returns_empty", out.cls.name == "EmptyTensorDict")
        x, c = cx.fresh_const("x", A.TenS), cx.fresh_int("c")
        S = P.set_from_seq(it, K)
        inK = S.contains(x) if isinstance(S, V.SymSet) else z3.BoolVal(False)
        upd = z3.If(has0(x), val0(x, c), 0) + gf(x, c)
        cx.oblige("C06.accumulate.post.requested", z3.Implies(inK, z3.And(heap.has_f(x), heap.val_f(x, c) == upd)))
        cx.oblige("C06.accumulate.post.in_place_when_existing", z3.Implies(z3.And(inK, has0(x)), heap.stor_f(x) == stor0(x)))
        cx.oblige("C06.frame.others_untouched", z3.Implies(z3.Not(inK), z3.And(heap.has_f(x) == has0(x), heap.val_f(x, c) == val0(x, c),
                                                                              heap.stor_f(x) == stor0(x))))
    # the loop-step paths end inside the loop: the freshness obligation is attached to the store events there
    from tjv.pyvc.core import PathEnd

    def body2(cx):
        try:
            body(cx)
        finally:
            for e in cx.events:
                if e[0] == "grad_store" and not e[1]["inplace"]:
                    cx.oblige("C06.fresh.new_grad_owns_its_storage", bool(e[1]["owner"]))
                if e[0] == "grad_store" and e[1]["inplace"]:
                    cx.oblige("C06.accumulate.inplace_add_keeps_storage", True)
    H.explore(body2)


CHECKS = [
    Check("accumulate", [f"{TR}.accumulate.Accumulate.__init__", f"{TR}.accumulate.Accumulate._compute",
                         f"{TR}.accumulate._check_expects_grad", f"{TR}.accumulate._expects_grad", f"{TR}.base.Transform.__call__"],
          accumulate_check, replay_keys=["C06."]),
]

VALIDATE_LAYOUT_PRIMS = True  # [V] the layout primitive contracts are sampled against real torch on every run


def extra_checks():
    """'every requested .grad field is created / added to' is a statement about backward(): its contract (C01.backward.post.
    requested / frame) is an obligation of this property as well.  Evaluated lazily by the runner (C01 imports this module's checks)."""
    from . import C01
    return [c for c in C01.CHECKS if c.name == "backward"]

ASSUMPTIONS = ["C06: inputs / parameters that are NON-LEAF tensors retaining grad are outside the discharged obligations: the trusted contract 'torch.autograd.grad writes no .grad field' is false for them (autograd's retain_grad hook fills their .grad during the sweep) - known finding C06.retained_input, reproduced by the bounded arm on every run"]
