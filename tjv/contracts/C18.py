"""C18 — MGDA, PCGrad, CAGrad, GradDrop and Random satisfy their published definitions [P]+[L]."""
import z3

from tjv.pyvc.run import Check
from .aggs import AGG, AGG_LOOPS, SPECS, build_check
from .common import call_catch, finite, sym_matrix

CHECKS = [build_check("C18", SPECS[k], clauses=("rejects", "post", "dtype", "shape", "stateless")) for k in
          ("Random", "GradDrop.default", "GradDrop.leak", "PCGrad", "CAGrad")]
TRUSTED = ["bridge lemmas softmax_simplex, cagrad_distance, cagrad_c_zero, mgda_step_descent, simplex_segment, fwGamma_*, "
           "pcStep_*, pcgrad_no_conflict (Lean)"]


def mgda_check(H):
    """MGDA: forward raises ValueError iff the input is invalid; the Frank-Wolfe loop keeps alpha on the simplex and
    never increases the norm of the combination (loop invariant); the result is alpha_final @ J, in J's dtype, and
    nothing is stored into the aggregator."""
    from tjv.pyvc.aten import ATen
    from . import specs as S

    def body(cx):
        it = H.interp(cx, loop_specs=AGG_LOOPS)
        eps, mi = z3.Real("epsilon"), z3.Int("max_iters")
        cx.assume(mi >= 0)
        J, (m, n) = sym_matrix(cx, "J")
        cx.assume(m >= 1)
        agg = it.call(H.repo.get(f"{AGG}.mgda.MGDA"), [], {"epsilon": eps, "max_iters": mi})
        n_ev = len(cx.events)
        kind, v = call_catch(lambda: it.call(agg, [J]))
        if kind == "raise":
            cx.oblige("C18.MGDA.rejects_iff.raises_only_if_invalid", z3.And(v.cls == "ValueError", z3.Not(finite(J))))
            return
        cx.oblige("C18.MGDA.rejects_iff.accepts_only_valid", finite(J))
        cx.oblige("C18.MGDA.stateless", len([e for e in cx.events[n_ev:] if e[0] == "setattr"]) == 0)
        cx.oblige("C18.MGDA.dtype", v.dtype == J.dtype)
        cx.oblige("C18.MGDA.shape", z3.And(len(v.shape_l) == 1, v.shape_l[0] == n))
        alpha = cx.ghost.get("mgda_alpha_exit")
        if alpha is None:
            raise KeyError("the Frank-Wolfe loop of MGDA (sidecar loop contract) was not executed on this path")
        with cx.mute():
            spec = S.matmul(it, alpha, J)
        cx.oblige("C18.MGDA.post.result_is_alpha_at_J", v.term == spec.term)
        (vsum, nonneg, bil), a0, G = cx.ghost["mgda"]
        cx.oblige("C18.MGDA.post.weights_on_simplex", z3.And(vsum(alpha.term) == 1, nonneg(alpha.term)))
        cx.oblige("C18.MGDA.post.not_longer_than_the_mean", bil(alpha.term, alpha.term) <= bil(a0, a0))
        with cx.mute():
            G_spec = S.matmul(it, J, __import__("tjv.pyvc.aten", fromlist=["transpose"]).transpose(J))
            u0 = S.B(it, __import__("ast").Div(), __import__("tjv.pyvc.prims", fromlist=["call"]).call(it, "torch.ones", [m], {"dtype": J.dtype}), m)
        cx.oblige("C18.MGDA.post.gramian_and_start", z3.And(G.term == G_spec.term, a0 == u0.term))
    H.explore(body)


CHECKS.append(Check("MGDA", [f"{AGG}.mgda.MGDA.__init__", f"{AGG}.mgda._MGDAWeighting.__init__", f"{AGG}.mgda._MGDAWeighting.forward",
                             f"{AGG}.mgda._MGDAWeighting._frank_wolfe_solver", f"{AGG}._gramian_utils._compute_gramian",
                             f"{AGG}.bases._WeightedAggregator.forward"], mgda_check, replay_keys=["C18.mgda", "C04.mgda"]))

VALIDATE_ALGEBRAIC_PRIMS = True  # [V] the algebraic primitive contracts are sampled against real torch on every run
