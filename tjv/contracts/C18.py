"""C18 — MGDA, PCGrad, CAGrad, GradDrop and Random satisfy their published definitions [P]+[L]."""
import z3

from tjv.pyvc.run import Check
from .aggs import AGG, AGG_LOOPS, SPECS, build_check
from .common import call_catch, finite, sym_matrix

CHECKS = [build_check("C18", SPECS[k], clauses=("rejects", "post", "dtype", "shape", "stateless")) for k in
          ("Random", "GradDrop.default", "GradDrop.leak")]
TRUSTED = ["bridge lemmas softmax_simplex, cagrad_distance, cagrad_c_zero, mgda_step_descent, simplex_segment, fwGamma_*, "
           "pcStep_*, pcgrad_no_conflict (Lean)"]
