"""C05 — with linear aggregators, Jacobian descent coincides with PyTorch autograd [P]+[L].

[P]: Constant / Sum / Mean return  w @ J  with w = the configured weights / ones / 1/m (real constructor + forward),
and reject a wrong number of weights.  [L] vecMul_rows_of_linear, linear_agg_eq_vjp: w @ (rows L(e_r)) = L(w), i.e.
with the C01/C02 postconditions (rows of J are vector-Jacobian products of one-hot cotangents) the deposited update
is the vjp of the cotangent w — the [T] contract of torch.autograd.backward(tensors, grad_tensors = w)."""
from .aggs import SPECS, build_check

CHECKS = [build_check("C05", SPECS[k], clauses=("rejects", "post", "span")) for k in ("Constant", "Sum", "Mean")]
TRUSTED = ["torch.autograd.backward(tensors, grad_tensors=w) deposits sum_j vjp(t_j, x, w|_j) [T]",
           "bridge lemmas vecMul_rows_of_linear, linear_agg_eq_vjp (Lean)"]
