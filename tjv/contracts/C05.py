"""C05 — with linear aggregators, Jacobian descent coincides with PyTorch autograd [P]+[L].

[P]: Constant / Sum / Mean return  w @ J  with w = the configured weights / ones / 1/m (real constructor + forward),
and reject a wrong number of weights.  [L] vecMul_rows_of_linear, linear_agg_eq_vjp: w @ (rows L(e_r)) = L(w), i.e.
with the C01/C02 postconditions (rows of J are vector-Jacobian products of one-hot cotangents) the deposited update
is the vjp of the cotangent w — the [T] contract of torch.autograd.backward(tensors, grad_tensors = w)."""
from .aggs import SPECS, build_check

CHECKS = [build_check("C05", SPECS[k], clauses=("rejects", "post", "span", "stateless", "dtype", "shape")) for k in ("Constant", "Sum", "Mean")]


def _with_backward():
    """'coincides with autograd' is about what backward() DEPOSITS with such an aggregator: the contract of backward() (C01:
    aggregator input = true Jacobian, every requested input gets its slice, inputs given in any iterable) and of Aggregate
    (C15: the aggregator is applied to the whole united matrix, whatever its number of rows) are obligations of this property."""
    from .C01 import CHECKS as c01
    return [c for c in c01 if c.name in ("backward", "aggregate")]


CHECKS += _with_backward()
TRUSTED = ["torch.autograd.backward(tensors, grad_tensors=w) deposits sum_j vjp(t_j, x, w|_j) [T]",
           "bridge lemmas vecMul_rows_of_linear, linear_agg_eq_vjp (Lean)"]
