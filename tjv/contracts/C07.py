"""C07 — parallel_chunk_size is a pure performance knob [P].

(1) Jac._differentiate (isolated, chunk-loop invariant): for EVERY chunk size the result is the same spec rows
    (C15.jac.post does not mention the chunk size), the graph is swept exactly once per chunk — ceil(m/k) chunks, each
    of at most k rows (ghost obligations on the autograd.grad / vmap events) — and vmap is entered only for chunks
    of more than one row, so chunk size 1 and single rows are strictly sequential.
(2) backward(): the caller's parallel_chunk_size reaches that Jac unchanged (plumbing obligations)."""
from .C01 import plumbing_check
from .C15 import CHECKS as _c15

CHECKS = [c for c in _c15 if c.name == "jac"] + [plumbing_check("C07")]
TRUSTED = ["torch.vmap(f, chunk_size=c)(xs): one batched evaluation when c = len(xs); math.ceil(int/int) is exact ceiling division"]

# mtl_backward: the caller's chunk size / retain flag reach the shared Jac and every task's Grad (pipeline-structure contract)
from .C02 import mtl_structure as _mtl_structure  # noqa: E402
CHECKS += [_mtl_structure(2)]

VALIDATE_LAYOUT_PRIMS = True  # [V] the layout primitive contracts are sampled against real torch on every run
