"""C10 — the order of the objectives does not matter [P]+[L].

[P]: definitional postconditions (weights as Gramian-determined terms, preference vector used as the row-aligned
constant weighting) of UPGrad, DualProj (C03), Mean, Sum, Constant, IMTL-G, ConFIG, Aligned-MTL, TrimmedMean, Krum
(C16).  [L]: gramAgg_perm_invariant, qpmin_perm, qpmin_perm_unique (Lean) turn 'weights = f(G) with f
permutation-equivariant' into the statement; equivariance of pinv/eigh/topk/sort based f is a [T] law of those
primitives (absent ties / rank ambiguity, as the statement says).  MGDA, CAGrad, GradDrop: bounded arm."""
from .aggs import SPECS, build_check
from . import C03 as _c03
from . import C16 as _c16

CHECKS = [build_check("C10", SPECS[k], clauses=("post",)) for k in
          ("Mean", "Sum", "Constant", "IMTLG", "ConFIG.default", "ConFIG.pref", "AlignedMTL.default", "AlignedMTL.pref", "CAGrad",
           "GradDrop.default", "GradDrop.leak")]
CHECKS += list(_c03.CHECKS) + [c for c in _c16.CHECKS if c.name in ("tm.forward", "krum.forward")]
from .C18 import CHECKS as _c18  # noqa: E402
CHECKS += [c for c in _c18 if c.name == "MGDA"]
TRUSTED = ["pinv(P G P^T) = P pinv(G) P^T, eigh/sort/topk commute with row permutations absent ties [T]",
           "bridge lemmas gramAgg_perm_invariant, qpmin_perm, qpmin_perm_unique (Lean)"]
