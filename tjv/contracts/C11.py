"""C11 — aggregators are total, pure, stateless and positively homogeneous [P]+[L].

[P] per aggregator (real constructor + forward from the AST):
  .rejects_iff   forward raises ValueError exactly when the input is not 2-d, has nan/inf, or its row count contradicts
                 the configured weights / leak / minimum (and nothing else raises, except declared solver failures)
  .dtype/.shape  the result has one entry per column, in the dtype of the input
  .stateless     forward stores nothing into the aggregator or its weighting
  frame.*        every in-place operation hits a value allocated inside forward, never (a view of) the input
  .post          the result is the spec term (so homogeneity reduces to degree-0 homogeneity of the spec weights in G:
                 [L] gramAgg_homogeneous; for IMTL-G the guard must be scale-free: obligation imtlg.guard_scale_free)
Finiteness over 27 decades of scale is decided by the bounded arm only."""
import z3

from tjv.pyvc.run import Check
from .aggs import SPECS, build_check
from . import C03 as _c03
from . import C16 as _c16

ALL = ("rejects", "post", "dtype", "shape", "stateless")
CHECKS = [build_check("C11", SPECS[k], clauses=ALL) for k in
          ("Mean", "Sum", "Constant", "Random", "IMTLG", "ConFIG.default", "ConFIG.pref", "AlignedMTL.default", "AlignedMTL.pref",
           "PCGrad", "CAGrad", "GradDrop.default", "GradDrop.leak")]
CHECKS += list(_c03.CHECKS) + list(_c16.CHECKS)
from .C18 import CHECKS as _c18  # noqa: E402
CHECKS += [c for c in _c18 if c.name == "MGDA"]


def imtlg_guard_scale_free(H):
    """Relational obligation for IMTL-G's zero-sum guard: under J -> tJ (t > 0) the vector v = pinv(JJ^T) d scales
    by 1/t ([T]: pinv((tJ)(tJ)^T) = t^-2 pinv(JJ^T), norms scale by t), so with s = sum(v), a = sum|v| the guard
    must give the same verdict on (s, a) and (s/t, a/t).  The guard expression is read from the real AST."""
    import ast
    from tjv.pyvc.loader import Unsupported
    f = H.func("torchjd.aggregation.imtl_g._IMTLGWeighting.forward")
    guards = [n for n in ast.walk(f.node) if isinstance(n, ast.If)]
    if len(guards) != 1:
        raise Unsupported("expected exactly one guard in _IMTLGWeighting.forward")

    def body(cx):
        from tjv.pyvc.aten import ATen, scalar_aten, mk
        from tjv.pyvc.interp import Frame
        from tjv.pyvc.values import DtypeS
        it = H.interp(cx)
        s, a, t = z3.Real("s"), z3.Real("a"), z3.Real("t")
        cx.assume(z3.And(t > 0, a >= 0, z3.If(s >= 0, s, -s) <= a))
        dt = z3.Const("dt", DtypeS)
        res = []
        for scale in (z3.RealVal(1), t):
            fr = Frame(f, f.module)
            fr.qual = f.qualname

            class V_:
                """stand-in for v: only .sum(), .abs().sum() are used by the guard"""
                def __init__(self, absd=False):
                    self.absd = absd

                def sym_getattr(self, interp, name):
                    from tjv.pyvc import values as V
                    if name == "sum":
                        return V.SymMethod(lambda interp: scalar_aten((a if self.absd else s) / scale, dt))
                    if name == "abs":
                        return V.SymMethod(lambda interp: V_(True))
                    return V.MISSING
            fr.set("v", V_())
            fr.set("v_sum", scalar_aten(s / scale, dt))
            res.append(it.truth(it.eval(guards[0].test, fr)))
        cx.oblige("C11.imtlg.guard_scale_free", res[0] == res[1])
        # and it fires on the zero matrix (v = 0), so that the zero matrix gives the zero vector instead of 0/0
        cx.oblige("C11.imtlg.guard_fires_on_zero", z3.Implies(z3.And(s == 0, a == 0), res[0]))
    H.explore(body)


CHECKS.append(Check("imtlg.guard", ["torchjd.aggregation.imtl_g._IMTLGWeighting.forward"], imtlg_guard_scale_free,
                    replay_keys=["C11.deg0"]))
TRUSTED = ["pinv((tJ)(tJ)^T) = t^-2 pinv(J J^T), row norms scale by t (relational laws of the primitives)",
           "bridge lemma gramAgg_homogeneous (Lean)"]

VALIDATE_ALGEBRAIC_PRIMS = True  # [V] the algebraic primitive contracts are sampled against real torch on every run
