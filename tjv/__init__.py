"""tjv — contract-based verification machinery for TorchJD/torchjd (see /verif/DESIGN.md)."""
