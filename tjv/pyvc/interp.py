"""Symbolic interpreter for the Python subset used by /repo/src/torchjd (see DESIGN.md §2.1).

It evaluates the *real* AST.  Symbolic scalars are z3 terms, containers are Python containers or the symbolic
containers of values.py, library calls go to the primitive contracts of prims.py.  Control flow on symbolic
conditions forks through Ctx.branch (exploration by re-execution)."""
from __future__ import annotations

import ast

import z3

from . import values as V
from .values import lift
from .core import Ctx, ExcValue, PathEnd, SymRaise
from .loader import ClassInfo, External, FuncInfo, Module, Repo, Unsupported


class _Return(Exception):
    def __init__(self, v):
        self.v = v


class _Break(Exception):
    pass


class _Continue(Exception):
    pass


class Frame:
    def __init__(self, func, module, parent=None, cls=None):
        self.func = func
        self.module = module
        self.vars = {}
        self.parent = parent  # enclosing frame for closures
        self.cls = cls  # class whose body defines the function (for super())
        self.self_obj = None
        self.loop_ordinal = 0

    def lookup(self, name):
        f = self
        while f is not None:
            if name in f.vars:
                return f.vars[name], True
            f = f.parent
        return None, False

    def set(self, name, v):
        self.vars[name] = v


class Closure:
    def __init__(self, node, frame, module, qualname):
        self.node = node
        self.frame = frame
        self.module = module
        self.qualname = qualname


class BoundMethod:
    def __init__(self, obj, func):
        self.obj = obj
        self.func = func


class PyMethod:
    """Method of a concrete Python container, applied natively."""

    def __init__(self, obj, name):
        self.obj = obj
        self.name = name


class SuperProxy:
    def __init__(self, obj, after_cls):
        self.obj = obj
        self.after = after_cls


class SymObj:
    """Instance of a repo class."""

    def __init__(self, cls: ClassInfo):
        self.cls = cls
        self.attrs = {}
        self.payload = None  # for subclasses of builtin containers (TensorDict(dict))

    def __repr__(self):
        return f"<obj {self.cls.name}>"


class LoopSpec:
    """Sidecar loop contract: `havoc(cx, frame, i)` installs fresh values for everything the loop modifies,
    `inv(cx, frame, i)` returns [(label, BoolRef)] evaluated on the CURRENT frame values."""

    def __init__(self, havoc, inv, has_break=False, post_body=None):
        self.havoc = havoc
        self.inv = inv
        self.has_break = has_break
        self.post_body = post_body  # optional: [(label, BoolRef)] asserted after one execution of the body only


class Interp:
    MAX_DEPTH = 60

    def __init__(self, repo: Repo, cx: Ctx, prims, loop_specs=None, overrides=None):
        self.repo = repo
        self.cx = cx
        self.prims = prims
        self.loop_specs = loop_specs or {}
        self.overrides = overrides or {}  # qualname -> callable(interp, args, kwargs) (contract application)
        self.depth = 0
        self.trace = []
        self.called = set()

    # ------------------------------------------------------------------ calls
    def call(self, callee, args=(), kwargs=None):
        kwargs = kwargs or {}
        if isinstance(callee, FuncInfo):
            return self.call_func(callee, list(args), kwargs)
        if isinstance(callee, BoundMethod):
            return self.call_func(callee.func, [callee.obj] + list(args), kwargs)
        if isinstance(callee, Closure):
            return self.call_closure(callee, list(args), kwargs)
        if isinstance(callee, V.Partial):
            kw = dict(callee.kwargs)
            kw.update(kwargs)
            return self.call(callee.fn, list(callee.args) + list(args), kw)
        if isinstance(callee, ClassInfo):
            return self.instantiate(callee, list(args), kwargs)
        if isinstance(callee, External):
            return self.prims.call(self, callee.dotted, list(args), kwargs)
        if isinstance(callee, PyMethod):
            return self.call_pymethod(callee, list(args), kwargs)
        if isinstance(callee, V.SymMethod):
            return callee.fn(self, *args, **kwargs)
        if isinstance(callee, SymObj):
            look = callee.cls.lookup(self.repo, "__call__")
            if look and look[0] == "method":
                return self.call_func(look[1], [callee] + list(args), kwargs)
            # nn.Module.__call__(x) = forward(x)   (assumption: no hooks registered)
            look = callee.cls.lookup(self.repo, "forward")
            if look and look[0] == "method":
                return self.call_func(look[1], [callee] + list(args), kwargs)
            raise Unsupported(f"object of {callee.cls.name} is not callable")
        if hasattr(callee, "sym_call"):
            return callee.sym_call(self, list(args), kwargs)
        raise Unsupported(f"call of {type(callee).__name__}: {callee!r}")

    def call_pymethod(self, pm, args, kwargs):
        obj, name = pm.obj, pm.name
        if isinstance(obj, (set, frozenset)) and name in ("isdisjoint", "issubset", "union", "intersection") and args \
                and (isinstance(args[0], V.SymSet) or any(V.is_symbolic_key(x) for x in obj)):
            from . import prims as P
            lifted = P.lift_set(self, obj)
            return self.call(P.value_getattr(self, lifted, name), args, kwargs)
        if isinstance(obj, (list, dict, set, tuple, str)):
            if name in ("append", "add", "extend", "items", "keys", "values", "get", "issubset", "intersection",
                        "union", "popleft", "copy", "index", "rstrip", "join", "format", "mro", "pop", "update", "isdisjoint",
                        "setdefault", "insert", "count"):
                return getattr(obj, name)(*args, **kwargs)
        raise Unsupported(f"python method {type(obj).__name__}.{name}")

    def bind(self, node, args, kwargs, frame, defaults_frame):
        a = node.args
        params = [p.arg for p in a.posonlyargs + a.args]
        if len(args) > len(params) and not a.vararg:
            raise Unsupported(f"too many positional args for {node.name}")
        for p, v in zip(params, args):
            frame.set(p, v)
        if a.vararg:
            frame.set(a.vararg.arg, tuple(args[len(params):]))
        defaults = a.defaults
        ndef = len(defaults)
        for i, p in enumerate(params[len(args):], start=len(args)):
            if p in kwargs:
                frame.set(p, kwargs.pop(p))
            else:
                di = i - (len(params) - ndef)
                if di < 0:
                    raise Unsupported(f"missing argument {p} for {node.name}")
                frame.set(p, self.eval(defaults[di], defaults_frame))
        for p, d in zip(a.kwonlyargs, a.kw_defaults):
            if p.arg in kwargs:
                frame.set(p.arg, kwargs.pop(p.arg))
            elif d is not None:
                frame.set(p.arg, self.eval(d, defaults_frame))
            else:
                raise Unsupported(f"missing kw-only argument {p.arg}")
        if a.kwarg:
            frame.set(a.kwarg.arg, dict(kwargs))
            kwargs.clear()
        if kwargs:
            raise Unsupported(f"unexpected keyword arguments {list(kwargs)} for {node.name}")

    def call_func(self, f: FuncInfo, args, kwargs):
        if f.qualname in self.overrides:
            return self.overrides[f.qualname](self, args, dict(kwargs))
        self.called.add(f.qualname)
        unknown = [d for d in f.decorators if d not in ("property", "staticmethod", "classmethod", "abstractmethod")]
        if unknown:
            # a decorator may change what a call does (caching, wrapping): never silently dropped by the extraction
            raise Unsupported(f"decorator(s) {unknown} on {f.qualname}")
        frame = Frame(f, f.module, cls=f.cls)
        kwargs = dict(kwargs)
        self.bind(f.node, args, kwargs, frame, Frame(f, f.module))
        if f.cls is not None and not f.is_static and args:
            frame.self_obj = args[0]
        return self.run_body(f.node, frame, f.qualname)

    def call_closure(self, c: Closure, args, kwargs):
        frame = Frame(c, c.module, parent=c.frame, cls=c.frame.cls if c.frame else None)
        frame.qual = c.qualname
        kwargs = dict(kwargs)
        if isinstance(c.node, ast.Lambda):
            self.bind_lambda(c.node, args, kwargs, frame, c.frame)
            return self.eval(c.node.body, frame)
        self.bind(c.node, args, kwargs, frame, c.frame)
        return self.run_body(c.node, frame, c.qualname)

    def bind_lambda(self, node, args, kwargs, frame, dframe):
        params = [p.arg for p in node.args.args]
        for p, v in zip(params, args):
            frame.set(p, v)
        for p in params[len(args):]:
            if p in kwargs:
                frame.set(p, kwargs.pop(p))
            else:
                raise Unsupported("lambda defaults")

    def run_body(self, node, frame, qualname):
        self.depth += 1
        if self.depth > self.MAX_DEPTH:
            raise Unsupported("call depth")
        frame.qual = qualname
        try:
            self.exec_block(node.body, frame)
            return None
        except _Return as r:
            return r.v
        finally:
            self.depth -= 1

    def instantiate(self, cls: ClassInfo, args, kwargs):
        obj = SymObj(cls)
        look = cls.lookup(self.repo, "__init__")
        if look and look[0] == "method":
            self.call_func(look[1], [obj] + args, kwargs)
        else:
            self.prims.external_init(self, obj, cls, args, kwargs)
        return obj

    # ------------------------------------------------------------------ statements
    def exec_block(self, stmts, frame):
        for st in stmts:
            self.exec_stmt(st, frame)

    def exec_stmt(self, st, frame):
        if isinstance(st, ast.Expr):
            if isinstance(st.value, ast.Constant) and isinstance(st.value.value, str):
                return  # docstring
            self.eval(st.value, frame)
        elif isinstance(st, ast.Assign):
            v = self.eval(st.value, frame)
            for t in st.targets:
                self.assign(t, v, frame)
        elif isinstance(st, ast.AnnAssign):
            if st.value is not None:
                self.assign(st.target, self.eval(st.value, frame), frame)
        elif isinstance(st, ast.AugAssign):
            self.aug_assign(st, frame)
        elif isinstance(st, ast.Return):
            raise _Return(self.eval(st.value, frame) if st.value is not None else None)
        elif isinstance(st, ast.If):
            c = self.truth(self.eval(st.test, frame))
            if self.cx.branch(c):
                self.exec_block(st.body, frame)
            else:
                self.exec_block(st.orelse, frame)
        elif isinstance(st, ast.Raise):
            exc = self.eval(st.exc, frame) if st.exc is not None else frame.vars.get("__active_exc__")
            if isinstance(exc, External):  # `raise ValueError` without call
                exc = ExcValue(exc.dotted.split(".")[-1])
            if not isinstance(exc, ExcValue):
                raise Unsupported(f"raise of {exc!r}")
            raise SymRaise(exc, where=(getattr(frame, "qual", "?"), st.lineno))
        elif isinstance(st, ast.For):
            self.exec_for(st, frame)
        elif isinstance(st, ast.While):
            self.exec_while(st, frame)
        elif isinstance(st, ast.Try):
            self.exec_try(st, frame)
        elif isinstance(st, ast.Pass):
            pass
        elif isinstance(st, ast.Break):
            raise _Break()
        elif isinstance(st, ast.Continue):
            raise _Continue()
        elif isinstance(st, ast.FunctionDef):
            frame.set(st.name, Closure(st, frame, frame.module, f"{getattr(frame, 'qual', '?')}.<locals>.{st.name}"))
        elif isinstance(st, (ast.Import, ast.ImportFrom)):
            raise Unsupported("local import")
        elif isinstance(st, ast.Assert):
            c = self.truth(self.eval(st.test, frame))
            if not self.cx.branch(c):
                raise SymRaise(ExcValue("AssertionError"), where=(getattr(frame, "qual", "?"), st.lineno))
        elif isinstance(st, ast.Delete):
            raise Unsupported("del")
        else:
            raise Unsupported(f"statement {type(st).__name__}")

    def exec_try(self, st, frame):
        if st.finalbody:
            raise Unsupported("try/finally")
        try:
            self.exec_block(st.body, frame)
        except SymRaise as e:
            for h in st.handlers:
                if h.type is None:
                    names = ["Exception"]
                else:
                    t = self.eval(h.type, frame)
                    ts = t if isinstance(t, tuple) else (t,)
                    names = []
                    for x in ts:
                        if isinstance(x, External):
                            names.append(x.dotted.split(".")[-1])
                        else:
                            raise Unsupported("except with non-external class")
                if any(e.exc.isinstance_of(n) for n in names):
                    if h.name:
                        frame.set(h.name, e.exc)
                    frame.vars["__active_exc__"] = e.exc
                    self.exec_block(h.body, frame)
                    return
            raise
        else:
            self.exec_block(st.orelse, frame)

    def assign(self, target, v, frame):
        if isinstance(target, ast.Name):
            frame.set(target.id, v)
        elif isinstance(target, (ast.Tuple, ast.List)):
            items = V.unpack(self, v, len(target.elts))
            for t, x in zip(target.elts, items):
                self.assign(t, x, frame)
        elif isinstance(target, ast.Attribute):
            obj = self.eval(target.value, frame)
            self.setattr(obj, target.attr, v)
        elif isinstance(target, ast.Subscript):
            obj = self.eval(target.value, frame)
            idx = self.eval_index(target.slice, frame)
            self.setitem(obj, idx, v)
        else:
            raise Unsupported(f"assignment target {type(target).__name__}")

    def setattr(self, obj, name, v):
        if isinstance(obj, SymObj):
            self.cx.event("setattr", obj=obj, name=name, value=v)
            obj.attrs[name] = v
        elif hasattr(obj, "sym_setattr"):
            obj.sym_setattr(self, name, v)
        else:
            raise Unsupported(f"attribute store on {type(obj).__name__}")

    def setitem(self, obj, idx, v):
        if isinstance(obj, (dict, list)):
            if isinstance(obj, dict) and V.is_symbolic_key(idx):
                raise Unsupported("symbolic key into a concrete dict")
            obj[idx] = v
        elif isinstance(obj, SymObj):
            look = obj.cls.lookup(self.repo, "__setitem__")
            if look and look[0] == "method":
                return self.call_func(look[1], [obj, idx, v], {})
            if look and look[0] == "attr":
                fn = self.eval_class_attr(look[1], look[2], obj)
                return self.call(fn, [idx, v])
            raise Unsupported("setitem on object")
        elif hasattr(obj, "sym_setitem"):
            obj.sym_setitem(self, idx, v)
        else:
            raise Unsupported(f"item store on {type(obj).__name__}")

    def aug_assign(self, st, frame):
        t = st.target
        if isinstance(t, ast.Name):
            cur = self.eval(t, frame)
            r = self.binop(st.op, cur, self.eval(st.value, frame), inplace=True)
            frame.set(t.id, r)
        elif isinstance(t, ast.Attribute):
            obj = self.eval(t.value, frame)
            cur = self.getattr(obj, t.attr)
            r = self.binop(st.op, cur, self.eval(st.value, frame), inplace=True)
            self.setattr(obj, t.attr, r)
        elif isinstance(t, ast.Subscript):
            obj = self.eval(t.value, frame)
            idx = self.eval_index(t.slice, frame)
            cur = self.getitem(obj, idx)
            r = self.binop(st.op, cur, self.eval(st.value, frame), inplace=True)
            self.setitem(obj, idx, r)
        else:
            raise Unsupported("augmented assignment target")

    # ------------------------------------------------------------------ loops
    def loop_key(self, frame):
        k = (getattr(frame, "qual", "?"), frame.loop_ordinal)
        frame.loop_ordinal += 1
        return k

    def exec_for(self, st, frame):
        key = self.loop_key(frame)
        it = self.eval(st.iter, frame)
        conc = V.concrete_iter(it)
        if conc is not None:
            for x in conc:
                self.assign(st.target, x, frame)
                try:
                    self.exec_block(st.body, frame)
                except _Break:
                    break
                except _Continue:
                    continue
            else:
                self.exec_block(st.orelse, frame)
            return
        if st.orelse:
            raise Unsupported("for/else on a symbolic iterable")
        seq = V.as_symseq(self, it)
        n = seq.length
        if _is_zero(n):
            return   # nothing to iterate over (e.g. an iterator that an earlier traversal has exhausted)
        spec = self.loop_specs.get(key)
        if spec is None:
            target_list = _map_loop_target(st)
            if target_list is not None:
                return self.exec_map_loop(st, frame, seq, target_list)
            if _assigned_names(st.body) or _has_mutation(st.body):
                raise Unsupported(f"loop {key} over a symbolic iterable needs a sidecar invariant")
            # stateless loop (its body only checks and raises): summarised exactly.  NoRaise(j) is the disjunction of
            # the path conditions under which the body completes normally on element j; the loop raises iff some
            # element raises, and falls through iff NoRaise holds for every element.
            # a loop over a concatenation is the sequence of the loops over its parts: summarise part by part (keeps the
            # quantified facts free of if-then-else element terms)
            parts = getattr(seq, "flat_parts", None) or getattr(seq, "concat_parts", None)
            if parts:
                parts = [p.seq(self.cx) if isinstance(p, V.SymSet) else p for p in parts]
            else:
                parts = [seq]
            summaries = []
            for part in parts:
                j0 = self.cx.fresh_int("lj")
                normal = self.probe(st.body, frame, lambda it2, f2, part=part, j0=j0: it2.assign(st.target, part.get(j0), f2))
                summaries.append((part, j0, normal))
            k = self.cx.choose(2, f"loop{key[1]}")
            if k == 0:
                j0 = self.cx.fresh_int("lj")
                self.cx.assume(z3.And(0 <= j0, j0 < n))
                self.assign(st.target, seq.get(j0), frame)
                try:
                    self.exec_block(st.body, frame)
                except (_Break, _Continue):
                    pass
                raise PathEnd()
            for part, j0, normal in summaries:
                if normal is not None:
                    jq = z3.Int("lj!q")
                    body = z3.substitute(normal, (j0, jq))
                    self.cx.assume(V.forall([jq], z3.Implies(z3.And(0 <= jq, jq < lift(part.length)), body)), tag="stateless-loop summary")
            return
        # -- invariant protocol
        for label, f in spec.inv(self.cx, frame, z3.IntVal(0)):
            self.cx.oblige(f"{_short(key)}.inv.init.{label}", f, function=key[0])
        k = self.cx.choose(2, f"loop{key[1]}")
        i = self.cx.fresh_int("it")
        if k == 0:  # inductive step
            self.cx.assume(z3.And(0 <= i, i < n))
            spec.havoc(self.cx, frame, i)
            for label, f in spec.inv(self.cx, frame, i):
                self.cx.assume(f)
            self.assign(st.target, seq.get(i), frame)
            try:
                self.exec_block(st.body, frame)
            except _Continue:
                pass
            except _Break:
                if not spec.has_break:
                    raise Unsupported("break in a loop whose sidecar contract has no break clause")
            if spec.post_body is not None:
                for label, f in spec.post_body(self.cx, frame, i):
                    self.cx.oblige(f"{_short(key)}.body.{label}", f, function=key[0])
            for label, f in spec.inv(self.cx, frame, i + 1):
                self.cx.oblige(f"{_short(key)}.inv.step.{label}", f, function=key[0])
            raise PathEnd()
        # exit
        if spec.has_break:
            self.cx.assume(z3.And(0 <= i, i <= n))
        else:
            self.cx.assume(i == n)
        spec.havoc(self.cx, frame, i)
        for label, f in spec.inv(self.cx, frame, i):
            self.cx.assume(f)

    def exec_map_loop(self, st, frame, seq, lname):
        """`for x in seq: ...; L.append(e)` where every iteration appends exactly one value computed from its own
        element only (checked syntactically by _map_loop_target): L += [e(x) for x in seq], summarised exactly."""
        cx = self.cx
        cur, ok = frame.lookup(lname)
        if not ok or not (isinstance(cur, list) or isinstance(cur, V.SymSeq)):
            raise Unsupported("map loop appending to a non-list")

        class _Rec:
            def __init__(self):
                self.items = []

            def sym_getattr(self, interp, name):
                if name == "append":
                    return V.SymMethod(lambda interp, v: self.items.append(v))
                return V.MISSING

        def run_on(elem):
            f2 = Frame(frame.func, frame.module, parent=frame, cls=frame.cls)
            f2.qual = getattr(frame, "qual", "?")
            f2.self_obj = frame.self_obj
            rec = _Rec()
            f2.set(lname, rec)
            self.assign(st.target, elem, f2)
            self.exec_block(st.body, f2)
            if len(rec.items) != 1:
                raise Unsupported("map loop iteration did not append exactly once")
            v = rec.items[0]
            return v.value if isinstance(v, V.Opt) else v
        i0 = cx.fresh_int("mi")
        cx.assume(z3.And(0 <= i0, i0 < lift(seq.length)))
        pos0 = cx.pos
        run_on(seq.get(i0))
        decs = list(cx.decisions[pos0:cx.pos])

        def pure(i):
            mark = len(cx.obligations)
            cx.replay_stack.append({"decs": decs, "pos": 0})
            cx.muted += 1
            try:
                return run_on(seq.get(i))
            finally:
                cx.muted -= 1
                cx.replay_stack.pop()
                del cx.obligations[mark:]
        new = V.SymSeq(seq.length, pure)
        if isinstance(cur, list) and not cur:
            frame.set(lname, new) if lname in frame.vars else self._set_outer(frame, lname, new)
        else:
            r = V.binop(self, ast.Add(), cur, new)
            frame.set(lname, r) if lname in frame.vars else self._set_outer(frame, lname, r)

    def _set_outer(self, frame, name, v):
        f = frame
        while f is not None:
            if name in f.vars:
                f.vars[name] = v
                return
            f = f.parent
        raise Unsupported("map loop target not found")

    def probe(self, stmts, frame, bind):
        """Condition (over the current symbols) under which `stmts` complete without raising, or None if it cannot
        be expressed (the body introduces fresh symbols)."""
        from .core import Ctx, explore
        outer = self.cx
        base = list(outer.pc)
        normal = []
        ok = [True]

        def fn(cx2):
            for f in base:
                cx2.assume(f)
            cx2.counter = {k: v + 1000 for k, v in outer.counter.items()}
            cx2.ghost = outer.ghost
            start = len(cx2.pc)
            c0 = dict(cx2.counter)
            it2 = Interp(self.repo, cx2, self.prims, self.loop_specs, self.overrides)
            f2 = Frame(frame.func, frame.module, parent=frame.parent, cls=frame.cls)
            f2.vars = dict(frame.vars)
            f2.qual = getattr(frame, "qual", "?")
            f2.self_obj = frame.self_obj
            bind(it2, f2)
            kind = "normal"
            try:
                it2.exec_block(stmts, f2)
            except SymRaise:
                kind = "raise"
            except (_Break, _Continue):
                pass
            fresh_used = {k for k in cx2.counter if cx2.counter[k] != c0.get(k) and not k.startswith("loop") and not k.startswith("choice")}
            if fresh_used:
                ok[0] = False
            if kind == "normal":
                delta = cx2.pc[start:]
                normal.append(z3.And(delta) if delta else z3.BoolVal(True))
            return None
        try:
            explore(fn, max_paths=64)
        except Unsupported:
            return None
        if not ok[0]:
            return None
        return z3.Or(normal) if normal else z3.BoolVal(False)

    def exec_while(self, st, frame):
        key = self.loop_key(frame)
        spec = self.loop_specs.get(key)
        if spec is None:
            raise Unsupported(f"while loop {key} needs a sidecar invariant")
        for label, f in spec.inv(self.cx, frame, None):
            self.cx.oblige(f"{_short(key)}.inv.init.{label}", f, function=key[0])
        k = self.cx.choose(2, f"loop{key[1]}")
        spec.havoc(self.cx, frame, None)
        for label, f in spec.inv(self.cx, frame, None):
            self.cx.assume(f)
        c = self.truth(self.eval(st.test, frame))
        if k == 0:
            self.cx.assume(c)
            try:
                self.exec_block(st.body, frame)
            except _Continue:
                pass
            for label, f in spec.inv(self.cx, frame, None):
                self.cx.oblige(f"{_short(key)}.inv.step.{label}", f, function=key[0])
            raise PathEnd()
        self.cx.assume(z3.Not(c) if not isinstance(c, bool) else (not c))

    # ------------------------------------------------------------------ expressions
    def truth(self, v):
        if isinstance(v, bool):
            return v
        if z3.is_bool(v) if isinstance(v, z3.ExprRef) else False:
            return v
        if v is None:
            return False
        if isinstance(v, (int, float)):
            return v != 0
        if isinstance(v, z3.ArithRef):
            return v != 0
        if isinstance(v, (list, tuple, dict, set, str)):
            return len(v) > 0
        if hasattr(v, "sym_truth"):
            return v.sym_truth(self)
        raise Unsupported(f"truth value of {type(v).__name__}")

    def eval(self, e, frame):
        m = getattr(self, "e_" + type(e).__name__, None)
        if m is None:
            raise Unsupported(f"expression {type(e).__name__}")
        return m(e, frame)

    def e_Constant(self, e, frame):
        return e.value

    def e_JoinedStr(self, e, frame):
        return V.OpaqueStr()

    def e_Name(self, e, frame):
        v, ok = frame.lookup(e.id)
        if ok:
            return v
        # class-body names are not visible from methods; go to module scope
        r = self.repo.resolve(frame.module, e.id)
        if isinstance(r, tuple) and r[0] == "global":
            return self.eval(r[2], Frame(None, r[1]))
        return r

    def e_Attribute(self, e, frame):
        obj = self.eval(e.value, frame)
        return self.getattr(obj, e.attr)

    def getattr(self, obj, name):
        if isinstance(obj, SymObj):
            if name in obj.attrs:
                return obj.attrs[name]
            if name == "__class__":
                return obj.cls
            look = obj.cls.lookup(self.repo, name)
            if look is None:
                r = self.prims.external_getattr(self, obj, name)
                if r is not V.MISSING:
                    return r
                raise Unsupported(f"attribute {name} of {obj.cls.name}")
            kind, item, owner = look
            if kind == "method":
                if item.is_property:
                    return self.call_func(item, [obj], {})
                if item.is_static:
                    return item
                if item.is_classmethod:
                    return BoundMethod(obj.cls, item)
                return BoundMethod(obj, item)
            return self.eval_class_attr(item, owner, obj)
        if isinstance(obj, ClassInfo):
            if name == "__name__":
                return obj.name
            if name == "mro":
                return V.SymMethod(lambda interp: list(obj.mro(self.repo)) + [External("builtins.dict"), External("builtins.object")]
                                   if "builtins.dict" in obj.external_bases(self.repo) else list(obj.mro(self.repo)) + [External("builtins.object")])
            look = obj.lookup(self.repo, name)
            if look is None:
                raise Unsupported(f"class attribute {obj.name}.{name}")
            kind, item, owner = look
            if kind == "method":
                if item.is_classmethod:
                    return BoundMethod(obj, item)
                return item
            return self.eval_class_attr(item, owner, None)
        if isinstance(obj, Module):
            r = self.repo.resolve(obj, name)
            return r
        if isinstance(obj, External):
            return self.prims.ext_attr(self, obj, name)
        if isinstance(obj, SuperProxy):
            mro = obj.obj.cls.mro(self.repo) if isinstance(obj.obj, SymObj) else obj.obj.mro(self.repo)
            idx = mro.index(obj.after)
            for c in mro[idx + 1:]:
                if name in c.methods:
                    return BoundMethod(obj.obj, c.methods[name])
            return V.SymMethod(lambda interp, *a, **k: self.prims.external_super_call(self, obj.obj, obj.after, name, list(a), k))
        if isinstance(obj, V.NamedPair):
            r = obj.sym_getattr(self, name)
            if r is not V.MISSING:
                return r
        if isinstance(obj, (list, dict, set, tuple, str)):
            return PyMethod(obj, name)
        if isinstance(obj, ExcValue):
            raise Unsupported("attribute of exception")
        if isinstance(obj, V.Opt):
            # attribute of a possibly-None value: AttributeError when it is None, the value's attribute otherwise
            if self.cx.branch(obj.is_none):
                raise SymRaise(ExcValue("AttributeError"))
            return self.getattr(obj.value, name)
        if hasattr(obj, "sym_getattr"):
            r = obj.sym_getattr(self, name)
            if r is not V.MISSING:
                return r
        r = self.prims.value_getattr(self, obj, name)
        if r is not V.MISSING:
            return r
        raise Unsupported(f"attribute {name} of {type(obj).__name__}")

    def eval_class_attr(self, expr, owner: ClassInfo, obj):
        # e.g. `__setitem__ = _raise_immutable_error` : a name bound in the class body
        if isinstance(expr, ast.Name) and expr.id in owner.methods:
            f = owner.methods[expr.id]
            return BoundMethod(obj, f) if obj is not None and not f.is_static else f
        if isinstance(expr, ast.Name) and expr.id in owner.class_attrs:
            return self.eval_class_attr(owner.class_attrs[expr.id], owner, obj)
        return self.eval(expr, Frame(None, owner.module))

    def e_Call(self, e, frame):
        # zero-argument super()
        if isinstance(e.func, ast.Name) and e.func.id == "super" and not e.args:
            if frame.cls is None or frame.self_obj is None:
                raise Unsupported("super() outside a method")
            return SuperProxy(frame.self_obj, frame.cls)
        fn = self.eval(e.func, frame)
        args = []
        for a in e.args:
            if isinstance(a, ast.Starred):
                args.extend(V.to_concrete_list(self, self.eval(a.value, frame)))
            else:
                args.append(self.eval(a, frame))
        kwargs = {}
        for k in e.keywords:
            if k.arg is None:
                raise Unsupported("**kwargs call")
            kwargs[k.arg] = self.eval(k.value, frame)
        self.cur_site = (getattr(frame, "qual", "?"), e.lineno)
        return self.call(fn, args, kwargs)

    def e_Lambda(self, e, frame):
        return Closure(e, frame, frame.module, f"{getattr(frame, 'qual', '?')}.<lambda>")

    def e_IfExp(self, e, frame):
        c = self.truth(self.eval(e.test, frame))
        if self.cx.branch(c):
            return self.eval(e.body, frame)
        return self.eval(e.orelse, frame)

    def e_BoolOp(self, e, frame):
        is_and = isinstance(e.op, ast.And)
        v = None
        for i, sub in enumerate(e.values):
            v = self.eval(sub, frame)
            if i == len(e.values) - 1:
                return v
            t = self.truth(v)
            side = self.cx.branch(t)
            if is_and and not side:
                return v if not isinstance(v, z3.ExprRef) else False
            if not is_and and side:
                return v if not isinstance(v, z3.ExprRef) else True
        return v

    def e_UnaryOp(self, e, frame):
        v = self.eval(e.operand, frame)
        if isinstance(e.op, ast.Not):
            t = self.truth(v)
            return (not t) if isinstance(t, bool) else z3.Not(t)
        if isinstance(e.op, ast.USub):
            if hasattr(v, "sym_neg"):
                return v.sym_neg(self)
            return -v
        if isinstance(e.op, ast.UAdd):
            return v
        raise Unsupported("unary op")

    def e_BinOp(self, e, frame):
        return self.binop(e.op, self.eval(e.left, frame), self.eval(e.right, frame))

    def binop(self, op, a, b, inplace=False):
        r = V.binop(self, op, a, b, inplace)
        if r is V.MISSING:
            raise Unsupported(f"binary {type(op).__name__} on {type(a).__name__}, {type(b).__name__}")
        return r

    def e_Compare(self, e, frame):
        left = self.eval(e.left, frame)
        res = None
        for op, rhs in zip(e.ops, e.comparators):
            right = self.eval(rhs, frame)
            c = V.compare(self, op, left, right)
            if c is V.MISSING:
                raise Unsupported(f"compare {type(op).__name__} on {type(left).__name__}, {type(right).__name__}")
            res = c if res is None else V.and_(res, c)
            left = right
        return res

    def e_Tuple(self, e, frame):
        return tuple(self.eval_elts(e.elts, frame))

    def e_List(self, e, frame):
        if any(isinstance(x, ast.Starred) for x in e.elts) and len(e.elts) == 1:
            return V.to_list(self, self.eval(e.elts[0].value, frame))
        return list(self.eval_elts(e.elts, frame))

    def e_Set(self, e, frame):
        return V.make_set(self, self.eval_elts(e.elts, frame))

    def eval_elts(self, elts, frame):
        res = []
        for x in elts:
            if isinstance(x, ast.Starred):
                res.extend(V.to_concrete_list(self, self.eval(x.value, frame)))
            else:
                res.append(self.eval(x, frame))
        return res

    def e_Dict(self, e, frame):
        d = {}
        for k, v in zip(e.keys, e.values):
            if k is None:
                raise Unsupported("dict unpacking")
            kk = self.eval(k, frame)
            if V.is_symbolic_key(kk):
                raise Unsupported("symbolic key in dict display")
            d[kk] = self.eval(v, frame)
        return d

    def e_Subscript(self, e, frame):
        obj = self.eval(e.value, frame)
        idx = self.eval_index(e.slice, frame)
        return self.getitem(obj, idx)

    def eval_index(self, s, frame):
        if isinstance(s, ast.Slice):
            return V.Slice(self.eval(s.lower, frame) if s.lower else None,
                           self.eval(s.upper, frame) if s.upper else None,
                           self.eval(s.step, frame) if s.step else None)
        if isinstance(s, ast.Tuple):
            return tuple(self.eval_index(x, frame) for x in s.elts)
        return self.eval(s, frame)

    def getitem(self, obj, idx):
        r = V.getitem(self, obj, idx)
        if r is V.MISSING:
            raise Unsupported(f"subscript of {type(obj).__name__} with {type(idx).__name__}")
        return r

    # -- comprehensions
    def comp(self, e, frame, kind):
        if len(e.generators) == 1:
            g = e.generators[0]
            it = self.eval(g.iter, frame)
            conc = V.concrete_iter(it)
            if conc is not None:
                out = []
                for x in conc:
                    f2 = Frame(frame.func, frame.module, parent=frame, cls=frame.cls)
                    f2.qual = getattr(frame, "qual", "?")
                    f2.self_obj = frame.self_obj
                    self.assign(g.target, x, f2)
                    if all(self.cx.branch(self.truth(self.eval(c, f2))) for c in g.ifs):
                        out.append(self.comp_elt(e, f2, kind))
                return V.finish_comp(self, out, kind)
            if kind == "set" and hasattr(it, "sym_setcomp"):
                return it.sym_setcomp(self, e, g, frame)
            seq = V.as_symseq(self, it)
            if _is_zero(seq.length):
                return V.finish_comp(self, [], kind)   # e.g. over an exhausted iterator
            if g.ifs:
                return V.filtered_comp(self, e, g, seq, frame, kind)
            return V.symbolic_comp(self, e, g, seq, frame, kind)
        # nested generators: only over concrete outer iterables
        out = []

        def rec(gi, f):
            if gi == len(e.generators):
                out.append(self.comp_elt(e, f, kind))
                return
            g = e.generators[gi]
            it = self.eval(g.iter, f)
            conc = V.concrete_iter(it)
            if conc is None:
                res = V.nested_symbolic_comp(self, e, gi, it, f, kind)
                if res is V.MISSING:
                    raise Unsupported("nested comprehension over a symbolic iterable")
                out.append(res)
                return
            for x in conc:
                f2 = Frame(f.func, f.module, parent=f, cls=f.cls)
                f2.qual = getattr(f, "qual", "?")
                f2.self_obj = f.self_obj
                self.assign(g.target, x, f2)
                if all(self.cx.branch(self.truth(self.eval(c, f2))) for c in g.ifs):
                    rec(gi + 1, f2)

        rec(0, frame)
        return V.finish_nested(self, out, kind)

    def comp_elt(self, e, f, kind):
        if kind == "dict":
            return (self.eval(e.key, f), self.eval(e.value, f))
        return self.eval(e.elt, f)

    def e_ListComp(self, e, frame):
        return self.comp(e, frame, "list")

    def e_SetComp(self, e, frame):
        return self.comp(e, frame, "set")

    def e_GeneratorExp(self, e, frame):
        return self.comp(e, frame, "list")

    def e_DictComp(self, e, frame):
        return self.comp(e, frame, "dict")

    def e_Starred(self, e, frame):
        raise Unsupported("starred expression")


def _is_zero(n):
    if isinstance(n, int):
        return n == 0
    if isinstance(n, z3.ExprRef):
        n = z3.simplify(n)
        return z3.is_int_value(n) and n.as_long() == 0
    return False


def _short(key):
    q, n = key
    parts = q.split(".")
    return ".".join(parts[-2:]) + f".loop{n}"


def _map_loop_target(st):
    """Name of the list L if `st` is a for loop whose body (a) only assigns plain local names and calls L.append(e),
    (b) appends exactly once to L on every control path, (c) reads no local before assigning it in the same iteration
    (no loop-carried state), (d) does not mention L otherwise; else None."""
    lists = set()

    def appends(stmts):
        """set of possible numbers of appends along the paths of stmts, or None if the shape is not allowed"""
        counts = {0}
        for s in stmts:
            if isinstance(s, ast.Assign) and all(isinstance(t, ast.Name) for t in s.targets):
                c = {0}
            elif isinstance(s, ast.Expr) and isinstance(s.value, ast.Call) and isinstance(s.value.func, ast.Attribute) \
                    and s.value.func.attr == "append" and isinstance(s.value.func.value, ast.Name) and len(s.value.args) == 1:
                lists.add(s.value.func.value.id)
                c = {1}
            elif isinstance(s, ast.If):
                a, b = appends(s.body), appends(s.orelse)
                if a is None or b is None:
                    return None
                c = a | b
            elif isinstance(s, ast.Pass):
                c = {0}
            else:
                return None
            counts = {x + y for x in counts for y in c}
        return counts
    c = appends(st.body)
    if c != {1} or len(lists) != 1:
        return None
    lname = next(iter(lists))
    # no other mention of L, no loop-carried locals
    assigned, seen_assigned = set(), set()
    for n in ast.walk(ast.Module(body=st.body, type_ignores=[])):
        if isinstance(n, ast.Assign):
            for t in n.targets:
                assigned.add(t.id)
    mentions = [n for n in ast.walk(ast.Module(body=st.body, type_ignores=[])) if isinstance(n, ast.Name) and n.id == lname]
    n_app = sum(1 for n in ast.walk(ast.Module(body=st.body, type_ignores=[])) if isinstance(n, ast.Attribute) and n.attr == "append"
                and isinstance(n.value, ast.Name) and n.value.id == lname)
    if len(mentions) != n_app or lname in assigned:
        return None

    def reads_before_write(stmts, defined):
        for s in stmts:
            if isinstance(s, ast.Assign):
                for n in ast.walk(s.value):
                    if isinstance(n, ast.Name) and n.id in assigned and n.id not in defined:
                        return True
                for t in s.targets:
                    defined = defined | {t.id}
            elif isinstance(s, ast.If):
                for n in ast.walk(s.test):
                    if isinstance(n, ast.Name) and n.id in assigned and n.id not in defined:
                        return True
                if reads_before_write(s.body, set(defined)) or reads_before_write(s.orelse, set(defined)):
                    return True
                # only names defined on BOTH branches are defined afterwards
            elif isinstance(s, ast.Expr):
                for n in ast.walk(s.value):
                    if isinstance(n, ast.Name) and n.id in assigned and n.id not in defined:
                        return True
        return False
    targets = {n.id for n in ast.walk(st.target) if isinstance(n, ast.Name)}
    if reads_before_write(st.body, set(targets)):
        return None
    return lname


def _assigned_names(stmts):
    names = set()
    for st in stmts:
        for n in ast.walk(st):
            if isinstance(n, (ast.Assign, ast.AugAssign, ast.AnnAssign)):
                names.add(n.lineno)
    return names


def _has_mutation(stmts):
    for st in stmts:
        for n in ast.walk(st):
            if isinstance(n, ast.Call) and isinstance(n.func, ast.Attribute) and n.func.attr in (
                    "append", "add", "extend", "update", "pop", "popleft", "insert", "remove", "clear"):
                return True
    return False
