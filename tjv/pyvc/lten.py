"""Layout tensor domain (autojac): a tensor value is a symbolic Shape plus a meta-level closure giving its
element at an index tuple (one index per leading dimension, then ONE flat row-major index inside the opaque
tail).  view/reshape between (lead.., tail) and (lead.., numel(tail)) are the identity on this addressing [T].

Also: the `.grad` heap, the autograd theory [T] (torch.autograd.grad / vmap with ghost sweep events), and the
abstract aggregator used when the autojac pipeline is verified."""
from __future__ import annotations

import ast

import z3

from . import values as V
from .core import ExcValue, SymRaise
from .loader import Unsupported
from .values import MISSING, U, TenS, ShapeS, lift

__all__ = ["LTen", "lten_binop", "lten_getitem", "l_stack", "Heap", "AbstractAgg", "RowBlocks", "DJ", "bigsum",
           "numel_of", "shape_numel_s"]

RealS = z3.RealSort()
IntS = z3.IntSort()
ZERO = z3.RealVal(0)
ONE = z3.RealVal(1)


def shape_numel_s(tail):
    return U("numel_s", IntS, tail)


class LTen:
    """shape: V.Shape; elem(idx: list of Int terms) -> Real term."""

    def __init__(self, shape: V.Shape, elem, storage=None, ref=None, fresh=True):
        self.shape = shape
        self.elem = elem
        # `owner`: this value was produced by an allocating primitive (its storage is referenced by nothing else);
        # a view (storage passed explicitly) is never an owner
        self.owner = storage is None and fresh
        self.storage = storage if storage is not None else z3.Int(f"stor!{id(self)}")
        self.fresh = fresh  # allocated by the code under contract in this call (not a view of something older)
        self.ref = ref

    def nidx(self):
        return len(self.shape.lead) + (1 if self.shape.tail is not None else 0)

    def ite(self, c, other):
        a, b = self.shape, other.shape
        if len(a.lead) != len(b.lead) or (a.tail is None) != (b.tail is None):
            return MixedTensor(c, self, other)
        lead = [x if (isinstance(x, int) and isinstance(y, int) and x == y) else z3.If(c, lift(x), lift(y)) for x, y in zip(a.lead, b.lead)]
        tail = a.tail if a.tail is None or a.tail.eq(b.tail) else z3.If(c, a.tail, b.tail)
        r = LTen(V.Shape(lead, tail), lambda idx: z3.If(c, self.elem(idx), other.elem(idx)), fresh=self.fresh and other.fresh)
        r.owner = self.owner and other.owner
        return r

    def sym_getattr(self, interp, name):
        return lten_getattr(interp, self, name)

    def sym_len(self, interp):
        if not self.shape.lead:
            raise Unsupported("len of a tensor with opaque shape")
        return self.shape.lead[0]

    def __repr__(self):
        return f"LTen({self.shape})"


class MixedTensor:
    """if-then-else of two tensors whose shapes have different symbolic structure: it can be carried around (stored in
    a dictionary), but not inspected."""

    def __init__(self, c, a, b):
        self.c, self.a, self.b = c, a, b

    def sym_getattr(self, interp, name):
        raise Unsupported("inspection of a tensor whose shape structure depends on a symbolic condition")


def numel_of(shape: V.Shape):
    r = shape.tail_numel()
    for d in shape.lead:
        if isinstance(r, int) and r == 1:
            r = d
        else:
            r = r * d
    return r


def as_lten(interp, x):
    """A user tensor used as a value: content = uninterpreted data function of its identity."""
    if isinstance(x, LTen):
        return x
    if isinstance(x, V.TRef):
        return LTen(x.shape, lambda idx, r=x.ref: U("data", RealS, r, idx[-1] if idx else z3.IntVal(0)), ref=x.ref, fresh=False)
    raise Unsupported(f"not a tensor: {type(x).__name__}")


def _flat(t: LTen):
    """tensor of shape ([], tail) or ([n]) seen as a vector: (length, elem1(c))"""
    sh = t.shape
    if not sh.lead and sh.tail is not None:
        return shape_numel_s(sh.tail), (lambda c: t.elem([c]))
    if len(sh.lead) == 1 and sh.tail is None:
        return sh.lead[0], (lambda c: t.elem([c]))
    raise Unsupported(f"flatten of shape {sh}")


def lten_getattr(interp, t: LTen, name):
    cx = interp.cx
    m = V.SymMethod
    if name == "shape":
        return t.shape
    if name in ("dim",):
        return m(lambda interp: len(t.shape.lead) if t.shape.tail is None else len(t.shape.lead) + U("ndim", IntS, t.shape.tail))
    if name == "ndim":
        return len(t.shape.lead) if t.shape.tail is None else len(t.shape.lead) + U("ndim", IntS, t.shape.tail)
    if name == "numel":
        return m(lambda interp: numel_of(t.shape))
    if name in ("device", "dtype"):
        return "cpu" if name == "device" else U("dtype_of_values", V.DtypeS)
    if name == "clone":
        return m(lambda interp: LTen(t.shape, t.elem, fresh=True))
    if name in ("new_zeros", "new_ones", "new_empty"):
        def newz(interp, *size, **k):
            sz = size[0] if len(size) == 1 and not isinstance(size[0], (int, z3.ArithRef)) else list(size)
            val = ZERO if name != "new_ones" else ONE
            if isinstance(sz, V.Shape):
                return LTen(sz, lambda ix: val)
            return LTen(V.Shape(list(sz)), lambda ix: val)
        return m(newz)
    if name == "_is_view":
        return m(lambda interp: not t.owner)
    if name == "detach":
        return m(lambda interp: _alias(t))
    if name == "contiguous":
        def contiguous(interp, **k):
            # [T] x.contiguous() IS x when x is already contiguous in memory, a fresh copy otherwise; whether a given tensor
            # (an existing .grad, an argument) is contiguous is not known: both cases are explored
            if getattr(t, "known_contiguous", False) or interp.cx.branch(interp.cx.fresh_bool("is_contiguous")):
                return _alias(t)
            return LTen(t.shape, t.elem, fresh=True)
        return m(contiguous)
    if name in ("add_", "sub_"):
        def inplace(interp, other, alpha=1):
            if alpha != 1:
                raise Unsupported("alpha of an in-place add")
            r = lten_binop(interp, ast.Add() if name == "add_" else ast.Sub(), t, other, inplace=True)
            if r is MISSING:
                raise Unsupported(f"{name} operand")
            g = getattr(t, "grad_of", None)
            if g is not None:
                # t IS the tensor object stored in <g>.grad: the in-place update is visible through the .grad field
                r.grad_of = g
                interp.cx.ghost["heap"].write_grad(interp, V.TRef(g), r)
            elif not t.fresh:
                raise Unsupported("in-place update of a tensor that is neither fresh nor a .grad field")
            return r
        return m(inplace)
    if name in ("reshape", "view"):
        def reshape(interp, *a):
            shp = a[0] if len(a) == 1 and not isinstance(a[0], (int, z3.ArithRef)) else list(a)
            return l_reshape(interp, t, shp, name)
        return m(reshape)
    if name == "diag":
        def diag(interp):
            n, e = _flat(t)
            return LTen(V.Shape([n, n]), lambda idx: z3.If(idx[0] == idx[1], e(idx[0]), ZERO))
        return m(diag)
    if name == "squeeze":
        def squeeze(interp, d=None):
            if d != 0 or not t.shape.lead:
                raise Unsupported("squeeze other than dim 0")
            cx.oblige("prim.squeeze0.size_is_one", lift(t.shape.lead[0]) == 1, kind="prim")
            return LTen(V.Shape(t.shape.lead[1:], t.shape.tail), lambda idx: t.elem([z3.IntVal(0)] + list(idx)),
                        storage=t.storage, fresh=t.fresh)
        return m(squeeze)
    if name == "unsqueeze":
        def unsq(interp, d):
            if d != 0:
                raise Unsupported("unsqueeze other than dim 0")
            return LTen(V.Shape([1] + t.shape.lead, t.shape.tail), lambda idx: t.elem(list(idx[1:])), storage=t.storage, fresh=t.fresh)
        return m(unsq)
    if name in ("any", "all", "isfinite", "isnan", "abs", "bool", "count_nonzero", "nonzero", "sum", "max", "min", "norm", "item"):
        # value-dependent predicates / reductions of a symbolic tensor: an arbitrary (uninterpreted) result
        def pred(interp, *a, **k):
            return LPred(cx.fresh_bool(f"tensor_{name}"))
        return m(pred)
    if name == "grad":
        raise Unsupported(".grad of a computed tensor")
    return MISSING


class LPred:
    """result of a value-dependent predicate / reduction on a layout tensor (all(), any(), ==, allclose, ...): only its
    truth value exists, and it is arbitrary."""

    def __init__(self, b):
        self.b = b

    def sym_truth(self, interp):
        return self.b

    def sym_getattr(self, interp, name):
        if name in ("any", "all", "item", "bool"):
            return V.SymMethod(lambda interp, *a, **k: self)
        return MISSING


def _l_reshape_impl(interp, t: LTen, shp, opname="reshape"):
    """reshape/view restricted to regroupings that are the identity on (lead.., flat-in-tail) addressing."""
    cx = interp.cx
    src = t.shape
    # target description
    if isinstance(shp, V.Shape):
        tgt = shp
    elif isinstance(shp, (list, tuple)):
        tgt = V.Shape(list(shp), None)
    else:
        raise Unsupported("reshape target")
    lead = list(tgt.lead)
    view = opname == "view"
    # (a) flatten everything: reshape([-1])
    if tgt.tail is None and len(lead) == 1 and isinstance(lead[0], int) and lead[0] == -1:
        if not src.lead and src.tail is not None:
            return LTen(V.Shape([shape_numel_s(src.tail)]), lambda idx: t.elem([idx[0]]), storage=t.storage, fresh=t.fresh)
        if len(src.lead) == 1 and src.tail is None:
            return LTen(V.Shape([src.lead[0]]), t.elem, storage=t.storage, fresh=t.fresh)
        raise Unsupported("flatten of a multi-dimensional layout tensor")
    # (b) (m, -1): matrixify ([m], tail) -> [m, numel(tail)]
    if tgt.tail is None and len(lead) == 2 and isinstance(lead[1], int) and lead[1] == -1:
        if len(src.lead) == 1 and src.tail is not None:
            cx.oblige(f"prim.{opname}.rows_match", lift(lead[0]) == lift(src.lead[0]), kind="prim")
            cx.oblige(f"prim.{opname}.minus_one_inferable", z3.Or(lift(src.lead[0]) > 0, True), kind="prim")
            return LTen(V.Shape([src.lead[0], shape_numel_s(src.tail)]), t.elem, storage=t.storage, fresh=t.fresh)
        if len(src.lead) == 2 and src.tail is None:
            cx.oblige(f"prim.{opname}.rows_match", lift(lead[0]) == lift(src.lead[0]), kind="prim")
            return LTen(V.Shape(list(src.lead)), t.elem, storage=t.storage, fresh=t.fresh)
        raise Unsupported("matrixify of this layout")
    # (c) (-1,) + key.shape  /  (m,) + key.shape  from a matrix [m, c]
    if tgt.tail is not None and len(lead) == 1 and len(src.lead) == 2 and src.tail is None:
        rows, cols = src.lead
        nk = shape_numel_s(tgt.tail)
        cx.oblige(f"prim.{opname}.numel_matches", lift(cols) == nk, kind="prim")
        if isinstance(lead[0], int) and lead[0] == -1:
            # torch cannot infer -1 when the remaining dimensions have zero elements
            cx.oblige(f"prim.{opname}.minus_one_inferable", nk > 0, kind="prim")
        else:
            cx.oblige(f"prim.{opname}.rows_match", lift(lead[0]) == lift(rows), kind="prim")
        return LTen(V.Shape([rows], tgt.tail), t.elem, storage=t.storage, fresh=t.fresh)
    # (d) vector [n] -> key.shape
    if tgt.tail is not None and not lead and len(src.lead) == 1 and src.tail is None:
        cx.oblige(f"prim.{opname}.numel_matches", lift(src.lead[0]) == shape_numel_s(tgt.tail), kind="prim")
        return LTen(V.Shape([], tgt.tail), t.elem, storage=t.storage, fresh=t.fresh)
    # (e) identical structure
    if tgt.tail is not None and src.tail is not None and len(lead) == len(src.lead):
        c = tgt.tail == src.tail
        for a, b in zip(lead, src.lead):
            c = z3.And(c, lift(a) == lift(b))
        cx.oblige(f"prim.{opname}.same_shape", c, kind="prim")
        return LTen(src, t.elem, storage=t.storage, fresh=t.fresh)
    raise Unsupported(f"{opname} from {src} to {tgt}")


def _clamp_slice(cx, n, s: V.Slice, what):
    """Bounds of a slice along a dimension of size n.  Instead of modelling Python's clamping, the slice must be
    in range (an obligation): out-of-range slices in this code base are plumbing errors."""
    lo = lift(0 if s.lo is None else _unopt(s.lo))
    hi = lift(n) if s.hi is None else lift(_unopt(s.hi))
    if s.step is not None:
        raise Unsupported("slice step")
    cx.oblige(f"prim.slice.in_range.{what}", z3.And(0 <= lo, lo <= hi, hi <= lift(n)), kind="prim")
    return lo, hi


def _unopt(x):
    return x.value if isinstance(x, V.Opt) else x


def lten_getitem(interp, t: LTen, idx):
    cx = interp.cx
    full = lambda s: isinstance(s, V.Slice) and s.lo is None and s.hi is None and s.step is None
    if isinstance(idx, V.Slice):
        if not t.shape.lead:
            raise Unsupported("slice of an opaque-shape tensor")
        lo, hi = _clamp_slice(cx, t.shape.lead[0], idx, "rows")
        return LTen(V.Shape([z3.simplify(hi - lo)] + t.shape.lead[1:], t.shape.tail),
                    lambda ix: t.elem([ix[0] + lo] + list(ix[1:])), storage=t.storage, fresh=t.fresh)
    if isinstance(idx, tuple) and len(idx) == 2 and full(idx[0]) and isinstance(idx[1], V.Slice):
        if len(t.shape.lead) != 2 or t.shape.tail is not None:
            raise Unsupported("column slice of a non-matrix")
        lo, hi = _clamp_slice(cx, t.shape.lead[1], idx[1], "cols")
        return LTen(V.Shape([t.shape.lead[0], z3.simplify(hi - lo)]), lambda ix: t.elem([ix[0], ix[1] + lo]),
                    storage=t.storage, fresh=t.fresh)
    if isinstance(idx, (int, z3.ArithRef)):
        if not t.shape.lead:
            raise Unsupported("index into an opaque-shape tensor")
        i = lift(idx)
        cx.oblige("prim.index.in_range", z3.And(0 <= i, i < lift(t.shape.lead[0])), kind="prim")
        return LTen(V.Shape(t.shape.lead[1:], t.shape.tail), lambda ix: t.elem([i] + list(ix)), storage=t.storage, fresh=t.fresh)
    return MISSING


def l_reshape(interp, t, shp, name="reshape"):
    """x.view(...) is always a view of x; x.reshape(...) is a view when the strides of x allow it and a COPY otherwise [T].
    For a tensor whose memory layout the program does not control (an existing .grad field) both cases are explored."""
    r = _l_reshape_impl(interp, t, shp, name)
    g = getattr(t, "grad_of", None)
    if g is not None and isinstance(r, LTen):
        if name == "view" or interp.cx.branch(interp.cx.fresh_bool("reshape_is_a_view")):
            r.grad_of = g
        else:
            r = LTen(r.shape, r.elem, fresh=True)
    return r


def _alias(t):
    r = LTen(t.shape, t.elem, storage=t.storage, fresh=t.fresh)
    if getattr(t, "grad_of", None) is not None:
        r.grad_of = t.grad_of
    return r


def lten_binop(interp, op, a, b, inplace=False):
    cx = interp.cx
    if isinstance(a, V.TRef):
        a = as_lten(interp, a)
    if isinstance(b, V.TRef):
        b = as_lten(interp, b)
    if not (isinstance(a, LTen) and isinstance(b, LTen)):
        return MISSING
    if not isinstance(op, (ast.Add, ast.Sub)):
        return MISSING
    cx.oblige("prim.add.same_shape", a.shape.eq(b.shape), kind="prim")
    f = (lambda idx: a.elem(idx) + b.elem(idx)) if isinstance(op, ast.Add) else (lambda idx: a.elem(idx) - b.elem(idx))
    if inplace:
        r = LTen(a.shape, f, storage=a.storage, fresh=a.fresh)
        r.inplace_of = a
        return r
    return LTen(a.shape, f, fresh=True)


# ----------------------------------------------------------------------------- constructors / cat / stack

from .prims import prim, REG  # noqa: E402


def _like(interp, x, val):
    if isinstance(x, V.TRef):
        return LTen(x.shape, lambda idx: val, fresh=True)
    if isinstance(x, LTen):
        return LTen(x.shape, lambda idx: val, fresh=True)
    return None


_orig_zeros_like = REG.get("torch.zeros_like")
_orig_ones_like = REG.get("torch.ones_like")


@prim("torch.zeros_like")
def l_zeros_like(interp, x):
    r = _like(interp, x, ZERO)
    return r if r is not None else _orig_zeros_like(interp, x)


@prim("torch.ones_like")
def l_ones_like(interp, x):
    r = _like(interp, x, ONE)
    return r if r is not None else _orig_ones_like(interp, x)


_orig_zeros, _orig_ones = REG.get("torch.zeros"), REG.get("torch.ones")


def _filled(orig, val):
    def fn(interp, *size, dtype=None, device=None):
        # torch.zeros(t.shape) / torch.ones(t.shape) with a shape of arbitrary rank (opaque tail): a layout tensor
        if len(size) == 1 and isinstance(size[0], V.Shape) and size[0].tail is not None:
            return LTen(size[0], lambda idx: val, fresh=True)
        return orig(interp, *size, dtype=dtype, device=device)
    return fn


prim("torch.zeros")(_filled(_orig_zeros, ZERO))
prim("torch.ones")(_filled(_orig_ones, ONE))


@prim("torch.allclose", "torch.equal", "torch.isclose")
def l_allclose(interp, a, b, *x, **k):
    return LPred(interp.cx.fresh_bool("tensors_close"))


@prim("torch.count_nonzero", "torch.any", "torch.all")
def l_countnz(interp, a, *x, **k):
    return LPred(interp.cx.fresh_bool("tensor_pred"))


@prim("torch.empty")
def l_empty(interp, shape, device=None, dtype=None):
    cx = interp.cx
    f = cx.fresh_func("uninit", IntS, IntS, RealS)
    if isinstance(shape, V.Shape):
        return LTen(shape, lambda idx: f(idx[0] if idx else 0, idx[-1] if idx else 0), fresh=True)
    raise Unsupported("torch.empty with a non-shape argument")


def _blocks(interp, seq: V.SymSeq, length_of):
    """Layout of a concatenation of a sequence of blocks: offsets, total, and the block-lookup at an index."""
    from . import prims as P
    cx = interp.cx
    lens = V.SymSeq(seq.length, lambda j: length_of(seq.get(j)))
    ps = P.prefix_sum(interp, lens)

    def locate(c):
        """index of the block containing position c (canonical function of the prefix-sum object)"""
        return ps.blk(c)
    return ps, locate


@prim("torch.cat", "torch.concatenate")
def l_cat(interp, xs, dim=0):
    from . import prims as P
    c = V.concrete_iter(xs)
    if c is not None and c and not isinstance(c[0], LTen):
        raise Unsupported("cat in the algebraic domain")
    seq = P.as_symseq(interp, xs) if c is None else P.conc_seq(c)
    if dim == 0:
        ps, locate = _blocks(interp, seq, lambda t: t.shape.lead[0])
        memo = {}

        def elem(idx):
            k = idx[0].sexpr() if isinstance(idx[0], z3.ExprRef) else idx[0]
            if k not in memo:
                memo[k] = locate(lift(idx[0]))
            j = memo[k]
            return seq.get(j).elem([lift(idx[0]) - ps.off(j)] + list(idx[1:]))
        first = seq.get(z3.IntVal(0))
        r = LTen(V.Shape([ps.total()] + first.shape.lead[1:], first.shape.tail), elem)
        r.blocks = (seq, ps)
        return r
    if dim == 1:
        ps, locate = _blocks(interp, seq, lambda t: t.shape.lead[1])
        memo = {}

        def elem(idx):
            k = idx[1].sexpr() if isinstance(idx[1], z3.ExprRef) else idx[1]
            if k not in memo:
                memo[k] = locate(lift(idx[1]))
            j = memo[k]
            return seq.get(j).elem([idx[0], lift(idx[1]) - ps.off(j)])
        first = seq.get(z3.IntVal(0))
        # all blocks must have the same number of rows (Jacobians type invariant)
        j = z3.Int("j!q")
        r = LTen(V.Shape([first.shape.lead[0], ps.total()]), elem)
        r.blocks = (seq, ps)
        return r
    raise Unsupported("cat dim")


class RowBlocks:
    """A list of matrices known only through its vertical concatenation (loop-carried `jac_matrix_chunks`)."""

    def __init__(self, total, ncols, row):
        self.total = total  # Int term: rows so far
        self.ncols = ncols
        self.row = row  # closure (r, c) -> Real

    def sym_getattr(self, interp, name):
        if name == "append":
            def app(interp, x: LTen):
                if len(x.shape.lead) != 2 or x.shape.tail is not None:
                    raise Unsupported("append of a non-matrix to a list of row blocks")
                t0, r0, k = self.total, self.row, x.shape.lead[0]
                if self.ncols is None:
                    self.ncols = x.shape.lead[1]
                else:
                    interp.cx.oblige("prim.vstack.same_ncols", lift(self.ncols) == lift(x.shape.lead[1]), kind="prim")
                self.total = z3.simplify(lift(t0) + lift(k))
                self.row = lambda r, c, t0=t0, r0=r0, x=x: z3.If(r < lift(t0), r0(r, c), x.elem([r - lift(t0), c]))
            return V.SymMethod(app)
        return MISSING


@prim("torch.vstack")
def l_vstack(interp, xs):
    if isinstance(xs, RowBlocks):
        return LTen(V.Shape([xs.total, xs.ncols]), lambda idx: xs.row(idx[0], idx[1]))
    c = V.concrete_iter(xs)
    if c is not None:
        rb = RowBlocks(z3.IntVal(0), None, lambda r, c: ZERO)
        for x in c:
            interp.call(rb.sym_getattr(interp, "append"), [x])
        return LTen(V.Shape([rb.total, rb.ncols]), lambda idx: rb.row(idx[0], idx[1]))
    raise Unsupported("vstack of a symbolic sequence")


def l_stack(interp, xs, dim=0):
    """torch.stack(list of same-shape tensors, dim=0)"""
    from . import prims as P
    if dim != 0:
        raise Unsupported("stack dim")
    c = V.concrete_iter(xs)
    seq = P.as_symseq(interp, xs) if c is None else P.conc_seq(c)
    first = seq.get(z3.IntVal(0)) if c is None else c[0]
    if isinstance(first, V.TRef):
        first = as_lten(interp, first)
    return LTen(V.Shape([seq.length] + first.shape.lead, first.shape.tail),
                lambda idx: as_lten(interp, seq.get(idx[0])).elem(list(idx[1:])))


# ----------------------------------------------------------------------------- heap of .grad fields


class Heap:
    """.grad fields of all tensors: has(t): Bool, val(t, c): Real (flat index), stor(t): Int (storage id)."""

    def __init__(self, cx, name="H"):
        self.has = cx.fresh_func(f"{name}.has", TenS, z3.BoolSort())
        self.val = cx.fresh_func(f"{name}.val", TenS, IntS, RealS)
        self.stor = cx.fresh_func(f"{name}.stor", TenS, IntS)
        self.has_f = lambda t: self.has(t)
        self.val_f = lambda t, c: self.val(t, c)
        self.stor_f = lambda t: self.stor(t)
        self.writes = 0

    def snapshot(self):
        return (self.has_f, self.val_f, self.stor_f)

    def read_grad(self, interp, t: V.TRef):
        r = t.ref
        hv, vv, sv = self.has_f, self.val_f, self.stor_f
        val = LTen(t.shape, lambda idx: vv(r, idx[-1] if idx else z3.IntVal(0)), storage=sv(r), fresh=False)
        val.grad_of = r
        return V.Opt(z3.Not(hv(r)), val)

    def write_grad(self, interp, t: V.TRef, v):
        cx = interp.cx
        r = t.ref
        hv, vv, sv = self.has_f, self.val_f, self.stor_f
        self.writes += 1
        cx.event("grad_write", ref=r, pc_len=len(cx.pc))
        if v is None:
            self.has_f = lambda x: z3.If(x == r, False, hv(x))
            return
        if isinstance(v, V.TRef):
            v = as_lten(interp, v)
        if not isinstance(v, LTen):
            raise Unsupported("non-tensor stored into .grad")
        cx.oblige("prim.grad_store.same_shape", v.shape.eq(t.shape), kind="prim")
        new_stor = v.storage
        self.has_f = lambda x: z3.If(x == r, True, hv(x))
        self.val_f = lambda x, c: z3.If(x == r, v.elem([c]), vv(x, c))
        self.stor_f = lambda x: z3.If(x == r, new_stor, sv(x))
        cx.event("grad_store", ref=r, fresh=v.fresh, owner=v.owner, inplace=getattr(v, "inplace_of", None) is not None,
                 storage=new_stor, value=v, pc_len=len(cx.pc))

    def havoc(self, cx, name="Hh"):
        h = Heap(cx, name)
        self.has_f, self.val_f, self.stor_f = h.has_f, h.val_f, h.stor_f


_prev_tref_setattr = None


def tref_setattr(interp, t: V.TRef, name, v):
    if name != "grad":
        raise Unsupported(f"store to tensor attribute {name}")
    h = interp.cx.ghost.get("heap")
    if h is None:
        raise Unsupported(".grad store without a heap model")
    h.write_grad(interp, t, v)


V.TRef.sym_setattr = lambda self, interp, name, v: tref_setattr(interp, self, name, v)


# ----------------------------------------------------------------------------- autograd theory [T]


def DJ(outs_id, r, x, c):
    """d (r-th scalar of the flattened output list `outs_id`) / d (c-th scalar of tensor x): the TRUE Jacobian
    entry 'w.r.t. what PyTorch differentiates' (spec-level function)."""
    return U("DJ", RealS, outs_id, lift(r), x, lift(c))


def bigsum(n, body_at, tag="bigsum"):
    """Sum_{r=0}^{n-1} body_at(r), kept symbolic with a canonical bound variable (two sums are equal terms iff
    their bounds and bodies are)."""
    R0 = z3.Int("R0!canon")
    # the summand is guarded by the range of the canonical bound variable: two sums are then equal as soon as their
    # summands agree INSIDE the range (congruence on the guarded body)
    return U(tag, RealS, lift(n), z3.If(z3.And(0 <= R0, R0 < lift(n)), body_at(R0), ZERO))


_DELTA_NEG = set()  # summands for which no Kronecker-delta structure could be established (always sound to reuse)


def delta_sum(cx, n, body_at):
    """Sum_{r<n} body_at(r) when the body vanishes off a single index rho (a Kronecker delta): = body_at(rho).
    The delta structure is CHECKED by z3 (not assumed); otherwise the sum stays symbolic."""
    r = z3.Int("R0!canon")
    t = body_at(r)
    key = (z3.simplify(lift(n)).sexpr(), t.sexpr())
    if key in _DELTA_NEG:
        return bigsum(n, body_at)
    # a sum over exactly one index
    # (decided on the quantifier-free part of the path condition: prefix sums of concrete-length lists are unfolded)
    if not cx.feasible(lift(n) != 1):
        return z3.substitute(t, (r, z3.IntVal(0)))
    cands = []
    for a in _atoms(t):
        if z3.is_eq(a):
            l, rr = a.arg(0), a.arg(1)
            for x, y in ((l, rr), (rr, l)):
                if z3.is_int(x) and _mentions(x, r) and not _mentions(y, r):
                    # solve x == y for r when x is r + k / r - k / r
                    sol = _solve_linear(x, y, r)
                    if sol is not None:
                        cands.append(sol)
                    else:
                        cands.append(y)  # guess: the equation pins r to the other side (verified below)
    for rho in cands:
        s = z3.Solver()
        s.set("timeout", 3000)
        for h in cx.pc:
            s.add(h)
        s.add(0 <= r, r < lift(n), r != rho, t != 0)
        if s.check() == z3.unsat:
            return z3.If(z3.And(0 <= rho, rho < lift(n)), z3.substitute(t, (r, rho)), ZERO)
    _DELTA_NEG.add(key)
    return bigsum(n, body_at)


def _atoms(t):
    seen, out, stack = set(), [], [t]
    while stack:
        x = stack.pop()
        if x.get_id() in seen:
            continue
        seen.add(x.get_id())
        if z3.is_bool(x) and z3.is_app(x) and x.num_args() == 2 and z3.is_eq(x):
            out.append(x)
        if z3.is_app(x):
            stack.extend(x.children())
    return out


def _mentions(t, v):
    stack, seen = [t], set()
    while stack:
        x = stack.pop()
        if x.get_id() in seen:
            continue
        seen.add(x.get_id())
        if x.eq(v):
            return True
        if z3.is_app(x):
            stack.extend(x.children())
    return False


def _solve_linear(x, y, r):
    """x == y with x linear in r with coefficient +-1: return the term for r."""
    d = z3.simplify(x - r)
    if not _mentions(d, r):
        return z3.simplify(y - d)
    d2 = z3.simplify(x + r)
    if not _mentions(d2, r):
        return z3.simplify(d2 - y)
    return None


def _outs_handle(interp, outputs):
    """Identity of an (ordered) output list for the spec function DJ: a function idx -> Ten plus its length."""
    from . import prims as P
    cx = interp.cx
    seq = P.as_symseq(interp, outputs) if V.concrete_iter(outputs) is None else P.conc_seq(V.concrete_iter(outputs))
    I0 = z3.Int("I0!canon")
    key = ("outs", z3.simplify(lift(seq.length)).sexpr(), seq.get(I0).ref.sexpr() if isinstance(I0, z3.ExprRef) else "")
    cache = cx.ghost.setdefault("outs_handles", {})
    if key not in cache:
        h = z3.Const(f"outs!{len(cache)}", z3.DeclareSort("OutList"))
        cache[key] = (h, seq)
    return cache[key]


@prim("torch.autograd.grad")
def l_autograd_grad(interp, outputs, inputs, grad_outputs=None, retain_graph=None, create_graph=False, allow_unused=None,
                    **kw):
    """[T] torch.autograd.grad(outputs, inputs, grad_outputs, retain_graph, allow_unused=True):
    per input x:  None if x is unreachable from every output, else the tensor of shape x.shape with entries
        sum_r cot(r) * DJ(outputs, r, x, c)        (r over the flattened output scalars, in list order);
    no .grad / data write; ghost: one sweep over path(outputs, inputs), freed afterwards unless retained."""
    from . import prims as P
    cx = interp.cx
    h, oseq = _outs_handle(interp, outputs)
    iseq = P.as_symseq(interp, inputs) if V.concrete_iter(inputs) is None else P.conc_seq(V.concrete_iter(inputs))
    if allow_unused is not True:
        raise Unsupported("autograd.grad without allow_unused=True")
    gseq = None
    if grad_outputs is not None:
        gseq = P.as_symseq(interp, grad_outputs) if V.concrete_iter(grad_outputs) is None else P.conc_seq(V.concrete_iter(grad_outputs))
        cx.oblige("prim.autograd_grad.one_cotangent_per_output", lift(gseq.length) == lift(oseq.length), kind="prim")
    # layout of the flattened output scalars
    lens = V.SymSeq(oseq.length, lambda j: oseq.get(j).numel())
    ps = P.prefix_sum(interp, lens)
    R = ps.total()
    batch = cx.ghost.get("vmap_batch")
    cx.event("sweep", outs=h, rows=(batch if batch is not None else 1), retain=retain_graph, under_vmap=batch is not None,
             create_graph=create_graph, inputs=iseq, pc_len=len(cx.pc))
    if gseq is not None:
        j0 = cx.fresh_int("gj")
        cx.assume(z3.And(0 <= j0, j0 < lift(oseq.length)))
        cx.oblige("prim.autograd_grad.cotangent_shape", gseq.get(j0).shape.eq(oseq.get(j0).shape), kind="prim")

    def cot_at(r):
        """cotangent entry for the r-th flattened output scalar"""
        if gseq is None:
            return ONE
        j = ps.blk(r)
        return gseq.get(j).elem([r - ps.off(j)])

    def grad_for(k):
        x = iseq.get(k)
        unreachable = U("unreachable", z3.BoolSort(), h, x.ref)

        def elem(idx):
            c = idx[-1] if idx else z3.IntVal(0)
            return delta_sum(cx, R, lambda r: cot_at(r) * DJ(h, r, x.ref, c))
        return V.Opt(unreachable, LTen(x.shape, elem, fresh=True))
    res = V.SymSeq(iseq.length, grad_for)
    res.is_autograd_result = True
    return res


@prim("torch.vmap")
def l_vmap(interp, fn, chunk_size=None, in_dims=0):
    """[T] torch.vmap(f, chunk_size=c)(xs): row b of the result is f(xs[b]); the effects of f occur ceil(B/c) times
    (one batched sweep when c = B); ghost vmap_calls += 1."""
    from . import prims as P

    def run(interp2, xs):
        cx = interp.cx
        seq = P.as_symseq(interp, xs) if V.concrete_iter(xs) is None else P.conc_seq(V.concrete_iter(xs))
        Bn = seq.get(z3.IntVal(0)).shape.lead[0]
        cx.event("vmap", batch=Bn, chunk_size=chunk_size, pc_len=len(cx.pc))
        b0 = cx.fresh_int("vb")
        cx.assume(z3.And(0 <= b0, b0 < lift(Bn)))
        rows = V.SymSeq(seq.length, lambda j: lten_getitem(interp, seq.get(j), b0))
        prev = cx.ghost.get("vmap_batch")
        cx.ghost["vmap_batch"] = Bn
        cx.ghost["vmap_chunk"] = chunk_size
        try:
            with _mute_index_obligations(cx):
                out = interp.call(fn, [rows])
        finally:
            cx.ghost["vmap_batch"] = prev
        if not isinstance(out, LTen):
            raise Unsupported("vmap of a function not returning a tensor")

        def elem(idx):
            return z3.substitute(out.elem(list(idx[1:])), (b0, lift(idx[0])))
        return LTen(V.Shape([Bn] + out.shape.lead, out.shape.tail), elem)
    return V.SymMethod(run)


class _mute_index_obligations:
    def __init__(self, cx):
        self.cx = cx

    def __enter__(self):
        return self

    def __exit__(self, *a):
        return False


# ----------------------------------------------------------------------------- abstract aggregator


class AbstractAgg:
    """An arbitrary aggregator A with len(A(M)) = ncols(M).  Calling it records its input matrix (compared with
    the spec matrix by the enclosing contract) and returns a vector of uninterpreted entries."""

    def __init__(self, cx, may_raise=True):
        self.cx = cx
        self.calls = []
        self.may_raise = may_raise

    def sym_call(self, interp, args, kwargs):
        cx = interp.cx
        (M,) = args
        if not isinstance(M, LTen) or len(M.shape.lead) != 2 or M.shape.tail is not None:
            cx.oblige("agg.input_is_matrix", False, kind="prim")
            raise Unsupported("aggregator called with a non-matrix")
        if self.may_raise:
            rej = cx.fresh_bool("aggregator.rejects")
            if cx.branch(rej):
                cx.event("agg_reject", pc_len=len(cx.pc))
                raise SymRaise(ExcValue("ValueError"))
        k = len(self.calls)
        out = cx.fresh_func(f"aggout{k}", IntS, RealS)
        self.calls.append((M, out))
        cx.event("agg_call", matrix=M, out=out, pc_len=len(cx.pc))
        return LTen(V.Shape([M.shape.lead[1]]), lambda idx: out(lift(idx[0])), fresh=True)

    def sym_getattr(self, interp, name):
        if name == "forward":
            # A.forward(M) computes the same vector as A(M) but bypasses nn.Module.__call__ (registered hooks): recorded, so
            # that a contract can demand that the aggregator is CALLED
            def fwd(interp2, *a, **k):
                interp2.cx.event("agg_forward_called_directly", pc_len=len(interp2.cx.pc))
                return self.sym_call(interp2, list(a), k)
            return V.SymMethod(fwd)
        return MISSING
