"""Layout tensor domain (autojac): a tensor value is a symbolic Shape plus a meta-level closure giving its
element at an index tuple (one index per leading dimension, then ONE flat row-major index inside the opaque
tail).  view/reshape between (lead, tail) and (lead, numel(tail)) are the identity on this addressing [T]."""
from __future__ import annotations

import ast

import z3

from . import values as V
from .core import ExcValue, SymRaise
from .loader import Unsupported
from .values import MISSING, U, lift

__all__ = ["LTen", "lten_binop", "lten_getitem", "l_stack"]


class LTen:
    """shape: V.Shape; elem(idx: list of Int terms) -> Real term.  `storage` token for alias analysis,
    `ref`: identity when the tensor is a user tensor."""

    def __init__(self, shape: V.Shape, elem, storage=None, ref=None, dtype=None):
        self.shape = shape
        self.elem = elem
        self.storage = storage if storage is not None else object()
        self.ref = ref
        self.dtype = dtype

    def nidx(self):
        return len(self.shape.lead) + (1 if self.shape.tail is not None else 0)

    def ite(self, c, other):
        return LTen(self.shape, lambda idx: z3.If(c, self.elem(idx), other.elem(idx)), dtype=self.dtype)

    def sym_getattr(self, interp, name):
        return lten_getattr(interp, self, name)

    def sym_len(self, interp):
        return self.shape.lead[0]


def lten_binop(interp, op, a, b, inplace=False):
    return MISSING


def lten_getitem(interp, t, idx):
    return MISSING


def lten_getattr(interp, t, name):
    return MISSING


def l_stack(interp, xs, dim=0):
    raise Unsupported("stack in layout domain")
