"""Algebraic tensor domain (aggregators): tensor/ndarray values are terms of the uninterpreted sort Arr built
from operators named after the spec-level operation; shapes are lists of Int terms, dtypes terms of sort Dtype,
0-d values carry a Real term so that scalar control flow and arithmetic are interpreted."""
from __future__ import annotations

import ast

import z3

from . import values as V
from .core import ExcValue, SymRaise
from .loader import External, Unsupported
from .values import MISSING, U, ArrS, DtypeS, lift

__all__ = ["ATen", "aten_binop", "aten_compare", "aten_getitem", "Storage", "as_real", "mk", "scalar_aten",
           "RealS", "IntS", "item_of"]

RealS = z3.RealSort()
IntS = z3.IntSort()


class Storage:
    def __init__(self, is_input=False, label=""):
        self.is_input = is_input
        self.label = label


class ATen:
    def __init__(self, term, shape, dtype, kind="torch", storage=None, real=None, intval=None, boolean=False):
        self.term = term
        self.shape_l = [s for s in shape]
        self.dtype = dtype
        self.kind = kind
        self.storage = storage or Storage()
        self.real = real  # Real term when 0-d
        self.intval = intval  # Int term when this is a 0-d integer tensor (argmin index, ...)
        self.boolean = boolean
        self.ref = None
        from . import numeval
        if z3.is_const(term) and term.decl().kind() == z3.Z3_OP_UNINTERPRETED:
            numeval.ARR_SHAPES[term.decl().name()] = list(self.shape_l)   # shapes of free array constants (numeric replay)
        elif isinstance(term, z3.ExprRef) and len(numeval.TERM_SHAPES) < 200000:
            numeval.TERM_SHAPES[term.get_id()] = list(self.shape_l)       # shapes of composite terms (opaque sub-terms)
            if z3.is_app(term) and term.decl().kind() == z3.Z3_OP_UNINTERPRETED and "!" in term.decl().name():
                numeval.FUNC_SHAPES[term.decl().name()] = list(self.shape_l)   # contract functions (PS!0, W!0): one shape per function

    @property
    def rank(self):
        return len(self.shape_l)

    def method(self, name, *args, shape=None, dtype=None, real=None, view=False):
        return mk(name, [self] + list(args), shape if shape is not None else self.shape_l,
                  dtype if dtype is not None else self.dtype, kind=self.kind,
                  storage=self.storage if view else None, real=real)

    def ite(self, c, other):
        return ATen(z3.If(c, self.term, other.term), self.shape_l, self.dtype, self.kind)

    def sym_len(self, interp):
        if not self.shape_l:
            raise SymRaise(ExcValue("TypeError"))
        return self.shape_l[0]

    def sym_truth(self, interp):
        if self.rank == 0:
            if self.boolean:
                return U("truth", z3.BoolSort(), self.term)
            return as_real(self) != 0
        raise Unsupported("truth value of a non-scalar tensor")

    def sym_iter(self, interp):
        n = self.shape_l[0]
        return V.SymSeq(n, lambda i: aten_getitem(interp, self, i))

    def sym_pysum(self, interp):
        # Python's sum() over a 1-d tensor: 0-d tensor holding the sum (used as `sum(lambda_ > tol)`)
        r = mk("pysum", [self], [], self.dtype)
        if self.boolean:
            r.intval = U("count_true", IntS, self.term)
        return r

    def sym_getattr(self, interp, name):
        return aten_getattr(interp, self, name)

    def sym_setitem(self, interp, idx, v):
        cx = interp.cx
        cx.event("inplace", target=self, op="setitem")
        cx.oblige("frame.inplace_only_on_fresh", not self.storage.is_input, kind="frame")
        i = idx_term(idx)
        self.term = U("setitem", ArrS, self.term, *i, arg_term(v))

    def sym_neg(self, interp):
        if self.rank == 0 and self.real is not None:
            return scalar_aten(-self.real, self.dtype, self.kind)
        return self.method("neg")

    def __repr__(self):
        return f"ATen({self.term}, {self.shape_l})"


def item_of(t: ATen):
    if t.real is not None:
        return t.real
    if t.intval is not None:
        return z3.ToReal(t.intval)
    return U("item", RealS, t.term)


def as_real(x):
    if isinstance(x, bool):
        raise Unsupported("bool as real")
    if isinstance(x, (int, float)):
        return z3.RealVal(repr(x)) if isinstance(x, float) else z3.RealVal(x)
    if isinstance(x, z3.ArithRef):
        return z3.ToReal(x) if z3.is_int(x) else x
    if isinstance(x, ATen) and x.rank == 0:
        return item_of(x)
    if isinstance(x, V.Quot):
        return x.real()
    raise Unsupported(f"as_real of {type(x).__name__}")


def arg_term(x):
    """z3 term standing for an operand inside an Arr term."""
    if isinstance(x, ATen):
        if x.rank == 0 and (x.real is not None or x.intval is not None):
            return x.real if x.real is not None else x.intval
        return x.term
    if isinstance(x, (int, float, bool)):
        return lift(x) if not isinstance(x, float) else z3.RealVal(repr(x))
    if isinstance(x, z3.ExprRef):
        return x
    if isinstance(x, V.Quot):
        return x.real()
    if isinstance(x, str):
        return z3.StringVal(x)
    if x is None:
        return z3.StringVal("None")
    raise Unsupported(f"operand {type(x).__name__} inside an array term")


def mk(name, args, shape, dtype, kind="torch", storage=None, real=None):
    if any(isinstance(a, ATen) and a.kind == "cvxpy" for a in args):
        kind, real = "cvxpy", None
    term = U(name, ArrS, *[arg_term(a) for a in args])
    return ATen(term, shape, dtype, kind=kind, storage=storage, real=real)


def scalar_aten(real, dtype, kind="torch"):
    real = z3.simplify(real) if isinstance(real, z3.ExprRef) else lift(real)
    return ATen(U("scalar", ArrS, real), [], dtype, kind=kind, real=real)


def idx_term(idx):
    if isinstance(idx, tuple):
        out = []
        for x in idx:
            out.extend(idx_term(x))
        return out
    if isinstance(idx, V.Slice):
        return [z3.StringVal("slice"), arg_term(idx.lo), arg_term(idx.hi)]
    if isinstance(idx, ATen):
        if idx.intval is not None:
            return [idx.intval]
        return [idx.term]
    return [arg_term(idx)]


def promote(a, b):
    da = a.dtype if isinstance(a, ATen) else None
    db = b.dtype if isinstance(b, ATen) else None
    if da is None:
        return db
    if db is None:
        return da
    if da.eq(db):
        return da
    BOOL = U("bool_dtype", DtypeS)
    if db.eq(BOOL):   # [T] bool is the lowest category of torch's type promotion: promote(d, bool) = d
        return da
    if da.eq(BOOL):
        return db
    return z3.If(da == db, da, U("promote", DtypeS, da, db))


def bshape(a, b):
    """broadcast shape: dimensions aligned from the right; a literal 1 yields to the other side's entry"""
    sa = list(a.shape_l) if isinstance(a, ATen) else []
    sb = list(b.shape_l) if isinstance(b, ATen) else []
    n = max(len(sa), len(sb))
    pa, pb = [1] * (n - len(sa)) + sa, [1] * (n - len(sb)) + sb
    out = []
    for x, y in zip(pa, pb):
        if isinstance(x, int) and x == 1:
            out.append(y)
        else:
            out.append(x)   # equal sizes, or y == 1 (a mismatch is a RuntimeError in torch: shapes of valid programs agree)
    return out


OPN = {ast.Add: "add", ast.Sub: "sub", ast.Mult: "mul", ast.Div: "div", ast.Pow: "pow", ast.MatMult: "matmul"}


def aten_binop(interp, op, a, b, inplace=False):
    cx = interp.cx
    if type(op) not in OPN:
        return MISSING
    name = OPN[type(op)]
    A, B = a, b
    for x in (a, b):
        if not isinstance(x, (ATen, int, float, z3.ArithRef, V.Quot)):
            return MISSING
    kind = a.kind if isinstance(a, ATen) else b.kind
    if isinstance(a, ATen) and isinstance(b, ATen) and "cvxpy" in (a.kind, b.kind) and "torch" not in (a.kind, b.kind):
        kind = "cvxpy"
    elif isinstance(a, ATen) and isinstance(b, ATen) and a.kind != b.kind:
        # numpy @ torch etc.: a TypeError in the real libraries (the C19 operand-kind obligation)
        cx.oblige("kinds.operands_same_library", False, kind="kinds", site=getattr(interp, "cur_site", None))
        raise SymRaise(ExcValue("TypeError"))
    if name == "matmul":
        if not (isinstance(a, ATen) and isinstance(b, ATen)):
            return MISSING
        ra, rb = a.rank, b.rank
        if ra == 2 and rb == 2:
            cx.oblige("prim.matmul.inner_dims", lift(a.shape_l[1]) == lift(b.shape_l[0]), kind="prim")
            return mk("matmul", [a, b], [a.shape_l[0], b.shape_l[1]], promote(a, b), kind)
        if ra == 1 and rb == 2:
            cx.oblige("prim.matmul.inner_dims", lift(a.shape_l[0]) == lift(b.shape_l[0]), kind="prim")
            return mk("vecmat", [a, b], [b.shape_l[1]], promote(a, b), kind)
        if ra == 2 and rb == 1:
            cx.oblige("prim.matmul.inner_dims", lift(a.shape_l[1]) == lift(b.shape_l[0]), kind="prim")
            return mk("matvec", [a, b], [a.shape_l[0]], promote(a, b), kind)
        if ra == 1 and rb == 1:
            cx.oblige("prim.matmul.inner_dims", lift(a.shape_l[0]) == lift(b.shape_l[0]), kind="prim")
            r = mk("dot", [a, b], [], promote(a, b), kind)
            return r
        raise Unsupported("matmul ranks")
    # scalar (0-d / python number) arithmetic is interpreted
    sa = not isinstance(a, ATen) or a.rank == 0
    sb = not isinstance(b, ATen) or b.rank == 0
    dt = promote(a, b)
    if kind == "cvxpy" and sa and sb:
        return mk("cp_" + name, [a, b], [], dt, "cvxpy")
    if sa and sb:
        if (isinstance(a, ATen) and a.boolean) or (isinstance(b, ATen) and b.boolean):
            return mk(name, [a, b], [], dt, kind)
        ra, rb = as_real(a), as_real(b)
        if name == "add":
            r = ra + rb
        elif name == "sub":
            r = ra - rb
        elif name == "mul":
            r = ra * rb
        elif name == "div":
            r = ra / rb
        elif name == "pow":
            if isinstance(b, int) and b == 2:
                r = ra * ra
            else:
                return mk("pow", [a, b], [], dt, kind)
        return scalar_aten(r, dt, kind)
    shape = bshape(a, b)
    if inplace and isinstance(a, ATen):
        cx.event("inplace", target=a, op=name)
        cx.oblige("frame.inplace_only_on_fresh", not a.storage.is_input, kind="frame")
        a.term = U("s" + name if sb else name, ArrS, arg_term(a), arg_term(b)) if not sb else _scalar_op(name, a, b, left_scalar=False).term
        return a
    if sa and not sb:
        return _scalar_op(name, b, a, left_scalar=True)
    if sb and not sa:
        return _scalar_op(name, a, b, left_scalar=False)
    boolean = isinstance(a, ATen) and a.boolean and isinstance(b, ATen) and b.boolean
    r = mk("e" + name, [a, b], shape, dt, kind)
    r.boolean = boolean
    return r


def _scalar_op(name, t: ATen, s, left_scalar):
    """tensor (rank>=1) op scalar, normalised: smul(c, x), sadd(c, x), x - c = sadd(-c, x), x / c = sdiv(x, c),
    c / x = rdiv(c, x), c - x = rsub(c, x), x ** c = spow(x, c)."""
    dt = promote(t, s)
    c = as_real(s)
    sh = t.shape_l
    if name == "mul":
        return mk("smul", [c, t], sh, dt, t.kind)
    if name == "add":
        return mk("sadd", [c, t], sh, dt, t.kind)
    if name == "sub":
        return mk("rsub", [c, t], sh, dt, t.kind) if left_scalar else mk("sadd", [z3.simplify(-c), t], sh, dt, t.kind)
    if name == "div":
        return mk("rdiv", [c, t], sh, dt, t.kind) if left_scalar else mk("sdiv", [t, c], sh, dt, t.kind)
    if name == "pow":
        if left_scalar:
            raise Unsupported("scalar ** tensor")
        return mk("spow", [t, c], sh, dt, t.kind)
    raise Unsupported(name)


CMP = {ast.Lt: "lt", ast.LtE: "le", ast.Gt: "gt", ast.GtE: "ge", ast.Eq: "eq", ast.NotEq: "ne"}


def aten_compare(interp, op, a, b):
    if type(op) not in CMP:
        return MISSING
    sa = not isinstance(a, ATen) or a.rank == 0
    sb = not isinstance(b, ATen) or b.rank == 0
    if any(isinstance(x, ATen) and x.kind == "cvxpy" for x in (a, b)):
        t = a if isinstance(a, ATen) else b
        r = mk("cp_constraint_" + CMP[type(op)], [a, b], bshape(a, b), U("bool_dtype", DtypeS), "cvxpy")
        r.boolean = True
        return r
    if sa and sb:
        ia = isinstance(a, ATen) and a.intval is not None or isinstance(a, int) or isinstance(a, z3.ArithRef) and z3.is_int(a)
        ib = isinstance(b, ATen) and b.intval is not None or isinstance(b, int) or isinstance(b, z3.ArithRef) and z3.is_int(b)
        if ia and ib:
            x = a.intval if isinstance(a, ATen) else lift(a)
            y = b.intval if isinstance(b, ATen) else lift(b)
        else:
            x, y = as_real(a), as_real(b)
        return {"lt": x < y, "le": x <= y, "gt": x > y, "ge": x >= y, "eq": x == y, "ne": x != y}[CMP[type(op)]]
    t = a if isinstance(a, ATen) and a.rank > 0 else b
    r = mk("cmp_" + CMP[type(op)], [a, b], t.shape_l, U("bool_dtype", DtypeS), t.kind)
    r.boolean = True
    return r


def aten_getitem(interp, t: ATen, idx):
    cx = interp.cx
    if isinstance(idx, ATen) and idx.rank == 0:
        idx = idx.intval if idx.intval is not None else idx
    if isinstance(idx, (int, z3.ArithRef)):
        if t.rank == 0:
            raise SymRaise(ExcValue("IndexError"))
        if isinstance(idx, int) and idx < 0:
            i = lift(t.shape_l[0]) + idx
        else:
            i = idx
        r = mk("row" if t.rank == 2 else "at", [t, i], t.shape_l[1:], t.dtype, t.kind, storage=t.storage)
        if r.rank == 0 and t.dtype.eq(U("int64", DtypeS)):
            r.intval = U("item_i", IntS, r.term)
        return r
    if isinstance(idx, ATen):  # index tensor: x[order]
        if idx.boolean:
            raise Unsupported("boolean-mask indexing (the result's shape depends on the data)")
        r = mk("take", [t, idx], idx.shape_l + t.shape_l[1:], t.dtype, t.kind)
        return r
    if isinstance(idx, V.Slice):
        n = _slice_len(t.shape_l[0], idx)
        return mk("slice0", [t] + idx_term(idx)[1:], [n] + t.shape_l[1:], t.dtype, t.kind, storage=t.storage)
    if isinstance(idx, tuple) and len(idx) == 2 and t.rank == 2:
        i0, i1 = idx
        full0 = isinstance(i0, V.Slice) and i0.lo is None and i0.hi is None
        if full0 and isinstance(i1, (int, z3.ArithRef)):
            return mk("col", [t, i1], [t.shape_l[0]], t.dtype, t.kind, storage=t.storage)
        if full0 and isinstance(i1, V.Slice):
            n = _slice_len(t.shape_l[1], i1)
            return mk("colslice", [t] + idx_term(i1)[1:], [t.shape_l[0], n], t.dtype, t.kind, storage=t.storage)
        if full0 and isinstance(i1, ATen):
            return mk("takecols", [t, i1], [t.shape_l[0]] + i1.shape_l, t.dtype, t.kind)
        if not isinstance(i0, V.Slice) and not isinstance(i1, V.Slice):
            a0 = i0.intval if isinstance(i0, ATen) and i0.intval is not None else i0
            a1 = i1.intval if isinstance(i1, ATen) and i1.intval is not None else i1
            return mk("entry", [t, a0, a1], [], t.dtype, t.kind, storage=t.storage)
    raise Unsupported(f"tensor subscript {idx!r}")


def as_int(x):
    if isinstance(x, ATen):
        if x.intval is not None:
            return x.intval
        raise Unsupported("non-integer tensor used as an index bound")
    return lift(x)


def _slice_len(n, s: V.Slice):
    n = lift(n)
    lo = as_int(0 if s.lo is None else s.lo)
    hi = n if s.hi is None else as_int(s.hi)
    if isinstance(s.lo, int) and s.lo < 0:
        lo = n + s.lo
    if isinstance(s.hi, int) and s.hi < 0:
        hi = n + s.hi
    lo_c = z3.If(lo > n, n, z3.If(lo < 0, 0, lo))
    hi_c = z3.If(hi > n, n, z3.If(hi < 0, 0, hi))
    return z3.simplify(z3.If(hi_c >= lo_c, hi_c - lo_c, 0))


# ----------------------------------------------------------------------------- attributes / methods


def _m(fn):
    return V.SymMethod(fn)


def aten_getattr(interp, t: ATen, name):
    cx = interp.cx
    if name == "shape":
        return V.Shape(list(t.shape_l))
    if name == "dtype":
        return t.dtype
    if name == "device":
        return "cpu"
    if name == "ndim":
        return t.rank
    if name == "T":
        return transpose(t)
    if name == "value":  # cvxpy Variable.value
        return MISSING
    if name in ("dim",):
        return _m(lambda interp: t.rank)
    if name == "t":
        return _m(lambda interp: transpose(t))
    if name in ("cpu", "detach", "contiguous"):
        return _m(lambda interp: ATen(t.term, t.shape_l, t.dtype, t.kind, storage=t.storage, real=t.real, intval=t.intval))
    if name == "clone":
        return _m(lambda interp: ATen(t.term, t.shape_l, t.dtype, t.kind, real=t.real))
    if name == "numpy":
        return _m(lambda interp: ATen(t.term, t.shape_l, t.dtype, "numpy", storage=t.storage, real=t.real))
    if name == "astype":
        return _m(lambda interp, dt: ATen(t.term if dt.eq(t.dtype) else U("cast", ArrS, t.term, dt), t.shape_l, dt, t.kind, real=t.real))
    if name == "to":
        def to(interp, *a, device=None, dtype=None):
            for x in a:
                if isinstance(x, z3.ExprRef) and x.sort() == DtypeS:
                    dtype = x
            if dtype is None or dtype.eq(t.dtype):
                return ATen(t.term, t.shape_l, t.dtype, t.kind, storage=t.storage, real=t.real, intval=t.intval)
            # .to(dtype=d) returns the SAME tensor (no copy) when the dtype already is d, a converted copy otherwise
            if t.storage.is_input and interp.cx.branch(dtype == t.dtype):
                return ATen(t.term, t.shape_l, t.dtype, t.kind, storage=t.storage, real=t.real, intval=t.intval)
            return ATen(U("cast", ArrS, t.term, dtype), t.shape_l, dtype, t.kind, real=t.real)
        return _m(to)
    if name == "item":
        return _m(lambda interp: item_of(t))
    if name == "isfinite":
        def isfinite(interp):
            r = t.method("isfinite")
            r.boolean = True
            return r
        return _m(isfinite)
    if name == "all":
        def all_(interp):
            r = t.method("all", shape=[])
            r.boolean = True
            return r
        return _m(all_)
    if name == "abs":
        def abs_(interp):
            const = _const_fill(t)
            if const is not None and t.rank >= 1 and z3.is_true(z3.simplify(const[0] >= 0)):
                return t   # |ones| = ones, |zeros| = zeros
            if t.rank == 0:
                x = item_of(t)
                return scalar_aten(z3.If(x >= 0, x, -x), t.dtype, t.kind)
            return t.method("abs")
        return _m(abs_)
    if name == "sqrt":
        def sqrt_(interp):
            if t.rank == 0:
                return scalar_aten(U("sqrt", RealS, item_of(t)), t.dtype, t.kind)
            return t.method("sqrt")
        return _m(sqrt_)
    if name in ("sum", "mean"):
        def red(interp, dim=None):
            const = _const_fill(t)
            if const is not None and (dim is None or (t.rank == 1 and dim in (0, -1))):
                # sum / mean of a constant-filled array (ones, zeros, full): interpreted
                c, numel = const
                val = c * z3.ToReal(numel) if name == "sum" else c
                return scalar_aten(val, t.dtype, t.kind)
            if dim is None:
                return mk(name + "_all", [t], [], t.dtype, t.kind, real=U(name + "_all_r", RealS, t.term))
            if t.rank == 2:
                return mk(f"{name}_dim", [t, dim], [t.shape_l[1 - dim]] if dim in (0, 1) else None, t.dtype, t.kind)
            if t.rank == 1 and dim in (0, -1):
                return mk(name + "_all", [t], [], t.dtype, t.kind, real=U(name + "_all_r", RealS, t.term))
            raise Unsupported("reduction dims")
        return _m(red)
    if name == "norm":
        def norm(interp, p=None, dim=None):
            if dim is None:
                return mk("norm_all", [t], [], t.dtype, t.kind, real=U("norm_all_r", RealS, t.term))
            if t.rank == 2 and dim == 1:
                return mk("rownorms", [t], [t.shape_l[0]], t.dtype, t.kind)
            raise Unsupported("norm dims")
        return _m(norm)
    if name in ("max", "min"):
        def mm(interp, dim=None):
            if dim is None:
                return mk(name + "_all", [t], [], t.dtype, t.kind, real=U(name + "_all_r", RealS, t.term))
            sh = [x for i, x in enumerate(t.shape_l) if i != dim % max(1, t.rank)]
            return (mk(name + "_dim_vals", [t, dim], sh, t.dtype, t.kind), mk(name + "_dim_idx", [t, dim], sh, U("int64", DtypeS), t.kind))
        return _m(mm)
    if name == "any":
        def any_(interp, dim=None):
            if dim is None:
                r = t.method("any", shape=[])
            else:
                r = mk("any_dim", [t, dim], [x for i, x in enumerate(t.shape_l) if i != dim % max(1, t.rank)], t.dtype, t.kind)
            r.boolean = True
            return r
        return _m(any_)
    if name in ("new_zeros", "new_ones"):
        return _m(lambda interp, *size, **k: mk(name[4:], _shape_arg(size[0] if len(size) == 1 else list(size)), _shape_arg(size[0] if len(size) == 1 else list(size)), t.dtype, t.kind))
    if name in ("exp", "log", "sign", "neg", "square", "relu", "float", "double", "flatten", "tanh", "sigmoid"):
        return _m(lambda interp: t.method(name))
    if name == "clamp":
        return _m(lambda interp, min=None, max=None: t.method("clamp", min, max))
    if name == "diag":
        return _m(lambda interp: p_diag(interp, t))
    if name == "unsqueeze":
        def unsq(interp, d):
            if t.rank == 1 and d == 1:
                return mk("unsqueeze1", [t], [t.shape_l[0], 1], t.dtype, t.kind, storage=t.storage)
            if t.rank == 1 and d == 0:
                return mk("unsqueeze0", [t], [1, t.shape_l[0]], t.dtype, t.kind, storage=t.storage)
            raise Unsupported("unsqueeze")
        return _m(unsq)
    if name == "squeeze":
        return _m(lambda interp, d=None: mk("squeeze", [t], [s for s in t.shape_l if not (isinstance(s, int) and s == 1)], t.dtype, t.kind, storage=t.storage))
    if name == "reshape":
        def reshape(interp, shp):
            shp = list(shp) if isinstance(shp, (tuple, list)) else list(shp.lead)
            single = t.rank == 0 and all(isinstance(x, int) and x == 1 for x in shp)
            r = mk("reshape", [t] + shp, shp, t.dtype, t.kind, real=item_of(t) if single else None)
            return r
        return _m(reshape)
    if name == "size":
        return _m(lambda interp, dim=None: V.Shape(list(t.shape_l)) if dim is None else t.shape_l[dim])
    if name == "grad":
        raise Unsupported(".grad of an algebraic tensor")
    from .prims import REG as _REG
    for mod in ("torch.", "torch.linalg.", "torch.nn.functional."):
        if mod + name in _REG:
            fn = _REG[mod + name]
            return _m(lambda interp, *a, **k: fn(interp, t, *a, **k))
    return MISSING


def _const_fill(t: ATen):
    """(fill value as a Real term, number of elements as an Int term) when t is literally ones(..) / zeros(..) / full(.., c)"""
    e = t.term
    if not (z3.is_app(e) and e.num_args() >= 1):
        return None
    nm = e.decl().name().split("_")[0]
    if nm not in ("ones", "zeros", "full"):
        return None
    dims = list(e.children()) if nm != "full" else list(e.children())[:-1]
    if not dims or not all(z3.is_int(d) for d in dims):
        return None
    numel = dims[0]
    for d in dims[1:]:
        numel = numel * d
    fill = z3.RealVal(1) if nm == "ones" else z3.RealVal(0) if nm == "zeros" else e.children()[-1]
    if not z3.is_real(fill):
        return None
    return fill, numel


def transpose(t: ATen):
    if t.rank != 2:
        if t.rank < 2:
            return ATen(t.term, t.shape_l, t.dtype, t.kind, storage=t.storage, real=t.real)
        raise Unsupported("transpose of rank>2")
    if z3.is_app(t.term) and t.term.decl().name() == "transpose":
        inner = t.term.arg(0)
        return ATen(inner, [t.shape_l[1], t.shape_l[0]], t.dtype, t.kind, storage=t.storage)
    return ATen(U("transpose", ArrS, t.term), [t.shape_l[1], t.shape_l[0]], t.dtype, t.kind, storage=t.storage)


def p_diag(interp, t: ATen):
    if t.rank == 1:
        return mk("diagm", [t], [t.shape_l[0], t.shape_l[0]], t.dtype, t.kind)
    if t.rank == 2:
        return mk("diagv", [t], [t.shape_l[0]], t.dtype, t.kind)
    raise Unsupported("diag rank")


# ----------------------------------------------------------------------------- torch / numpy functions

from .prims import prim, REG  # noqa: E402  (registry shared with prims.py)


def _dtype_or(t, dtype):
    return dtype if dtype is not None else (t.dtype if isinstance(t, ATen) else U("default_dtype", DtypeS))


def _shape_arg(size):
    if isinstance(size, V.Shape):
        if size.tail is not None:
            raise Unsupported("opaque shape in the algebraic domain")
        return list(size.lead)
    if isinstance(size, (list, tuple)):
        return list(size)
    return [size]


@prim("torch.zeros", "numpy.zeros")
def t_zeros(interp, *size, dtype=None, device=None):
    sh = _shape_arg(size[0] if len(size) == 1 else list(size))
    return mk("zeros", sh, sh, _dtype_or(None, dtype) if dtype is not None else (U("default_dtype", DtypeS)),
              "numpy" if getattr(interp, "_np", False) else "torch")


@prim("numpy.zeros")
def n_zeros(interp, size, dtype=None):
    sh = _shape_arg(size)
    return mk("zeros", sh, sh, dtype if dtype is not None else V.U("float64", DtypeS), "numpy")


@prim("torch.ones")
def t_ones(interp, *size, dtype=None, device=None):
    sh = _shape_arg(size[0] if len(size) == 1 else list(size))
    return mk("ones", sh, sh, dtype if dtype is not None else U("default_dtype", DtypeS))


@prim("numpy.ones")
def n_ones(interp, size, dtype=None):
    sh = _shape_arg(size)
    return mk("ones", sh, sh, dtype if dtype is not None else V.U("float64", DtypeS), "numpy")


@prim("torch.full")
def t_full(interp, size=None, fill_value=None, dtype=None, device=None):
    sh = _shape_arg(size)
    return mk("full", sh + [as_real(fill_value)], sh, dtype if dtype is not None else U("default_dtype", DtypeS))


@prim("torch.eye")
def t_eye(interp, n, dtype=None, device=None):
    return mk("eye", [n], [n, n], dtype if dtype is not None else U("default_dtype", DtypeS))


@prim("numpy.eye")
def n_eye(interp, n, dtype=None):
    return mk("eye", [n], [n, n], dtype if dtype is not None else V.U("float64", DtypeS), "numpy")


@prim("numpy.array")
def n_array(interp, xs, dtype=None):
    c = V.concrete_iter(xs)
    if c is None:
        raise Unsupported("numpy.array of a symbolic sequence")
    return mk("np_array", [as_real(x) for x in c], [len(c)], dtype if dtype is not None else V.U("float64", DtypeS), "numpy")


@prim("torch.zeros_like")
def t_zeros_like(interp, t):
    return mk("zeros", list(t.shape_l), t.shape_l, t.dtype, t.kind)


@prim("torch.ones_like")
def t_ones_like(interp, t):
    return mk("ones", list(t.shape_l), t.shape_l, t.dtype, t.kind)


@prim("torch.diag")
def t_diag(interp, t):
    return p_diag(interp, t)


@prim("torch.max")
def t_max(interp, t):
    return mk("max_all", [t], [], t.dtype, t.kind, real=U("max_all_r", RealS, t.term))


@prim("torch.sum")
def t_sum(interp, t, dim=None):
    return interp.call(aten_getattr(interp, t, "sum"), [], {"dim": dim})


@prim("torch.mm")
def t_mm(interp, a, b):
    return aten_binop(interp, ast.MatMult(), a, b)


@prim("torch.dot")
def t_dot(interp, a, b):
    return aten_binop(interp, ast.MatMult(), a, b)


@prim("torch.norm")
def t_norm(interp, t):
    return mk("norm_all", [t], [], t.dtype, t.kind, real=U("norm_all_r", RealS, t.term))


@prim("torch.linalg.norm")
def t_linalg_norm(interp, t, ord=None, dim=None):
    if dim is None:
        return mk("norm_all", [t], [], t.dtype, t.kind, real=U("norm_all_r", RealS, t.term))
    if dim == 1 and t.rank == 2:
        return mk("rownorms", [t], [t.shape_l[0]], t.dtype, t.kind)
    raise Unsupported("linalg.norm dims")


@prim("torch.linalg.matrix_norm")
def t_matrix_norm(interp, t, ord="fro", dim=(-2, -1), keepdim=False):
    # only the two orders with a numeric interpretation: Frobenius (= norm of all entries) and spectral (largest singular value)
    if not isinstance(t, ATen) or t.rank != 2 or tuple(dim) != (-2, -1) or keepdim is not False:
        raise Unsupported("matrix_norm of a non-matrix / other dims / keepdim")
    if ord == "fro":
        return mk("norm_all", [t], [], t.dtype, t.kind, real=U("norm_all_r", RealS, t.term))
    if ord == 2 and not isinstance(ord, bool):
        return mk("matnorm2", [t], [], t.dtype, t.kind, real=U("matnorm2_r", RealS, t.term))
    raise Unsupported("matrix_norm order")


@prim("numpy.linalg.norm")
def n_linalg_norm(interp, t, ord=None):
    return mk("norm_all", [t], [], t.dtype, t.kind, real=U("norm_all_r", RealS, t.term))


def _may_fail(interp, label, exc):
    b = interp.cx.fresh_bool(label + ".fails")
    if interp.cx.branch(b):
        raise SymRaise(ExcValue(exc))


@prim("torch.linalg.svd")
def t_svd(interp, t, full_matrices=True):
    _may_fail(interp, "svd", "LinAlgError")
    m, n = t.shape_l
    k = U("min", IntS, lift(m), lift(n))
    fm = full_matrices
    return (mk("svd_U", [t, fm], [m, m if fm else k], t.dtype), mk("svd_S", [t], [k], t.dtype),
            mk("svd_Vh", [t, fm], [n if fm else k, n], t.dtype))


@prim("torch.linalg.svd.nofail")
def t_svd_nofail(interp, t, full_matrices=True):
    m, n = t.shape_l
    k = U("min", IntS, lift(m), lift(n))
    fm = full_matrices
    return (mk("svd_U", [t, fm], [m, m if fm else k], t.dtype), mk("svd_S", [t], [k], t.dtype),
            mk("svd_Vh", [t, fm], [n if fm else k, n], t.dtype))


@prim("torch.svd")
def t_svd_old(interp, t):
    m, n = t.shape_l
    k = U("min", IntS, lift(m), lift(n))
    return (mk("svd_U", [t, False], [m, k], t.dtype), mk("svd_S", [t], [k], t.dtype), mk("svd_V", [t], [n, k], t.dtype))


@prim("torch.linalg.pinv")
def t_pinv(interp, t):
    _may_fail(interp, "pinv", "RuntimeError")
    return mk("pinv", [t], [t.shape_l[1], t.shape_l[0]], t.dtype)


@prim("torch.linalg.eigh")
def t_eigh(interp, t, UPLO="L"):
    _may_fail(interp, "eigh", "LinAlgError")
    n = t.shape_l[0]
    return (mk("eigh_vals", [t, UPLO], [n], t.dtype), mk("eigh_vecs", [t, UPLO], [n, n], t.dtype))


@prim("torch.cdist")
def t_cdist(interp, a, b, p=2.0, compute_mode="use_mm_for_euclid_dist_if_necessary"):
    # the compute mode is part of the term: the matmul-based formula is a different (less accurate) function
    return mk("cdist", [a, b, as_real(p), compute_mode], [a.shape_l[0], b.shape_l[0]], a.dtype)


@prim("torch.topk")
def t_topk(interp, t, k=None, dim=-1, largest=True, sorted=True):
    rank = len(t.shape_l)
    if not isinstance(dim, int) or isinstance(dim, bool) or not (-rank <= dim < rank):
        raise Unsupported("topk along a non-literal or out-of-range dim")
    d = dim % rank
    # the bound is on the size of the dimension the selection runs along (torch: "selected index k out of range")
    interp.cx.oblige("prim.topk.k_in_range", z3.And(0 <= lift(k), lift(k) <= lift(t.shape_l[d])), kind="prim")
    sh = t.shape_l[:d] + [k] + t.shape_l[d + 1:]
    if d != rank - 1:  # selection along another dimension: a different function of t (dim is part of the term; interpreted numerically by numeval._topk_dim when sorted)
        sfx = "" if sorted is True else "_unsorted"
        vals = mk("topk_vals_dim" + sfx, [t, k, largest, d], sh, t.dtype)
        idx = mk("topk_idx_dim" + sfx, [t, k, largest, d], sh, U("int64", DtypeS))
        return V.NamedPair((vals, idx), ("values", "indices"))
    if sorted is True:
        vals = mk("topk_vals", [t, k, largest], sh, t.dtype)
        idx = mk("topk_idx", [t, k, largest], sh, U("int64", DtypeS))
    else:  # the order of the returned entries is unspecified: a different function
        vals = mk("topk_vals_unsorted", [t, k, largest], sh, t.dtype)
        idx = mk("topk_idx_unsorted", [t, k, largest], sh, U("int64", DtypeS))
    return V.NamedPair((vals, idx), ("values", "indices"))


@prim("torch.sort")
def t_sort(interp, t, dim=-1, descending=False):
    return V.NamedPair((mk("sort_vals", [t, dim, descending], t.shape_l, t.dtype),
                        mk("sort_idx", [t, dim, descending], t.shape_l, U("int64", DtypeS))), ("values", "indices"))


@prim("torch.argsort")
def t_argsort(interp, t, dim=-1, descending=False):
    return mk("sort_idx", [t, dim, descending], t.shape_l, U("int64", DtypeS))


@prim("torch.narrow")
def t_narrow(interp, t, dim=None, start=None, length=None):
    if not isinstance(t, ATen):
        raise Unsupported("narrow of a non-tensor")
    n = lift(t.shape_l[dim])
    interp.cx.oblige("prim.narrow.in_range", z3.And(0 <= lift(start), 0 <= lift(length), lift(start) + lift(length) <= n), kind="prim")
    sh = list(t.shape_l)
    sh[dim] = length
    return mk("narrow", [t, dim, start, length], sh, t.dtype, storage=t.storage)


@prim("torch.argmin")
def t_argmin(interp, t):
    r = mk("argmin", [t], [], U("int64", DtypeS))
    r.intval = U("argmin_i", IntS, t.term)
    if t.rank == 1:
        n = lift(t.shape_l[0])
        interp.cx.assume(z3.Implies(n >= 1, z3.And(0 <= r.intval, r.intval < n)), tag="argmin returns a valid index [T]")
    return r


@prim("torch.nn.functional.one_hot")
def t_one_hot(interp, idx, num_classes=-1):
    return mk("one_hot", [idx, num_classes], idx.shape_l + [num_classes], U("int64", DtypeS))


@prim("torch.nn.functional.softmax", "torch.softmax")
def t_softmax(interp, t, dim=None):
    return mk("softmax", [t, dim], t.shape_l, t.dtype)


@prim("torch.nn.functional.normalize")
def t_normalize(interp, t, p=2.0, dim=1, eps=1e-12):
    return mk("normalize", [t, as_real(p), dim, as_real(eps)], t.shape_l, t.dtype)


@prim("torch.clamp")
def t_clamp(interp, t, min=None, max=None):
    if t.rank == 0:
        x = item_of(t)
        if min is not None:
            x = z3.If(x < as_real(min), as_real(min), x)
        if max is not None:
            x = z3.If(x > as_real(max), as_real(max), x)
        return scalar_aten(x, t.dtype, t.kind)
    return mk("clamp", [t, min, max], t.shape_l, t.dtype)


@prim("torch.abs")
def t_abs(interp, t):
    return interp.call(aten_getattr(interp, t, "abs"), [])


@prim("torch.sqrt")
def t_sqrt(interp, t):
    return interp.call(aten_getattr(interp, t, "sqrt"), [])


@prim("torch.randn")
def t_randn(interp, *size, dtype=None, device=None):
    sh = _shape_arg(size[0] if len(size) == 1 else list(size))
    d = interp.cx.ghost.get("rng", 0)
    interp.cx.ghost["rng"] = d + 1
    return mk("randn", sh + [d], sh, dtype if dtype is not None else U("default_dtype", DtypeS))


@prim("torch.rand")
def t_rand(interp, *size, dtype=None, device=None):
    sh = _shape_arg(size[0] if len(size) == 1 else list(size))
    d = interp.cx.ghost.get("rng", 0)
    interp.cx.ghost["rng"] = d + 1
    return mk("rand", sh + [d], sh, dtype if dtype is not None else U("default_dtype", DtypeS))


@prim("torch.randperm")
def t_randperm(interp, n):
    d = interp.cx.ghost.get("rng", 0)
    interp.cx.ghost["rng"] = d + 1
    r = mk("randperm", [n, d], [n], U("int64", DtypeS))
    # [T] randperm(n) is a permutation of 0..n-1: every entry is a valid index
    k = z3.Int("k!q")
    ent = U("item_i", IntS, U("at", ArrS, r.term, k))
    interp.cx.assume(V.forall([k], z3.Implies(z3.And(0 <= k, k < lift(n)), z3.And(0 <= ent, ent < lift(n))), patterns=[ent]),
                     tag="randperm(n) is a permutation of 0..n-1 [T]")
    return r


@prim("torch.nan_to_num")
def t_nan_to_num(interp, t, nan=0.0):
    return mk("nan_to_num", [t, as_real(nan)], t.shape_l, t.dtype)


@prim("torch.stack")
def t_stack(interp, xs, dim=0):
    c = V.concrete_iter(xs)
    if c is not None:
        if c and isinstance(c[0], ATen):
            return mk("stack", list(c), [len(c)] + c[0].shape_l, c[0].dtype)
        from .lten import l_stack
        return l_stack(interp, xs, dim)
    from . import prims
    s = prims.as_symseq(interp, xs)
    I0 = z3.Int("I0!canon")
    e0 = s.get(I0)
    if isinstance(e0, ATen):
        body = e0.term if e0.real is None else U("scalar", ArrS, e0.real)
        term = U("stack_lam", ArrS, lift(s.length), body)
        return ATen(term, [s.length] + e0.shape_l, e0.dtype)
    from .lten import l_stack
    return l_stack(interp, xs, dim)


@prim("torch.device")
def t_device(interp, name):
    return "cpu"


@prim("torch.finfo")
def t_finfo(interp, dt=None):
    class _F:
        def sym_getattr(self, interp, name):
            if name == "eps":
                return U("finfo_eps", RealS)
            return MISSING
    return _F()


@prim("torch.as_tensor")
def t_as_tensor(interp, x, device=None, dtype=None):
    t = ATen(x.term, x.shape_l, x.dtype, "torch", real=x.real)
    if dtype is not None and not dtype.eq(x.dtype):
        t = ATen(U("cast", ArrS, x.term, dtype), x.shape_l, dtype, "torch")
    return t


@prim("torch.from_numpy")
def t_from_numpy(interp, x):
    if not isinstance(x, ATen) or x.kind != "numpy":
        interp.cx.oblige("kinds.from_numpy_gets_ndarray", False, kind="kinds")
        raise SymRaise(ExcValue("TypeError"))
    return ATen(x.term, x.shape_l, x.dtype, "torch", storage=x.storage, real=x.real)


@prim("numpy.apply_along_axis")
def n_apply_along_axis(interp, fn, axis=None, arr=None, *extra, **kwextra):
    if extra or kwextra:
        inner = fn
        fn = V.Partial(inner, (), {})  # func1d(slice, *extra, **kwextra)
        fn = V.SymMethod(lambda interp2, row, inner=inner: interp.call(inner, [row] + list(extra), dict(kwextra)))
    """Row-wise application over the last axis: the function is run once on a generic row (contract: result
    row i = fn(row i)); a 1-d input is one row."""
    if axis != -1:
        raise Unsupported("apply_along_axis axis")
    if arr.rank == 1:
        return _opt_unwrap(interp.call(fn, [arr]))
    if arr.rank == 2:
        I0 = z3.Int("I0!canon")
        row = mk("row", [arr, I0], [arr.shape_l[1]], arr.dtype, arr.kind)
        out = _opt_unwrap(interp.call(fn, [row]))
        # the canonical index I0 stays free in the body term: two such terms are equal iff their bodies are
        return ATen(U("rows_lam", ArrS, lift(arr.shape_l[0]), out.term), [arr.shape_l[0]] + out.shape_l, out.dtype, out.kind)
    raise Unsupported("apply_along_axis rank")


@prim("qpsolvers.solve_qp")
def q_solve_qp(interp, P, q, G=None, h=None, A=None, b=None, lb=None, ub=None, solver=None, **kw):
    """[T] contract: returns None or x = QPGen(P,q,G,h) — the minimiser of 1/2 x'Px + q'x s.t. Gx <= h."""
    for a in (P, q, G, h):
        if not isinstance(a, ATen) or a.kind != "numpy":
            interp.cx.oblige("kinds.solve_qp_gets_ndarrays", False, kind="kinds")
    # [T] the solver may also REJECT the problem by raising (quadprog: ProblemError when P is not positive definite)
    if interp.cx.branch(interp.cx.fresh_bool("solve_qp.fails_with_ProblemError")):
        raise SymRaise(ExcValue("ProblemError"))
    fails = interp.cx.fresh_bool("solve_qp.returns_none")
    val = mk("QPGen", [P, q, G, h], [P.shape_l[0]], P.dtype, "numpy")
    return V.Opt(fails, val)


# a None-able value used as a tensor after the `is None` test
def _opt_unwrap(x):
    return x.value if isinstance(x, V.Opt) else x
