"""cvxpy primitives [T]: expressions are algebraic terms of kind 'cvxpy'; Problem.solve() either raises (caught by the
code under contract) or makes `.value` of the problem's variables the solution term ConicMin(problem, variable)."""
from __future__ import annotations

import z3

from . import values as V
from .aten import ATen, as_real, mk, scalar_aten
from .core import ExcValue, SymRaise
from .loader import Unsupported
from .prims import F64, prim
from .values import MISSING, ArrS, DtypeS, U, lift


class CvxLeaf(ATen):
    """cp.Variable / cp.Parameter: an expression leaf with a mutable `.value`."""

    def __init__(self, cx, kind_name, shape, value=None):
        k = cx.ghost.get("cvx_leaf_n", 0)
        cx.ghost["cvx_leaf_n"] = k + 1
        term = U(f"{kind_name}_{k}", ArrS)  # identified by creation order within one forward call
        super().__init__(term, list(shape), F64, "cvxpy")
        self.leaf_kind = kind_name
        self._value = value  # None | ATen | V.Opt
        self.cx = cx

    def sym_getattr(self, interp, name):
        if name == "value":
            interp.cx.event("leaf_value_read", leaf=self)
            return self._value
        return super().sym_getattr(interp, name)

    def sym_setattr(self, interp, name, v):
        if name != "value":
            raise Unsupported(f"store to cvxpy leaf attribute {name}")
        interp.cx.event("leaf_value_write", leaf=self, value=v)
        self._value = v


def _shape(shape):
    if isinstance(shape, tuple):
        return list(shape)
    if isinstance(shape, list):
        return shape
    return [shape]


@prim("cvxpy.Variable")
def cp_variable(interp, shape=(), nonneg=False, **kw):
    v = CvxLeaf(interp.cx, "cpvar", _shape(shape))
    v.nonneg = nonneg
    return v


@prim("cvxpy.Parameter")
def cp_parameter(interp, shape=(), value=None, **kw):
    return CvxLeaf(interp.cx, "cpparam", _shape(shape), value=value)


def _cvx(name, args, shape):
    return mk(name, args, shape, F64, "cvxpy")


@prim("cvxpy.log")
def cp_log(interp, x):
    return _cvx("cp_log", [x], x.shape_l)


@prim("cvxpy.sum")
def cp_sum(interp, x):
    return _cvx("cp_sum", [x], [])


@prim("cvxpy.norm")
def cp_norm(interp, x, p=2):
    return _cvx("cp_norm", [x, p], [])


@prim("cvxpy.Minimize")
def cp_minimize(interp, x):
    return _cvx("cp_minimize", [x], [])


class CvxProblem:
    def __init__(self, cx, objective, constraints):
        self.objective = objective
        conc = V.concrete_iter(constraints)
        if conc is None:
            # a symbolic number of constraints built by a loop (one per task): the problem is identified by its objective, the
            # number of constraints and the GENERIC constraint (canonical index)
            from . import prims as P

            class _I:
                pass
            fi = _I()
            fi.cx = cx
            seq = P.as_symseq(fi, constraints)
            c0 = seq.get(z3.Int("I0!canon"))
            self.constraints = seq
            self.term = U("cp_problem_sym", ArrS, objective.term, lift(seq.length), c0.term if isinstance(c0, ATen) else lift(c0))
            self.cx = cx
            return
        self.constraints = list(conc)
        terms = [objective.term] + [c.term if isinstance(c, ATen) else lift(c) for c in self.constraints]
        # the problem is identified by its objective and the ordered list of its constraints
        self.term = U("cp_problem_" + str(len(terms)), ArrS, *terms)
        self.cx = cx

    def leaves(self):
        return [x for x in getattr(self, "_leaves", [])]

    def sym_getattr(self, interp, name):
        if name == "solve":
            def solve(interp, *a, **kw):
                cx = interp.cx
                solver = a[0] if a else kw.get("solver")
                fails = cx.fresh_bool("cvx_solve.fails")
                cx.event("cvx_solve", problem=self, solver=solver, pc_len=len(cx.pc))
                if cx.branch(fails):
                    raise SymRaise(ExcValue("SolverError"))
                # every variable reachable from the problem gets its solution (or None when the solver gives up)
                for leaf in _leaves_of(self):
                    if leaf.leaf_kind == "cpvar":
                        none = cx.fresh_bool("cvx_value.is_none")
                        sol = ATen(U("ConicMin", ArrS, self.term, leaf.term, lift(str(solver))), leaf.shape_l, F64, "numpy")
                        leaf._value = V.Opt(none, sol) if interp.cx.ghost.get("cvx_value_may_be_none", False) else sol
                return None
            return V.SymMethod(solve)
        return MISSING


_LEAVES = {}


def _leaves_of(problem: CvxProblem):
    return _LEAVES.get(id(problem), [])


@prim("cvxpy.Problem")
def cp_problem(interp, objective=None, constraints=None):
    p = CvxProblem(interp.cx, objective, constraints or [])
    # leaves: every CvxLeaf created so far on this path (a superset of the problem's own; only variables get values)
    _LEAVES[id(p)] = [e[1]["leaf"] for e in interp.cx.events if e[0] == "cvx_leaf"]
    return p


_orig_var, _orig_par = cp_variable, cp_parameter


@prim("cvxpy.Variable")
def cp_variable2(interp, shape=(), nonneg=False, **kw):
    v = _orig_var(interp, shape=shape, nonneg=nonneg, **kw)
    interp.cx.event("cvx_leaf", leaf=v)
    return v


@prim("cvxpy.Parameter")
def cp_parameter2(interp, shape=(), value=None, **kw):
    v = _orig_par(interp, shape=shape, value=value, **kw)
    interp.cx.event("cvx_leaf", leaf=v)
    return v
