"""[V] Validation of the layout-domain primitive contracts against the REAL torch operations, on every run.

For each primitive of tjv/pyvc/lten.py used by the autojac contracts (reshape/view regroupings, cat, diag, slicing,
indexing, stack, vstack, squeeze/unsqueeze, ones_like/zeros_like, +, clone / view / in-place aliasing, math.ceil) a
set of concrete cases is generated; the real result is computed by /venv/bin/python (tjv/rt/primval.py), the symbolic
contract is evaluated on the same data (a model of the path condition evaluates every element term), and the two are
compared element by element.  A disagreement is a broken ASSUMPTION: reported as a checker error (exit 3), never as a
property violation.  The contracts remain trusted — this only says how many samples they survived."""
from __future__ import annotations

import itertools
import json
import os
import random
import subprocess

import z3

from . import prims as P
from . import lten as _lten
from . import values as V
from .core import Ctx
from .lten import LTen, RowBlocks, shape_numel_s
from .values import ShapeS, lift

VENV_PY = os.environ.get("TJV_VENV_PY", "/venv/bin/python")


class _I:
    def __init__(self, cx):
        self.cx = cx
        self.repo = None


def _prod(xs):
    r = 1
    for x in xs:
        r *= x
    return r


def _rand(rng, shape):
    n = _prod(shape)
    flat = [round(rng.uniform(-9, 9), 3) for _ in range(n)]

    def build(sh, off):
        if not sh:
            return flat[off]
        step = _prod(sh[1:])
        return [build(sh[1:], off + i * step) for i in range(sh[0])]
    return build(list(shape), 0), flat


def _lten_lead_tail(cx, flat, lead, tail_shape, name):
    """tensor of shape lead + tail_shape presented as (lead dims, opaque tail with the right numel)"""
    k = _prod(tail_shape)
    tail = z3.Const(f"{name}.tail", ShapeS)
    cx.assume(shape_numel_s(tail) == k)
    table = z3.Function(f"{name}.data", z3.IntSort(), z3.RealSort())
    for i, v in enumerate(flat):
        cx.assume(table(i) == z3.RealVal(repr(v)))
    strides = []
    acc = k
    for d in reversed(lead):
        strides.insert(0, acc)
        acc *= d

    def elem(ix):
        pos = lift(ix[-1]) if k != 1 or True else z3.IntVal(0)
        for j, d in enumerate(lead):
            pos = pos + lift(ix[j]) * strides[j]
        return table(pos)
    return LTen(V.Shape(list(lead), tail), elem, fresh=False), tail


def _lten_plain(cx, flat, shape, name):
    table = z3.Function(f"{name}.data", z3.IntSort(), z3.RealSort())
    for i, v in enumerate(flat):
        cx.assume(table(i) == z3.RealVal(repr(v)))
    strides, acc = [], 1
    for d in reversed(shape):
        strides.insert(0, acc)
        acc *= d

    def elem(ix):
        pos = z3.IntVal(0)
        for j in range(len(shape)):
            pos = pos + lift(ix[j]) * strides[j]
        return table(pos)
    return LTen(V.Shape(list(shape)), elem, fresh=False)


def _eval_all(cx, t: LTen, real_shape):
    """evaluate the symbolic tensor on every index; returns flat list in the row-major order of real_shape, where the
    symbolic addressing is (lead indices..., flat index in the tail)"""
    s = z3.Solver()
    s.set("timeout", 20000)
    for f in cx.pc:
        s.add(f)
    r = s.check()
    if r == z3.unknown:
        return "inconclusive"   # solver budget (machine under load): the sample says nothing, it is skipped - never a failure
    if r != z3.sat:
        return None
    m = s.model()
    lead = [m.eval(lift(d), model_completion=True).as_long() for d in t.shape.lead]
    tailn = m.eval(lift(t.shape.tail_numel()), model_completion=True).as_long() if t.shape.tail is not None else None
    if _prod(lead) * (tailn if tailn is not None else 1) != _prod(real_shape):
        return "shape-mismatch"
    out = []
    ranges = [range(d) for d in lead] + ([range(tailn)] if tailn is not None else [])
    for ix in itertools.product(*ranges):
        v = m.eval(t.elem([z3.IntVal(i) for i in ix]), model_completion=True)
        out.append(float(v.as_fraction()) if z3.is_rational_value(v) else float(str(v)))
    return out


def cases(rng, n_each):
    cs = []
    for _ in range(n_each):
        m, a, b = rng.randint(1, 3), rng.randint(1, 3), rng.randint(1, 2)
        cs.append(("flatten", {"shape": [a, b]}))
        cs.append(("matrixify", {"m": m, "tail": [a, b]}))
        cs.append(("unmatrixify", {"m": m, "tail": [a, b]}))
        cs.append(("vector_to_shape", {"tail": [a, b]}))
        cs.append(("cat0", {"lens": [rng.randint(0, 3) for _ in range(rng.randint(1, 3))]}))
        cs.append(("cat1", {"m": m, "lens": [rng.randint(0, 3) for _ in range(rng.randint(1, 3))]}))
        cs.append(("diag", {"n": rng.randint(1, 4)}))
        n = rng.randint(1, 4)
        lo = rng.randint(0, n)
        cs.append(("rowslice", {"m": n, "tail": [a], "lo": lo, "hi": rng.randint(lo, n)}))
        cs.append(("colslice", {"m": m, "n": n, "lo": lo, "hi": rng.randint(lo, n)}))
        cs.append(("index0", {"m": m, "tail": [a, b], "i": rng.randrange(m)}))
        cs.append(("stack0", {"k": rng.randint(1, 3), "tail": [a, b]}))
        cs.append(("vstack", {"rows": [rng.randint(1, 3) for _ in range(rng.randint(1, 3))], "n": a}))
        cs.append(("squeeze0", {"tail": [a, b]}))
        cs.append(("unsqueeze0", {"n": n}))
        cs.append(("ones_like", {"tail": [a, b]}))
        cs.append(("add", {"tail": [a, b]}))
    cs += [("clone_is_fresh", {}), ("view_shares_storage", {}), ("inplace_add_keeps_storage", {})]
    for mm, kk in [(1, 1), (5, 2), (6, 2), (7, 10), (12, 5), (3, 3)]:
        cs.append(("ceil_div", {"m": mm, "k": kk}))
    return cs


def run(seed=0, n_each=3):
    rng = random.Random(seed)
    todo = cases(rng, n_each)
    real_in, sym = [], []
    for op, a in todo:
        cx = Ctx()
        it = _I(cx)
        try:
            if op == "flatten":
                x, flat = _rand(rng, a["shape"])
                t, _ = _lten_lead_tail(cx, flat, [], a["shape"], "x")
                r = _lten.l_reshape(it, t, [-1])
                real_in.append({"op": op, "args": {"x": x}})
            elif op == "matrixify":
                x, flat = _rand(rng, [a["m"]] + a["tail"])
                t, _ = _lten_lead_tail(cx, flat, [a["m"]], a["tail"], "x")
                r = _lten.l_reshape(it, t, [a["m"], -1], "view")
                real_in.append({"op": op, "args": {"x": x}})
            elif op == "unmatrixify":
                k = _prod(a["tail"])
                x, flat = _rand(rng, [a["m"], k])
                t = _lten_plain(cx, flat, [a["m"], k], "x")
                tail = z3.Const("tgt.tail", ShapeS)
                cx.assume(shape_numel_s(tail) == k)
                r = _lten.l_reshape(it, t, V.Shape([a["m"]], tail), "view")
                real_in.append({"op": op, "args": {"m": x, "shape": a["tail"]}})
            elif op == "vector_to_shape":
                k = _prod(a["tail"])
                x, flat = _rand(rng, [k])
                t = _lten_plain(cx, flat, [k], "x")
                tail = z3.Const("tgt.tail", ShapeS)
                cx.assume(shape_numel_s(tail) == k)
                r = _lten.l_reshape(it, t, V.Shape([], tail), "view")
                real_in.append({"op": op, "args": {"v": x, "shape": a["tail"]}})
            elif op in ("cat0", "cat1"):
                xs, ts = [], []
                for j, n in enumerate(a["lens"]):
                    shp = [n] if op == "cat0" else [a["m"], n]
                    x, flat = _rand(rng, shp)
                    xs.append(x)
                    ts.append(_lten_plain(cx, flat, shp, f"x{j}"))
                r = _lten.l_cat(it, ts, dim=0 if op == "cat0" else 1)
                real_in.append({"op": op, "args": {"xs": xs}})
            elif op == "diag":
                x, flat = _rand(rng, [a["n"]])
                t = _lten_plain(cx, flat, [a["n"]], "x")
                r = it_call_method(it, t, "diag")
                real_in.append({"op": op, "args": {"v": x}})
            elif op == "rowslice":
                x, flat = _rand(rng, [a["m"]] + a["tail"])
                t, _ = _lten_lead_tail(cx, flat, [a["m"]], a["tail"], "x")
                r = _lten.lten_getitem(it, t, V.Slice(a["lo"], a["hi"], None))
                real_in.append({"op": op, "args": {"x": x, "lo": a["lo"], "hi": a["hi"]}})
            elif op == "colslice":
                x, flat = _rand(rng, [a["m"], a["n"]])
                t = _lten_plain(cx, flat, [a["m"], a["n"]], "x")
                r = _lten.lten_getitem(it, t, (V.Slice(None, None, None), V.Slice(a["lo"], a["hi"], None)))
                real_in.append({"op": op, "args": {"x": x, "lo": a["lo"], "hi": a["hi"]}})
            elif op == "index0":
                x, flat = _rand(rng, [a["m"]] + a["tail"])
                t, _ = _lten_lead_tail(cx, flat, [a["m"]], a["tail"], "x")
                r = _lten.lten_getitem(it, t, a["i"])
                real_in.append({"op": op, "args": {"x": x, "i": a["i"]}})
            elif op == "stack0":
                xs, ts = [], []
                tail = None
                for j in range(a["k"]):
                    x, flat = _rand(rng, a["tail"])
                    xs.append(x)
                    t, tl = _lten_lead_tail(cx, flat, [], a["tail"], f"x{j}")
                    if tail is None:
                        tail = tl
                    else:
                        t = LTen(V.Shape([], tail), t.elem, fresh=False)
                    ts.append(t)
                r = _lten.l_stack(it, ts, 0)
                real_in.append({"op": op, "args": {"xs": xs}})
            elif op == "vstack":
                xs = []
                rb = RowBlocks(z3.IntVal(0), None, lambda r_, c_: z3.RealVal(0))
                for j, k in enumerate(a["rows"]):
                    x, flat = _rand(rng, [k, a["n"]])
                    xs.append(x)
                    rb.sym_getattr(it, "append").fn(it, _lten_plain(cx, flat, [k, a["n"]], f"x{j}"))
                r = _lten.l_vstack(it, rb)
                real_in.append({"op": op, "args": {"xs": xs}})
            elif op == "squeeze0":
                x, flat = _rand(rng, [1] + a["tail"])
                t, _ = _lten_lead_tail(cx, flat, [1], a["tail"], "x")
                r = it_call_method(it, t, "squeeze", 0)
                real_in.append({"op": op, "args": {"x": x}})
            elif op == "unsqueeze0":
                x, flat = _rand(rng, [a["n"]])
                t = _lten_plain(cx, flat, [a["n"]], "x")
                r = it_call_method(it, t, "unsqueeze", 0)
                real_in.append({"op": op, "args": {"x": x}})
            elif op == "ones_like":
                x, flat = _rand(rng, a["tail"])
                t, _ = _lten_lead_tail(cx, flat, [], a["tail"], "x")
                r = P.REG["torch.ones_like"](it, t)
                real_in.append({"op": op, "args": {"x": x}})
            elif op == "add":
                x, fx = _rand(rng, a["tail"])
                y, fy = _rand(rng, a["tail"])
                tx, tail = _lten_lead_tail(cx, fx, [], a["tail"], "x")
                ty, _ = _lten_lead_tail(cx, fy, [], a["tail"], "y")
                ty = LTen(V.Shape([], tail), ty.elem, fresh=False)
                import ast as _ast
                r = _lten.lten_binop(it, _ast.Add(), tx, ty)
                real_in.append({"op": op, "args": {"x": x, "y": y}})
            elif op in ("clone_is_fresh", "view_shares_storage", "inplace_add_keeps_storage"):
                x, flat = _rand(rng, [2, 3])
                y, _ = _rand(rng, [2, 3])
                t = _lten_plain(cx, flat, [2, 3], "x")
                if op == "clone_is_fresh":
                    c = it_call_method(it, t, "clone")
                    r = 1.0 if (c.owner and c.storage is not t.storage) else 0.0
                elif op == "view_shares_storage":
                    v = _lten.lten_getitem(it, _lten.l_reshape(it, LTen(V.Shape([6]), lambda ix: t.elem([0, ix[0]]), storage=t.storage, fresh=False), [-1]), V.Slice(1, 3, None))
                    r = 1.0 if v.storage is t.storage and not v.owner else 0.0
                else:
                    import ast as _ast
                    s2 = _lten.lten_binop(it, _ast.Add(), t, _lten_plain(cx, [0.0] * 6, [2, 3], "y"), inplace=True)
                    r = 1.0 if s2.storage is t.storage else 0.0
                real_in.append({"op": op, "args": {"x": x, "y": y}})
            elif op == "ceil_div":
                q = P.REG["math.ceil"](it, V.Quot(z3.IntVal(a["m"]), z3.IntVal(a["k"])))
                s = z3.Solver()
                for f in cx.pc:
                    s.add(f)
                s.check()
                r = float(s.model().eval(q, model_completion=True).as_long())
                real_in.append({"op": op, "args": a})
            sym.append((op, cx, r))
        except Exception as e:  # noqa: BLE001
            sym.append((op, cx, e))
            real_in.append({"op": "noop", "args": {}})
    env = dict(os.environ)
    p = subprocess.run([VENV_PY, os.path.join(os.path.dirname(os.path.dirname(__file__)), "rt", "primval.py")],
                       input=json.dumps(real_in), capture_output=True, text=True, env=env)
    if p.returncode != 0:
        return {"samples": 0, "failures": [f"primval failed: {p.stderr[-300:]}"], "ops": []}
    real = json.loads(p.stdout)
    failures, ok, skipped = [], 0, 0
    for (op, cx, r), rr, ri in zip(sym, real, real_in):
        if isinstance(r, Exception):
            failures.append(f"{op}: symbolic side raised {type(r).__name__}: {r}")
            continue
        if "error" in rr:
            failures.append(f"{op}: real side raised {rr['error']}")
            continue
        if isinstance(r, float):
            if abs(r - rr["flat"][0]) > 1e-12:
                failures.append(f"{op}: {r} != {rr['flat'][0]} on {ri['args']}")
            else:
                ok += 1
            continue
        got = _eval_all(cx, r, rr["shape"])
        if got == "inconclusive":
            skipped += 1
            continue
        if got is None or got == "shape-mismatch" or len(got) != len(rr["flat"]) or any(abs(x - y) > 1e-9 for x, y in zip(got, rr["flat"])):
            failures.append(f"{op}: contract and torch disagree on {json.dumps(ri['args'])[:200]}: {str(got)[:120]} vs {str(rr['flat'])[:120]}")
        else:
            ok += 1
    return {"samples": ok, "failures": failures, "ops": sorted({op for op, _, _ in sym}), "skipped_inconclusive": skipped}


def it_call_method(it, t, name, *args):
    from .lten import lten_getattr
    mth = lten_getattr(it, t, name)
    return mth.fn(it, *args)
