"""[V] Validation of the ALGEBRAIC primitive contracts (tjv/pyvc/aten.py, the aggregator domain) against real torch.

For every table entry the SAME python expression is (a) evaluated symbolically — the real primitive contracts build an Arr
term from concrete-shaped symbolic tensors — and that term is evaluated under the standard interpretation of its operators
(tjv/pyvc/numeval.py), and (b) evaluated by real torch under /venv/bin/python (tjv/rt/opval.py) on the same data.  The two
results must agree (shape and values, relative 1e-9).  This checks at once what a contract says an operation returns (shape,
operand order, argument plumbing, which operator it is) and the numeric meaning given to that operator by the replay engine.
Factorisations are compared through sign-/basis-invariant expressions.  A disagreement is a broken ASSUMPTION (checker error),
never a property violation; agreement is evidence by sampling, not proof."""
from __future__ import annotations

import ast
import json
import os
import random
import subprocess

import numpy as np
import z3

from . import numeval
from . import prims as P
from . import values as V
from .aten import ATen
from .core import Ctx
from .interp import Frame, Interp
from .loader import External, Unsupported
from .values import ArrS

VENV_PY = os.environ.get("TJV_VENV_PY", "/venv/bin/python")

# (name, expression over A (m x n), B (n x p), G (m x m, symmetric PSD), v (n), w (m), u (m), s (scalar literal))
TABLE = [
    ("matmul", "A @ B"), ("vecmat", "w @ A"), ("matvec", "A @ v"), ("dot", "w @ u"), ("mm", "torch.mm(A, B)"),
    ("transpose", "A.T @ w"), ("t()", "A.t() @ w"), ("add", "A + A"), ("sub", "w - u"), ("mul", "w * u"), ("div", "w / (u * u + 1.0)"),
    ("scalar_mul", "2.5 * A"), ("scalar_rmul", "A * 2.5"), ("scalar_add", "A + 0.75"), ("scalar_rsub", "1.5 - w"), ("scalar_sub", "w - 1.5"),
    ("scalar_div", "A / 4.0"), ("scalar_rdiv", "2.0 / (w * w + 1.0)"), ("pow2", "w ** 2"), ("neg", "-A"),
    ("sum_all", "A.sum()"), ("sum_dim0", "A.sum(dim=0)"), ("sum_dim1", "A.sum(dim=1)"), ("torch.sum", "torch.sum(A, dim=0)"),
    ("mean_dim0", "A.mean(dim=0)"), ("mean_all", "A.mean()"), ("norm_all", "A.norm()"), ("matrix_norm_2", "torch.linalg.matrix_norm(A, ord=2)"), ("matrix_norm_fro", "torch.linalg.matrix_norm(A)"), ("norm_rows", "A.norm(dim=1)"),
    ("linalg.norm", "torch.linalg.norm(w)"), ("linalg.norm_rows", "torch.linalg.norm(A, dim=1)"), ("torch.norm", "torch.norm(A)"),
    ("max_all", "A.max()"), ("min_all", "A.min()"), ("torch.max", "torch.max(w)"), ("abs", "A.abs()"), ("torch.abs", "torch.abs(w)"),
    ("sqrt", "(w * w).sqrt()"), ("exp", "w.exp()"), ("sign", "A.sign()"), ("relu", "A.relu()"), ("tanh", "w.tanh()"),
    ("clamp_min", "torch.clamp(A, min=0.0)"), ("clamp_both", "A.clamp(min=-0.5, max=0.5)"),
    ("diag_embed", "torch.diag(w) @ A"), ("diag_extract", "torch.diag(G)"), ("diag_method", "w.diag() @ A"),
    ("row", "A[1]"), ("row_last", "A[-1]"), ("entry", "A[1, 0]"), ("col", "A[:, 1]"), ("rowslice", "A[1:]"), ("rowslice2", "A[:2]"),
    ("colslice", "A[:, 1:]"), ("unsqueeze1", "w.unsqueeze(1) * A"), ("unsqueeze0", "v.unsqueeze(0) + A"),
    ("stack_rows", "torch.stack([A[0], A[1]])"), ("stack_dots", "torch.stack([torch.dot(r, v) for r in A])"),
    ("zeros_like", "torch.zeros_like(A) + A"), ("ones_like", "torch.ones_like(w) @ A"), ("zeros", "torch.zeros(3) + 1.0"),
    ("ones", "torch.ones(A.shape[0], dtype=A.dtype) @ A"), ("eye", "torch.eye(A.shape[0], dtype=A.dtype) @ A"),
    ("full", "torch.full(size=[A.shape[0]], fill_value=0.25, dtype=A.dtype) @ A"),
    ("svd_S", "torch.linalg.svd(A, full_matrices=False)[1]"),
    ("svd_recon", "(lambda U, S, Vh: U @ torch.diag(S) @ Vh)(*torch.linalg.svd(A, full_matrices=False))"),
    ("svd_gram", "(lambda U, S, Vh: U @ torch.diag(S ** 2) @ U.T)(*torch.linalg.svd(A, full_matrices=False))"),
    ("eigh_vals", "torch.linalg.eigh(G)[0]"), ("eigh_recon", "(lambda L, Q: Q @ torch.diag(L) @ Q.T)(*torch.linalg.eigh(G))"),
    ("pinv", "torch.linalg.pinv(A)"), ("pinv_apply", "torch.linalg.pinv(A) @ w"),
    ("cdist", "torch.cdist(A, A, compute_mode='donot_use_mm_for_euclid_dist')"),
    ("topk_vals", "torch.topk(w, k=2, largest=False)[0]"), ("topk_idx", "torch.topk(w, k=2, largest=False)[1]"),
    ("topk_rows", "torch.topk(A, k=2, largest=False)[0]"), ("topk_dim0", "torch.topk(A, k=2, dim=0, largest=False)[0]"), ("topk_dim0_largest", "torch.topk(A, k=1, dim=0).values"), ("topk_values_attr", "torch.topk(w, k=2).values"),
    ("sort_vals0", "torch.sort(A, dim=0)[0]"), ("sort_idx", "torch.sort(w)[1]"), ("argsort_desc", "torch.argsort(w, descending=True)"),
    ("narrow", "torch.narrow(A, dim=0, start=1, length=2)"), ("argmin", "torch.argmin(w)"), ("take", "A[torch.argsort(w)]"),
    ("takecols", "A[:, torch.argsort(v)]"), ("one_hot", "F.one_hot(torch.topk(w, k=2)[1], num_classes=A.shape[0]).sum(dim=0)"),
    ("softmax", "F.softmax(w, dim=0)"), ("softmax_dim_1", "torch.softmax(w, dim=-1)"), ("normalize", "F.normalize(A, dim=1)"),
    ("nan_to_num", "torch.nan_to_num(A / A.abs().sum(dim=1).unsqueeze(1), 0.0)"), ("any_dim", "(A > 0).any(dim=0)"),
    ("cmp_lt", "A < 0.25"), ("cmp_ge_tensors", "w >= u"), ("isfinite_all", "A.isfinite().all()"), ("sum_bool", "sum(w > 0.0)"),
    ("cast_int", "(A > 0).sum(dim=0).to(dtype=A.dtype) / 2"), ("reshape", "A.reshape([-1])[0:3]" if False else "w.reshape([A.shape[0], 1]) * A"),
    ("item", "A.sum().item() * w"), ("len", "len(A) * w"), ("shape_arith", "(A.shape[0] - 1) * w"),
    
    ("norm_guard", "w / w.norm() if w.norm() > 0 else torch.zeros_like(w)"),
]


class _Frame(Frame):
    pass


def _sym_eval(expr: str, shapes: dict, env: dict):
    """evaluate the python expression with the REAL primitive contracts on symbolic tensors of concrete shapes; of the paths
    explored (external failure flags, data-dependent branches) the one whose path condition holds on the data is returned"""
    from .core import explore
    tree = ast.parse(expr, mode="eval").body
    mod = type("M", (), {})()
    mod.name, mod.imports, mod.funcs, mod.classes, mod.globals = "validate", {}, {}, {}, {}

    class _Repo:
        modules = {}

        def resolve(self, module, name, _depth=0):
            return External(f"builtins.{name}")

        def get(self, q):
            return None

    def body(cx):
        it = Interp(_Repo(), cx, P)
        fr = Frame(None, mod)
        fr.qual = "validate"
        fr.self_obj = None
        for name, shp in shapes.items():
            fr.set(name, ATen(z3.Const(name, ArrS), list(shp), P.F64, "torch"))
        fr.set("torch", External("torch"))
        fr.set("np", External("numpy"))
        fr.set("F", External("torch.nn.functional"))
        return it.eval(tree, fr)
    for r in explore(body, max_paths=200):
        if r.kind != "return":
            continue
        e2 = dict(env)
        e2["I0!canon"] = 0
        for n, c in numeval.free_consts([h for h in r.ctx.pc if not z3.is_quantifier(h)]).items():
            if z3.is_bool(c):
                e2.setdefault(n, False)   # external failure flags: the library call succeeds
        try:
            if all(numeval._b(numeval.ev(h, e2)) for h in r.ctx.pc if not z3.is_quantifier(h)):
                return r.value, r.ctx
        except (numeval.Unknown, numeval.Inadmissible):
            continue
    raise Unsupported("no returning path is consistent with the data")


def cases(rng, n_each):
    out = []
    for name, expr in TABLE:
        for _ in range(n_each):
            m, n, p = rng.choice([3, 4]), rng.choice([3, 4, 5]), rng.choice([2, 3])
            out.append((name, expr, {"A": [m, n], "B": [n, p], "G": [m, m], "v": [n], "w": [m], "u": [m]}))
    return out


def run(seed=0, n_each=1):
    rng = random.Random(seed)
    nrng = np.random.default_rng(seed)
    todo = cases(rng, n_each)
    req, sym, skipped = [], [], []
    for name, expr, shapes in todo:
        data = {k: np.round(nrng.uniform(-2, 2, size=shp), 3) for k, shp in shapes.items()}
        g = data["G"]
        data["G"] = np.round(g @ g.T + 0.5 * np.eye(g.shape[0]), 3)
        data["G"] = (data["G"] + data["G"].T) / 2
        used = {k: v for k, v in data.items() if k in expr.replace("torch", "").replace("F.", "") or k in ("A",)}
        try:
            r, cx = _sym_eval(expr, {k: list(v.shape) for k, v in data.items()}, dict(data))
            if isinstance(r, ATen):
                term = r.real if (r.rank == 0 and r.real is not None) else (z3.ToReal(r.intval) if (r.rank == 0 and r.intval is not None) else r.term)
            elif isinstance(r, (z3.ExprRef,)):
                term = r
            elif isinstance(r, (int, float, bool)):
                term = None
            else:
                raise Unsupported(f"result of kind {type(r).__name__}")
            env = dict(data)
            # constants the path condition fixes (branches taken during the symbolic evaluation) are not needed: the
            # expressions of the table are straight-line except norm_guard, whose branch is evaluated numerically below
            val = numeval.ev(term, env) if term is not None else r
            sym.append((name, expr, np.asarray(val, dtype=np.float64) if not isinstance(val, (bool, np.bool_)) else np.asarray(float(val)), cx))
            req.append({"tensors": {k: v.tolist() for k, v in data.items()}, "expr": expr})
        except (Unsupported, numeval.Unknown, numeval.Inadmissible) as e:
            skipped.append(f"{name}: {type(e).__name__}: {str(e)[:80]}")
    p = subprocess.run([VENV_PY, "-m", "tjv.rt.opval"], input=json.dumps(req), capture_output=True, text=True,
                       cwd=os.path.dirname(os.path.dirname(os.path.dirname(os.path.abspath(__file__)))))
    if p.returncode != 0:
        return {"samples": 0, "ops": 0, "failures": [f"real-library side failed: {p.stderr[-300:]}"], "skipped": skipped}
    real = json.loads(p.stdout)
    failures, ok_ops = [], set()
    for (name, expr, val, cx), rr in zip(sym, real):
        if "error" in rr:
            failures.append(f"{name}: `{expr}` raised in real torch: {rr['error']}")
            continue
        rv = np.asarray(rr["flat"], dtype=np.float64).reshape(rr["shape"])
        sv = np.asarray(val, dtype=np.float64)
        if sv.dtype == np.bool_:
            sv = sv.astype(np.float64)
        if list(sv.shape) != list(rv.shape) or not numeval.close(sv, rv, rtol=1e-8):
            failures.append(f"{name}: `{expr}`: contract+standard interpretation gives shape {list(sv.shape)} {np.round(sv.reshape(-1)[:4], 6).tolist()}, "
                            f"real torch shape {list(rv.shape)} {np.round(rv.reshape(-1)[:4], 6).tolist()}")
        else:
            ok_ops.add(name)
    return {"samples": len(sym), "ops": len(ok_ops), "failures": failures, "skipped": skipped, "table": len(TABLE)}


if __name__ == "__main__":
    import sys
    res = run(seed=int(sys.argv[1]) if len(sys.argv) > 1 else 0, n_each=int(sys.argv[2]) if len(sys.argv) > 2 else 1)
    print(json.dumps(res, indent=1))
