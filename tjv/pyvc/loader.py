"""Source loader: parses the current working tree of <repo>/src/torchjd on every run.

Nothing is imported or executed; only `ast.parse`.  What the extraction drops is listed in DROPPED and is
reported in every evidence file."""
from __future__ import annotations

import ast
import hashlib
import os

DROPPED = ("docstrings; comments; type annotations (used only as value-kind hints); the text of exception "
           "messages and f-strings (string values are opaque, their format arguments are not evaluated); "
           "device= / .to(device) / .cpu() plumbing (identity on values); __str__/__repr__ methods; typing generics "
           "(Generic[...] bases, TypeVar)")


class Unsupported(Exception):
    """Construct outside the supported subset -> obligations of the function become UNDECIDED."""


class External:
    """A name that resolves outside the repo (torch.cat, math.ceil, builtins, ...)."""

    def __init__(self, dotted):
        self.dotted = dotted

    def __repr__(self):
        return f"<ext {self.dotted}>"


class FuncInfo:
    def __init__(self, module, node, cls=None):
        self.module = module
        self.node = node
        self.cls = cls
        self.name = node.name
        self.qualname = (f"{module.name}.{cls.name}.{node.name}" if cls else f"{module.name}.{node.name}")
        self.decorators = []
        for d in node.decorator_list:
            if isinstance(d, ast.Call):
                d = d.func
            if isinstance(d, ast.Name):
                self.decorators.append(d.id)
            elif isinstance(d, ast.Attribute):
                self.decorators.append(d.attr)
            else:
                self.decorators.append("<decorator>")
        self.is_static = "staticmethod" in self.decorators
        self.is_classmethod = "classmethod" in self.decorators
        self.is_property = "property" in self.decorators
        self.is_abstract = "abstractmethod" in self.decorators

    @property
    def file(self):
        return self.module.path

    @property
    def line(self):
        return self.node.lineno

    def ast_hash(self):
        return hashlib.sha256(ast.dump(self.node, include_attributes=False).encode()).hexdigest()[:16]

    def __repr__(self):
        return f"<func {self.qualname}>"


class ClassInfo:
    def __init__(self, module, node):
        self.module = module
        self.node = node
        self.name = node.name
        self.qualname = f"{module.name}.{node.name}"
        self.methods = {}
        self.class_attrs = {}  # name -> ast expr (assignments in the class body)
        self.base_exprs = node.bases
        for st in node.body:
            if isinstance(st, ast.FunctionDef):
                self.methods[st.name] = FuncInfo(module, st, cls=self)
            elif isinstance(st, ast.Assign):
                for t in st.targets:
                    if isinstance(t, ast.Name):
                        self.class_attrs[t.id] = st.value
        self._mro = None

    def bases(self, repo):
        res = []
        for b in self.base_exprs:
            e = b
            if isinstance(e, ast.Subscript):  # Generic[...] / Transform[_A, _B]
                e = e.value
            if isinstance(e, ast.Name):
                obj = repo.resolve(self.module, e.id)
            elif isinstance(e, ast.Attribute) and isinstance(e.value, ast.Name):
                base = repo.resolve(self.module, e.value.id)
                obj = External(f"{base.dotted}.{e.attr}") if isinstance(base, External) else None
            else:
                obj = None
            if isinstance(obj, ClassInfo):
                res.append(obj)
            elif isinstance(obj, External):
                res.append(obj)
        return res

    def mro(self, repo):
        """C3 linearisation over repo classes (external bases are kept as leaves at the end)."""
        if self._mro is not None:
            return self._mro
        bases = [b for b in self.bases(repo) if isinstance(b, ClassInfo)]
        seqs = [list(b.mro(repo)) for b in bases] + [list(bases)]
        res = [self]
        while True:
            seqs = [s for s in seqs if s]
            if not seqs:
                break
            for s in seqs:
                cand = s[0]
                if not any(cand in t[1:] for t in seqs):
                    break
            else:
                raise Unsupported(f"inconsistent MRO for {self.qualname}")
            res.append(cand)
            for s in seqs:
                if s[0] is cand:
                    del s[0]
        self._mro = res
        return res

    def external_bases(self, repo):
        res = []
        for c in self.mro(repo):
            for b in c.bases(repo):
                if isinstance(b, External):
                    res.append(b.dotted)
        return res

    def lookup(self, repo, name):
        """Method or class attribute through the MRO -> (kind, obj, owner)"""
        for c in self.mro(repo):
            if name in c.methods:
                return ("method", c.methods[name], c)
            if name in c.class_attrs:
                return ("attr", c.class_attrs[name], c)
        return None

    def issubclass_of(self, repo, other):
        return other in self.mro(repo)

    def __repr__(self):
        return f"<class {self.qualname}>"


class Module:
    def __init__(self, name, path, is_pkg):
        self.name = name
        self.path = path
        self.is_pkg = is_pkg
        self.src = open(path).read()
        self.tree = ast.parse(self.src)
        self.funcs, self.classes, self.imports, self.globals = {}, {}, {}, {}
        for st in self.tree.body:
            if isinstance(st, ast.FunctionDef):
                self.funcs[st.name] = FuncInfo(self, st)
            elif isinstance(st, ast.ClassDef):
                self.classes[st.name] = ClassInfo(self, st)
            elif isinstance(st, ast.Import):
                for a in st.names:
                    self.imports[a.asname or a.name.split(".")[0]] = ("mod", a.name if a.asname else a.name.split(".")[0])
            elif isinstance(st, ast.ImportFrom):
                pkg = self.name if self.is_pkg else self.name.rsplit(".", 1)[0]
                if st.level:
                    parts = pkg.split(".")
                    base = ".".join(parts[: len(parts) - (st.level - 1)])
                    target = base + ("." + st.module if st.module else "")
                else:
                    target = st.module
                for a in st.names:
                    self.imports[a.asname or a.name] = ("from", target, a.name)
            elif isinstance(st, ast.Assign):
                for t in st.targets:
                    if isinstance(t, ast.Name):
                        self.globals[t.id] = st.value
            elif isinstance(st, ast.Try):
                pass


class Repo:
    def __init__(self, root):
        self.root = root
        self.src = os.path.join(root, "src")
        self.modules = {}
        base = os.path.join(self.src, "torchjd")
        for dp, dn, fn in os.walk(base):
            for f in fn:
                if not f.endswith(".py"):
                    continue
                path = os.path.join(dp, f)
                rel = os.path.relpath(path, self.src)[:-3].replace(os.sep, ".")
                is_pkg = rel.endswith(".__init__")
                name = rel[: -len(".__init__")] if is_pkg else rel
                try:
                    self.modules[name] = Module(name, path, is_pkg)
                except SyntaxError as e:
                    raise Unsupported(f"syntax error in {path}: {e}")

    def resolve(self, module, name, _depth=0):
        if _depth > 12:
            raise Unsupported(f"import cycle resolving {name}")
        if name in module.funcs:
            return module.funcs[name]
        if name in module.classes:
            return module.classes[name]
        if name in module.imports:
            imp = module.imports[name]
            if imp[0] == "mod":
                if imp[1] in self.modules:
                    return self.modules[imp[1]]
                return External(imp[1])
            _, target, attr = imp
            if target in self.modules:
                sub = f"{target}.{attr}"
                if sub in self.modules:
                    return self.modules[sub]
                return self.resolve(self.modules[target], attr, _depth + 1)
            return External(f"{target}.{attr}")
        if name in module.globals:
            return ("global", module, module.globals[name])
        return External(f"builtins.{name}")

    def get(self, qualname):
        """'torchjd.autojac._transform.jac.Jac._differentiate' -> FuncInfo / ClassInfo (or None)."""
        parts = qualname.split(".")
        for i in range(len(parts), 0, -1):
            mn = ".".join(parts[:i])
            if mn in self.modules:
                m = self.modules[mn]
                rest = parts[i:]
                if not rest:
                    return m
                if rest[0] in m.funcs and len(rest) == 1:
                    return m.funcs[rest[0]]
                if rest[0] in m.classes:
                    c = m.classes[rest[0]]
                    if len(rest) == 1:
                        return c
                    if len(rest) == 2 and rest[1] in c.methods:
                        return c.methods[rest[1]]
                return None
        return None
