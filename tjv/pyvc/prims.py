"""Primitive contracts [T]: symbolic renderings of the builtins / torch / numpy / qpsolvers / cvxpy functions
used by /repo/src/torchjd.  Every primitive that a discharged obligation went through is recorded in
Ctx.axioms_used / TRUSTED and listed in the evidence (`trusted_base`)."""
from __future__ import annotations

import ast

import z3

from . import values as V
from .core import ExcValue, PathEnd, SymRaise
from .loader import ClassInfo, External, FuncInfo, Unsupported
from .values import MISSING, U, ArrS, DtypeS, TenS, ShapeS, lift

REG = {}
USED = set()  # names of primitive contracts exercised in this process (for trusted_base)


def prim(*names):
    def deco(fn):
        for n in names:
            REG[n] = fn
        return fn
    return deco


def call(interp, dotted, args, kwargs):
    fn = REG.get(dotted)
    if fn is None:
        # typing-only names evaluate to opaque markers
        raise Unsupported(f"no primitive contract for {dotted}")
    USED.add(dotted)
    # a value that was None-checked by the code (`if w is None: raise`) is used as the value afterwards
    args = [a.value if isinstance(a, V.Opt) else a for a in args]
    kwargs = {k: (a.value if isinstance(a, V.Opt) else a) for k, a in kwargs.items()}
    return fn(interp, *args, **kwargs)


def ext_attr(interp, obj: External, name):
    d = f"{obj.dotted}.{name}"
    if d in CONSTS:
        return CONSTS[d]
    return External(d)


F64 = z3.Const("float64", DtypeS)
F32 = z3.Const("float32", DtypeS)
CONSTS = {
    "numpy.float64": F64, "numpy.float32": F32, "torch.float64": F64, "torch.float32": F32,
    "cvxpy.CLARABEL": "CLARABEL", "cvxpy.ECOS": "ECOS",
}

EXC_NAMES = ["ValueError", "TypeError", "RuntimeError", "KeyError", "IndexError", "Exception", "NotImplementedError",
             "ZeroDivisionError"]
for _n in EXC_NAMES:
    def _mk(n):
        def ctor(interp, *a, **k):
            return ExcValue(n, a)
        return ctor
    REG[f"builtins.{_n}"] = _mk(_n)


# ============================================================================= builtins


def as_symseq(interp, it):
    cx = interp.cx
    if isinstance(it, V.SymSeq):
        return it
    if isinstance(it, V.SymList):
        n, g = it.length, it.get
        return V.SymSeq(n, g)
    if isinstance(it, V.SymSet):
        return it.seq(cx)
    if isinstance(it, V.RangeIter):
        return V.SymSeq(it.n, lambda i: i)
    if isinstance(it, V.ZipIter):
        if it.consumed:
            return V.SymSeq(0, lambda i: None, distinct=True)   # a zip object is exhausted by its first traversal
        it.consumed = True
        parts = [as_symseq(interp, p) if V.concrete_iter(p) is None else conc_seq(p) for p in it.parts]
        if any((isinstance(p.length, int) and p.length == 0) or (isinstance(p.length, z3.ExprRef) and z3.is_int_value(z3.simplify(p.length))
               and z3.simplify(p.length).as_long() == 0) for p in parts):
            return V.SymSeq(0, lambda i: None, distinct=True)   # zip stops at the shortest part: nothing
        n = parts[0].length
        for p in parts[1:]:
            # zip stops at the shortest; all uses in the repo zip equal-length sequences: make it an obligation-free min
            n = z3.If(lift(p.length) < lift(n), lift(p.length), lift(n))
        n = z3.simplify(n) if isinstance(n, z3.ExprRef) else n
        r = V.SymSeq(n, lambda i: tuple(p.get(i) for p in parts))
        r.zip_parts = parts
        keyed = [p for p in parts if p.distinct is True and isinstance(_try(lambda: p.get(z3.Int("I0!canon"))), V.TRef)]
        if keyed:
            kp = keyed[0]
            kidx = seq_index_fn(interp, kp)
            r.at_key = lambda t: tuple((V.TRef(t) if p is kp else p.get(kidx(t))) for p in parts)
        return r
    if isinstance(it, V.SymIter):
        return it.consume()
    if isinstance(it, V.SymMap):
        return it.keys
    if isinstance(it, MapView):
        return it.seq(interp)
    from .interp import SymObj
    if isinstance(it, SymObj) and it.payload is not None:
        return as_symseq(interp, it.payload)
    if hasattr(it, "sym_iter"):
        return it.sym_iter(interp)
    raise Unsupported(f"iteration over {type(it).__name__}")


def _try(f):
    try:
        return f()
    except Exception:  # noqa: BLE001
        return None


def conc_seq(xs):
    xs = list(V.concrete_iter(xs))

    def get(i):
        if isinstance(i, int):
            return xs[i]
        r = xs[-1]
        for k in range(len(xs) - 2, -1, -1):
            r = V.ite_val(i == k, xs[k], r)
        return r
    return V.SymSeq(len(xs), get)


class MapView:
    def __init__(self, m, kind):
        self.m, self.kind = m, kind

    def seq(self, interp):
        m = self.m
        ks = m.keys
        if self.kind == "keys":
            if not hasattr(ks, "at_key") and ks.distinct is True:
                ks.at_key = lambda t: V.TRef(t)
            return ks
        val = m.by_index if m.by_index is not None else (lambda i: m.get(ks.get(i).ref))
        if self.kind == "values":
            return V.SymSeq(ks.length, val)
        r = V.SymSeq(ks.length, lambda i: (ks.get(i), val(i)), distinct=ks.distinct)
        r.key_component_distinct = ks.distinct is True
        r.at_key = lambda t: (V.TRef(t), m.get(t))  # the item whose key is t, without the idx(t) round trip
        return r


def seq_len(x):
    if isinstance(x, (V.SymSeq, V.SymList)):
        return x.length
    return None


@prim("builtins.len")
def p_len(interp, x):
    from .interp import SymObj
    if isinstance(x, (list, tuple, dict, set, str)):
        return len(x)
    if isinstance(x, (V.SymSeq, V.SymList)):
        return x.length
    if isinstance(x, V.SymSet):
        return x.seq(interp.cx).length
    if isinstance(x, V.SymMap):
        return x.keys.length
    if isinstance(x, MapView):
        return x.m.keys.length
    if isinstance(x, SymObj) and x.payload is not None:
        return p_len(interp, x.payload)
    if hasattr(x, "sym_len"):
        return x.sym_len(interp)
    raise Unsupported(f"len of {type(x).__name__}")


@prim("builtins.range")
def p_range(interp, *a):
    if all(isinstance(x, int) for x in a):
        return range(*a)
    if len(a) == 1:
        return V.RangeIter(a[0])
    raise Unsupported("range with symbolic start/step")


@prim("builtins.zip")
def p_zip(interp, *parts):
    cs = [V.concrete_iter(p) for p in parts]
    if all(c is not None for c in cs):
        return list(zip(*cs))
    return V.ZipIter(list(parts))


@prim("builtins.list")
def p_list(interp, x=None):
    if x is None:
        return []
    c = V.concrete_iter(x)
    if c is not None:
        return list(c)
    return as_symseq(interp, x)


@prim("builtins.tuple")
def p_tuple(interp, x=()):
    c = V.concrete_iter(x)
    if c is not None:
        return tuple(c)
    return as_symseq(interp, x)


@prim("builtins.set")
def p_set(interp, x=None):
    if x is None:
        return set()
    c = V.concrete_iter(x)
    if c is not None:
        if any(V.is_symbolic_key(e) for e in c):
            return set_from_items(interp, c)
        return set(c)
    if isinstance(x, V.SymSet):
        return x  # sets are never mutated in place by the code under contract (checked: no .add on it)
    s = as_symseq(interp, x)
    return set_from_seq(interp, s)


class SymIntSet:
    """set() of a symbolic sequence of integers; only its len() is used (`len(set(first_dims)) > 1`)."""

    def __init__(self, seq):
        self.seq = seq

    def sym_len(self, interp):
        cx = interp.cx
        s = self.seq
        n = lift(s.length)
        c = cx.fresh_int("ndistinct")
        a, b = cx.fresh_int("da"), cx.fresh_int("db")
        i, j = z3.Int("i!q"), z3.Int("j!q")
        cx.assume(z3.And(c >= 0, c <= n, (n > 0) == (c >= 1)), tag="len(set(ints))")
        cx.assume(z3.Implies(c > 1, z3.And(0 <= a, a < n, 0 <= b, b < n, lift(s.get(a)) != lift(s.get(b)))), tag="len(set(ints))")
        cx.assume(z3.Implies(c <= 1, V.forall([i, j], z3.Implies(z3.And(0 <= i, i < n, 0 <= j, j < n),
                                                                     lift(s.get(i)) == lift(s.get(j))))), tag="len(set(ints))")
        return c


def set_from_seq(interp, s: V.SymSeq):
    cx = interp.cx
    if s.origin is not None and isinstance(s.origin, V.SymSet):
        return s.origin
    I0 = z3.Int("I0!canon")
    e0 = s.get(I0)
    if isinstance(e0, (int, z3.ArithRef)):
        return SymIntSet(s)
    if isinstance(lift(s.length), z3.IntNumRef) and lift(s.length).as_long() == 0:
        return set()
    key = ("set", z3.simplify(lift(s.length)).sexpr(), e0.ref.sexpr())
    cache = cx.ghost.setdefault("set_cache", {})
    if key in cache:
        return cache[key]
    if hasattr(s, "flat_parts"):
        # set(flattened list of duplicate-free parts) = union of the parts; |union| = sum of |part| iff pairwise disjoint
        sets = [p if isinstance(p, V.SymSet) else set_from_seq(interp, p) for p in s.flat_parts]
        sets = [x for x in sets if not (isinstance(x, set) and not x)]
        if not sets:
            return set()
        Su = lift_set(interp, sets[0])
        for q in sets[1:]:
            Su = set_union(interp, Su, lift_set(interp, q))
        cache[key] = Su
        return Su
    if hasattr(s, "concat_parts"):
        pa, pb = s.concat_parts
        sa, sb = set_from_seq(interp, pa), set_from_seq(interp, pb)
        if isinstance(sa, set) and not sa:
            cache[key] = sb
            return sb
        if isinstance(sb, set) and not sb:
            cache[key] = sa
            return sa
        Su = set_union(interp, lift_set(interp, sa), lift_set(interp, sb))
        Su.from_seq = s
        Su.cached = True
        cache[key] = Su
        return Su
    S = V.SymSet(cx, "S")
    S.cached = True
    cache[key] = S
    j = z3.Int("j!q")
    t = z3.Const("t!q", TenS)
    w = cx.fresh_func("wit", TenS, z3.IntSort())
    cx.assume(V.forall([j], z3.Implies(z3.And(0 <= j, j < lift(s.length)), S.contains(s.get(j).ref)),
                        patterns=[S.contains(s.get(j).ref)]), tag="set(seq)")
    cx.assume(V.forall([t], z3.Implies(S.contains(t), z3.And(0 <= w(t), w(t) < lift(s.length), s.get(w(t)).ref == t)),
                        patterns=[w(t)]), tag="set(seq)")
    S.from_seq = s
    return S


def set_from_items(interp, items):
    cx = interp.cx
    S = V.SymSet(cx, "S")
    t = z3.Const("t!q", TenS)
    cx.assume(V.forall([t], S.contains(t) == z3.Or([t == x.ref for x in items]) if items else z3.Not(S.contains(t))),
              tag="set-display")
    return S


def map_from_pairs(interp, pairs):
    keys = conc_seq([k for k, _ in pairs])

    def get(t):
        r = pairs[-1][1]
        for k, v in reversed(pairs[:-1]):
            r = V.ite_val(t == k.ref, v, r)
        return r
    return V.SymMap(keys, get)


@prim("builtins.dict")
def p_dict(interp, x=None):
    if x is None:
        return {}
    if isinstance(x, dict):
        return dict(x)
    c = V.concrete_iter(x)
    if c is not None:
        if any(V.is_symbolic_key(k) for k, _ in c):
            return map_from_pairs(interp, list(c))
        return dict(c)
    if isinstance(x, V.SymMap):
        return x
    from .interp import SymObj
    if isinstance(x, SymObj) and x.payload is not None:
        return x.payload
    if isinstance(x, V.ZipIter) and len(x.parts) == 2:
        ks = as_symseq(interp, x.parts[0])
        vs = as_symseq(interp, x.parts[1]) if V.concrete_iter(x.parts[1]) is None else conc_seq(x.parts[1])
        return map_from_zip(interp, ks, vs)
    raise Unsupported(f"dict() of {type(x).__name__}")


def map_from_zip(interp, ks: V.SymSeq, vs: V.SymSeq):
    if isinstance(vs.length, int) and vs.length == 0 or isinstance(ks.length, int) and ks.length == 0:
        return {}
    if isinstance(vs.length, int):
        # zip stops at the shorter sequence
        interp.cx.oblige("prim.dict_zip.same_length", lift(ks.length) == vs.length, kind="prim")
    idx = seq_index_fn(interp, ks)
    return V.SymMap(ks, lambda t: vs.get(idx(t)), by_index=vs.get)


def seq_index_fn(interp, ks: V.SymSeq):
    """Inverse of a duplicate-free sequence of tensors: idx(get(j)) = j."""
    if hasattr(ks, "index_of"):
        return ks.index_of
    cx = interp.cx
    idx = cx.fresh_func("idx", TenS, z3.IntSort())
    j = z3.Int("j!q")
    if ks.distinct is not True:
        if ks.distinct is None:
            raise Unsupported("index of a sequence not known to be duplicate-free")
    cx.assume(V.forall([j], z3.Implies(z3.And(0 <= j, j < lift(ks.length)), idx(ks.get(j).ref) == j),
                        patterns=[ks.get(j).ref]), tag="distinct-seq-index")
    ks.index_of = idx
    return idx


@prim("builtins.isinstance")
def p_isinstance(interp, x, c):
    from .interp import SymObj
    cs = c if isinstance(c, tuple) else (c,)
    for k in cs:
        if isinstance(k, External):
            n = k.dotted
            if n in ("torch.Tensor",):
                if isinstance(x, (V.TRef, ATen, LTen)):
                    return True
            elif n == "builtins.list" and isinstance(x, (list, V.SymSeq, V.SymList)):
                return True
            elif n == "builtins.tuple" and isinstance(x, tuple):
                return True
        elif isinstance(k, ClassInfo):
            if isinstance(x, SymObj) and x.cls.issubclass_of(interp.repo, k):
                return True
    return False


@prim("builtins.issubclass")
def p_issubclass(interp, a, b):
    if isinstance(a, ClassInfo) and isinstance(b, ClassInfo):
        return a.issubclass_of(interp.repo, b)
    if isinstance(a, ClassInfo) and isinstance(b, External):
        return b.dotted in a.external_bases(interp.repo) or b.dotted == "builtins.object"
    raise Unsupported("issubclass")


@prim("builtins.hasattr")
def p_hasattr(interp, x, name):
    if isinstance(x, (V.TRef, ATen, LTen)) and name == "grad":
        return True
    from .interp import SymObj
    if isinstance(x, SymObj):
        return name in x.attrs or x.cls.lookup(interp.repo, name) is not None
    raise Unsupported("hasattr")


@prim("builtins.type")
def p_type(interp, x):
    from .interp import SymObj
    if isinstance(x, SymObj):
        return x.cls
    raise Unsupported(f"type() of {type(x).__name__}")


@prim("builtins.any")
def p_any(interp, xs):
    c = V.concrete_iter(xs)
    if c is not None:
        r = False
        for x in c:
            r = V.or_(r, interp.truth(x))
        return r
    s = as_symseq(interp, xs)
    cx = interp.cx
    b = cx.fresh_bool("any")
    j = z3.Int("j!q")
    w = cx.fresh_int("anyw")
    body = lambda i: lift(interp.truth(s.get(i)))
    cx.assume(z3.Implies(b, z3.And(0 <= w, w < lift(s.length), body(w))), tag="any")
    cx.assume(z3.Implies(z3.Not(b), V.forall([j], z3.Implies(z3.And(0 <= j, j < lift(s.length)), z3.Not(body(j))))), tag="any")
    return b


@prim("builtins.all")
def p_all(interp, xs):
    c = V.concrete_iter(xs)
    if c is not None:
        r = True
        for x in c:
            r = V.and_(r, interp.truth(x))
        return r
    s = as_symseq(interp, xs)
    cx = interp.cx
    b = cx.fresh_bool("all")
    j = z3.Int("j!q")
    w = cx.fresh_int("allw")
    body = lambda i: lift(interp.truth(s.get(i)))  # noqa: E731
    cx.assume(z3.Implies(z3.Not(b), z3.And(0 <= w, w < lift(s.length), z3.Not(body(w)))), tag="all")
    cx.assume(z3.Implies(b, V.forall([j], z3.Implies(z3.And(0 <= j, j < lift(s.length)), body(j)))), tag="all")
    return b


@prim("builtins.sum")
def p_sum(interp, xs, start=0):
    c = V.concrete_iter(xs)
    if c is not None:
        r = start
        for x in c:
            r = binop(interp, ast.Add(), r, x)
        return r
    if hasattr(xs, "sym_pysum"):
        return xs.sym_pysum(interp)
    s = as_symseq(interp, xs)
    return prefix_sum(interp, s).total()


@prim("builtins.abs")
def p_abs(interp, x):
    if isinstance(x, (int, float)):
        return abs(x)
    if isinstance(x, z3.ArithRef):
        return z3.If(x >= 0, x, -x)
    if isinstance(x, ATen):
        return x.method("abs")
    raise Unsupported("abs")


@prim("builtins.bool")
def p_bool(interp, x=False):
    return interp.truth(x)


@prim("builtins.float")
def p_float(interp, x):
    if isinstance(x, (int, float)):
        return float(x)
    if isinstance(x, z3.ArithRef):
        return z3.ToReal(x) if z3.is_int(x) else x
    raise Unsupported("float()")


@prim("builtins.int")
def p_int(interp, x):
    if isinstance(x, (int,)):
        return x
    raise Unsupported("int()")


@prim("builtins.str", "builtins.repr")
def p_str(interp, x=None):
    return V.OpaqueStr()


@prim("builtins.reversed")
def p_reversed(interp, x):
    c = V.concrete_iter(x)
    if c is not None:
        return list(reversed(c))
    s = as_symseq(interp, x)
    n = s.length
    r = V.SymSeq(n, lambda i: s.get(n - 1 - i), distinct=s.distinct)
    return r


@prim("builtins.enumerate")
def p_enumerate(interp, x):
    c = V.concrete_iter(x)
    if c is not None:
        return list(enumerate(c))
    s = as_symseq(interp, x)
    return V.SymSeq(s.length, lambda i: (i, s.get(i)))


def _minmax(interp, a, is_max):
    if len(a) == 1:
        if isinstance(a[0], V.Shape) and a[0].tail is None:
            xs = list(a[0].lead)
        else:
            xs = V.concrete_iter(a[0])
            if xs is None:
                raise Unsupported("min/max over a symbolic iterable")
    else:
        xs = list(a)
    if all(isinstance(x, (int, float)) for x in xs):
        return max(xs) if is_max else min(xs)
    r = xs[0]
    for x in xs[1:]:
        if not (_num(r) and _num(x)):
            raise Unsupported("min/max of non-numbers")
        lr, lx = lift(r), lift(x)
        if z3.is_int(lr) and z3.is_real(lx):
            lr = z3.ToReal(lr)
        if z3.is_real(lr) and z3.is_int(lx):
            lx = z3.ToReal(lx)
        r = z3.If(lx > lr, lx, lr) if is_max else z3.If(lx < lr, lx, lr)
    return r


@prim("builtins.max")
def p_max(interp, *a):
    return _minmax(interp, a, True)


@prim("builtins.min")
def p_min(interp, *a):
    return _minmax(interp, a, False)


def int_divmod(interp, a, b):
    """Python floor division and modulo on integers: a = q*b + r with 0 <= r < b (b > 0) or b < r <= 0 (b < 0)."""
    cx = interp.cx
    if cx.branch(b == 0):
        raise SymRaise(ExcValue("ZeroDivisionError"))
    if not cx.feasible(b <= 0):
        return a / b, a % b  # positive divisor: z3's Euclidean div/mod coincide with Python's floor div/mod
    q, r = cx.fresh_int("fdiv"), cx.fresh_int("fmod")
    cx.assume(z3.And(a == q * b + r, z3.Implies(b > 0, z3.And(0 <= r, r < b)), z3.Implies(b < 0, z3.And(b < r, r <= 0))),
              tag="python floor division / modulo on ints")
    return q, r


@prim("builtins.divmod")
def p_divmod(interp, a, b):
    if isinstance(a, int) and isinstance(b, int):
        if b == 0:
            raise SymRaise(ExcValue("ZeroDivisionError"))
        return divmod(a, b)
    a = a.value if isinstance(a, V.Opt) else a
    b = b.value if isinstance(b, V.Opt) else b
    return int_divmod(interp, lift(a), lift(b))


@prim("math.ceil")
def p_ceil(interp, x):
    cx = interp.cx
    if isinstance(x, (int, float)):
        import math
        return math.ceil(x)
    if isinstance(x, V.Quot):
        a, b = lift(x.a), lift(x.b)
        n = cx.fresh_int("ceil")
        # n = ceil(a/b)  <=>  (n-1)*b < a <= n*b   for b > 0 ; symmetric for b < 0 ; b = 0 raised earlier
        cx.assume(z3.Implies(b > 0, z3.And((n - 1) * b < a, a <= n * b)), tag="math.ceil(int/int) is exact ceiling division")
        cx.assume(z3.Implies(b < 0, z3.And((n - 1) * b > a, a >= n * b)), tag="math.ceil(int/int) is exact ceiling division")
        return n
    raise Unsupported("math.ceil of non-quotient")


@prim("functools.partial")
def p_partial(interp, fn, *a, **k):
    return V.Partial(fn, a, k)


@prim("itertools.accumulate")
def p_accumulate(interp, xs):
    c = V.concrete_iter(xs)
    if c is not None:
        out, acc = [], None
        for x in c:
            acc = x if acc is None else binop(interp, ast.Add(), acc, x)
            out.append(acc)
        return out
    s = as_symseq(interp, xs)
    ps = prefix_sum(interp, s)
    return V.SymSeq(s.length, lambda i: ps.off(lift(i) + 1))


@prim("collections.OrderedDict")
def p_ordereddict(interp, x=None):
    if x is None:
        return {}
    c = V.concrete_iter(x)
    if c is not None:
        if any(V.is_symbolic_key(k) for k, _ in c):
            return map_from_pairs(interp, list(c))
        return dict(c)
    s = as_symseq(interp, x)
    # sequence of (key, value) pairs with duplicate-free keys
    ks = V.SymSeq(s.length, lambda i: s.get(i)[0], distinct=getattr(s, "keys_distinct", None))
    idx = seq_index_fn(interp, ks)
    return V.SymMap(ks, lambda t: s.get(idx(t))[1], by_index=lambda i: s.get(i)[1])


@prim("collections.OrderedDict.fromkeys")
def p_od_fromkeys(interp, elements, value=None):
    c = V.concrete_iter(elements)
    if c is not None:
        if any(V.is_symbolic_key(k) for k in c):
            # concrete number of symbolic tensors: duplicates are decided by identity terms
            return fromkeys_concrete(interp, list(c))
        return dict.fromkeys(c, value)
    s = as_symseq(interp, elements)
    if s.distinct is True:
        return V.SymMap(s, lambda t: None)
    cx = interp.cx
    d = s.distinct if s.distinct is not None else seq_distinct_pred(interp, s)
    if cx.branch(d):
        s2 = V.SymSeq(s.length, s.get, distinct=True, origin=s.origin)
        for attr in ("index_of", "concat_parts", "at_key"):
            if hasattr(s, attr):
                setattr(s2, attr, getattr(s, attr))
        if not hasattr(s2, "at_key") and isinstance(_try(lambda: s.get(z3.Int("I0!canon"))), V.TRef):
            s2.at_key = lambda t: V.TRef(t)
        return V.SymMap(s2, lambda t: None)
    # duplicates: the resulting dict is strictly shorter; its content is irrelevant to the code under contract
    n2 = cx.fresh_int("dedup_len")
    cx.assume(z3.And(0 <= n2, n2 < lift(s.length)))
    f = cx.fresh_func("dedup", z3.IntSort(), TenS)
    return V.SymMap(V.SymSeq(n2, lambda i: V.TRef(f(lift(i))), distinct=True), lambda t: None)


def fromkeys_concrete(interp, items):
    cx = interp.cx
    kept = []
    for x in items:
        dup = False
        for y in kept:
            if cx.branch(x.ref == y.ref):
                dup = True
                break
        if not dup:
            kept.append(x)
    return {k: None for k in kept} if not any(V.is_symbolic_key(k) for k in kept) else map_from_pairs(interp, [(k, None) for k in kept])


def seq_distinct_pred(interp, s: V.SymSeq):
    """Boolean 'the sequence has no duplicates', defined by its meaning."""
    cx = interp.cx
    if getattr(s, "_distinct_pred", None) is not None:
        return s._distinct_pred
    d = cx.fresh_bool("distinct")
    i, j = z3.Int("i!q"), z3.Int("j!q")
    n = lift(s.length)
    a, b = cx.fresh_int("dupa"), cx.fresh_int("dupb")
    cx.assume(z3.Implies(d, V.forall([i, j], z3.Implies(z3.And(0 <= i, i < j, j < n), s.get(i).ref != s.get(j).ref))),
              tag="distinct(seq)")
    cx.assume(z3.Implies(z3.Not(d), z3.And(0 <= a, a < b, b < n, s.get(a).ref == s.get(b).ref)), tag="distinct(seq)")
    s._distinct_pred = d
    return d


@prim("collections.deque")
def p_deque(interp, x=()):
    raise Unsupported("deque (handled by the graph contracts)")


# ---- prefix sums (layout theory)

class PrefixSum:
    def __init__(self, interp, seq: V.SymSeq):
        cx = interp.cx
        self.cx = cx
        self.seq = seq
        self.f = cx.fresh_func("off", z3.IntSort(), z3.IntSort())
        j = z3.Int("j!q")
        i2 = z3.Int("i!q")
        n = lift(seq.length)
        ln = lambda k: lift(seq.get(k))
        cx.assume(self.f(0) == 0, tag="prefix-sum")
        if isinstance(seq.length, int) and 0 <= seq.length <= 8:
            for k in range(seq.length):  # ground unfolding for lists of concrete length
                cx.assume(self.f(k + 1) == self.f(k) + ln(z3.IntVal(k)), tag="prefix-sum")
        cx.assume(V.forall([j], z3.Implies(z3.And(0 <= j, j < n), self.f(j + 1) == self.f(j) + ln(j)),
                            patterns=[self.f(j + 1)]), tag="prefix-sum")
        cx.assume(V.forall([j], z3.Implies(z3.And(0 <= j, j < n), self.f(j + 1) == self.f(j) + ln(j)),
                            patterns=[ln(j)]) if _has_var(ln(j), j) else z3.BoolVal(True), tag="prefix-sum")

        # Lemma (proved once per run by induction, see tjv/contracts/theory.py: prefix_sum_monotone):
        # non-negative lengths => off is monotone on [0, n]
        # every length sequence in this code base is a sequence of tensor sizes / numels, which are >= 0 [T]
        cx.assume(V.forall([j], z3.Implies(z3.And(0 <= j, j < n), ln(j) >= 0), patterns=[ln(j)]) if _has_var(ln(j), j)
                  else (ln(j) >= 0), tag="tensor sizes are non-negative [T]")
        cx.assume(V.forall([i2, j], z3.Implies(z3.And(0 <= i2, i2 <= j, j <= n), self.f(i2) <= self.f(j)),
                            patterns=[z3.MultiPattern(self.f(i2), self.f(j))]),
                  tag="prefix-sum-monotone (lemma proved by induction: theory.prefix_sum_monotone)")

        # block lookup: blk(c) is the index of the block containing position c (canonical function, so that two
        # evaluations of the same concatenation at the same position give the same term)
        self.blk = cx.fresh_func("blk", z3.IntSort(), z3.IntSort())
        c = z3.Int("c!q")
        cx.assume(V.forall([c], z3.Implies(z3.And(0 <= c, c < self.f(n)),
                                            z3.And(0 <= self.blk(c), self.blk(c) < n, self.f(self.blk(c)) <= c,
                                                   c < self.f(self.blk(c) + 1))), patterns=[self.blk(c)]),
                  tag="cat-block-lookup (existence of the containing block: induction on the prefix sums)")

    def off(self, k):
        return self.f(lift(k))

    def total(self):
        return self.f(lift(self.seq.length))


def _has_var(e, v):
    return any(x.eq(v) for x in _subterms(e))


def _subterms(e):
    seen, stack = [], [e]
    while stack:
        x = stack.pop()
        seen.append(x)
        if z3.is_app(x):
            stack.extend(x.children())
    return seen


_PS_CACHE = {}


def prefix_sum(interp, seq: V.SymSeq):
    """Prefix sums of an integer sequence; two sequences with the same length and the same term at a canonical
    index share one offset function (so that offsets computed at two sites are recognised as equal)."""
    cx = interp.cx
    I0 = z3.Int("I0!canon")
    key = (id(cx), z3.simplify(lift(seq.length)).sexpr(), z3.simplify(lift(seq.get(I0))).sexpr())
    ps = _PS_CACHE.get(key)
    if ps is None:
        ps = PrefixSum(interp, seq)
        _PS_CACHE[key] = ps
    return ps


# ============================================================================= comprehensions over symbolic sequences


def symbolic_comp(interp, e, g, seq: V.SymSeq, frame, kind):
    from .interp import Frame
    cx = interp.cx

    def body_on(elem):
        f2 = Frame(frame.func, frame.module, parent=frame, cls=frame.cls)
        f2.qual = getattr(frame, "qual", "?")
        f2.self_obj = frame.self_obj
        interp.assign(g.target, elem, f2)
        return interp.comp_elt(e, f2, kind)

    def body_at(i):
        return body_on(seq.get(i))

    # one Skolem evaluation: explores raise paths of the body and emits the body's obligations
    i0 = cx.fresh_int("ci")
    cx.assume(z3.And(0 <= i0, i0 < lift(seq.length)))
    pos0 = cx.pos
    r0 = body_at(i0)
    decs = list(cx.decisions[pos0:cx.pos])

    def pure(i, elem=None):
        mark, emark, pmark = len(cx.obligations), len(cx.events), len(cx.pc)
        cx.replay_stack.append({"decs": decs, "pos": 0})
        cx.muted += 1
        try:
            r = body_at(i) if elem is None else body_on(elem)
        finally:
            cx.muted -= 1
            cx.replay_stack.pop()
        del cx.obligations[mark:]  # obligations of the body were already emitted on the Skolem element
        return r

    if kind == "list":
        r = V.SymSeq(seq.length, pure)
        e0 = r0
        if isinstance(e0, tuple) and e0 and isinstance(e0[0], V.TRef) and _elem_from_distinct(seq, e0[0], i0):
            r.keys_distinct = True
        return r
    if kind == "set":
        n0 = r0[0].value if isinstance(r0, tuple) and len(r0) == 2 and isinstance(r0[0], V.Opt) else (r0[0] if isinstance(r0, tuple) and len(r0) == 2 else None)
        if isinstance(n0, NodeRef):
            # {(node | None, index) for x in seq}: an EDGE set.  (None, i) members can never equal a (node, i) pair, so the
            # membership predicate over (Node, Int) is exact when it ranges over the non-None entries only.
            from .graph import EdgeSet
            E = EdgeSet(cx, "edges")
            w = cx.fresh_func("edgew", V.NodeS, z3.IntSort(), z3.IntSort())
            xn, xi, j = z3.Const("x!q", V.NodeS), z3.Int("i!q"), z3.Int("j!q")

            def at(jj):
                r = pure(jj)
                nd = r[0]
                none = nd.is_none if isinstance(nd, V.Opt) else z3.BoolVal(False)
                nd = nd.value if isinstance(nd, V.Opt) else nd
                return lift(none), nd.term, lift(r[1])
            nj, tj, ij = at(j)
            nw, tw, iw = at(w(xn, xi))
            n = lift(seq.length)
            cx.assume(V.forall([j], z3.Implies(z3.And(0 <= j, j < n, z3.Not(nj)), E.contains(tj, ij))), tag="edge-set comprehension")
            cx.assume(V.forall([xn, xi], z3.Implies(E.contains(xn, xi), z3.And(0 <= w(xn, xi), w(xn, xi) < n, z3.Not(nw), tw == xn, iw == xi)),
                               patterns=[E.contains(xn, xi)]), tag="edge-set comprehension")
            return E
        s = V.SymSeq(seq.length, pure)
        return set_from_seq(interp, s)
    if kind == "dict":
        k0 = r0[0]
        ok = isinstance(k0, V.TRef) and _elem_from_distinct(seq, k0, i0)
        ks = V.SymSeq(seq.length, lambda i: pure(i)[0], distinct=True if ok else None)
        if ks.distinct is None:
            raise Unsupported("dict comprehension whose keys are not elements of a duplicate-free sequence")
        if seq.origin is not None and isinstance(k0, V.TRef) and isinstance(seq.get(i0), V.TRef) \
                and seq.get(i0).ref.eq(k0.ref):
            ks.origin = seq.origin
            if hasattr(seq, "index_of"):
                ks.index_of = seq.index_of
        idx = seq_index_fn(interp, ks)
        if hasattr(seq, "at_key") and isinstance(seq.get(i0), (V.TRef, tuple)) and _key_is_iteration_key(seq, k0, i0):
            getter = lambda t: pure(None, elem=seq.at_key(t))[1]
        else:
            getter = lambda t: pure(idx(t))[1]
        return V.SymMap(ks, getter, by_index=lambda i: pure(i)[1])
    raise Unsupported(kind)


def filtered_comp(interp, e, g, seq: V.SymSeq, frame, kind):
    """[x for x in seq if p(x)] / {x for x in seq if p(x)} with the iteration variable itself as element: the order-preserving
    sub-sequence of the elements satisfying p (positions given by a strictly increasing map, onto the satisfying indices)."""
    from .interp import Frame
    cx = interp.cx
    if kind not in ("list", "set") or not (isinstance(g.target, ast.Name) and isinstance(e.elt, ast.Name) and e.elt.id == g.target.id):
        raise Unsupported("filtered comprehension over a symbolic iterable (element is not the iteration variable)")

    def cond_on(elem):
        f2 = Frame(frame.func, frame.module, parent=frame, cls=frame.cls)
        f2.qual = getattr(frame, "qual", "?")
        f2.self_obj = frame.self_obj
        interp.assign(g.target, elem, f2)
        c = True
        for cnd in g.ifs:
            c = V.and_(c, interp.truth(interp.eval(cnd, f2)))
        return lift(c)
    i0 = cx.fresh_int("ci")
    cx.assume(z3.And(0 <= i0, i0 < lift(seq.length)))
    pos0 = cx.pos
    c0 = cond_on(seq.get(i0))
    decs = list(cx.decisions[pos0:cx.pos])

    def p_at(i):
        mark = len(cx.obligations)
        cx.replay_stack.append({"decs": decs, "pos": 0})
        cx.muted += 1
        try:
            r = cond_on(seq.get(i))
        finally:
            cx.muted -= 1
            cx.replay_stack.pop()
        del cx.obligations[mark:]
        return r
    n = lift(seq.length)
    k = cx.fresh_int("nfiltered")
    pos = cx.fresh_func("fpos", z3.IntSort(), z3.IntSort())
    inv = cx.fresh_func("finv", z3.IntSort(), z3.IntSort())
    i, j = z3.Int("i!q"), z3.Int("j!q")
    cx.assume(z3.And(0 <= k, k <= n), tag="filtered comprehension")
    cx.assume(V.forall([i], z3.Implies(z3.And(0 <= i, i < k), z3.And(0 <= pos(i), pos(i) < n, p_at(pos(i)), inv(pos(i)) == i)),
                       patterns=[pos(i)]), tag="filtered comprehension: kept elements satisfy the filter")
    cx.assume(V.forall([i, j], z3.Implies(z3.And(0 <= i, i < j, j < k), pos(i) < pos(j)), patterns=[z3.MultiPattern(pos(i), pos(j))]),
              tag="filtered comprehension: order preserved")
    cx.assume(V.forall([j], z3.Implies(z3.And(0 <= j, j < n, p_at(j)), z3.And(0 <= inv(j), inv(j) < k, pos(inv(j)) == j)),
                       patterns=[inv(j)]), tag="filtered comprehension: every satisfying element is kept")
    sub = V.SymSeq(k, lambda ii: seq.get(pos(lift(ii))), distinct=True if seq.distinct is True else None)
    if kind == "set":
        return set_from_seq(interp, sub)
    return sub


def _key_is_iteration_key(seq, k0, i0):
    """the dict-comprehension key is the key component that seq.at_key() is indexed by"""
    e = seq.get(i0)
    if isinstance(e, V.TRef):
        return e.ref.eq(k0.ref)
    if isinstance(e, tuple):
        probe = z3.Const("probe!t", TenS)
        ak = seq.at_key(probe)
        for a, b in zip(ak, e):
            if isinstance(a, V.TRef) and a.ref.eq(probe) and isinstance(b, V.TRef) and b.ref.eq(k0.ref):
                return True
    return False


def _elem_from_distinct(seq, k0, I0):
    """k0 = key produced at the (Skolem) index I0: is it the I0-th element of a duplicate-free sequence?"""
    cands = [seq] + list(getattr(seq, "zip_parts", []))
    for c in cands:
        try:
            e = c.get(I0)
        except Exception:
            continue
        if isinstance(e, tuple):
            if getattr(c, "key_component_distinct", False) and isinstance(e[0], V.TRef) and e[0].ref.eq(k0.ref):
                return True
            continue
        if isinstance(e, V.TRef) and c.distinct is True and e.ref.eq(k0.ref):
            return True
    return False


def _key_is_target(e, g):
    """dict comprehension `{key: ... for key, ... in ...}`: the key expression is a plain iteration variable."""
    if not isinstance(e.key, ast.Name):
        return False
    names = [n.id for n in ast.walk(g.target) if isinstance(n, ast.Name)]
    return e.key.id in names


def nested_symbolic_comp(interp, e, gi, it, f, kind):
    """Innermost generator over a symbolic iterable whose element is returned as is (`x for ... for x in S`):
    the contribution is the sequence / set itself (flattening)."""
    if gi != len(e.generators) - 1 or kind == "dict":
        return MISSING
    g = e.generators[gi]
    if g.ifs or not (isinstance(e.elt, ast.Name) and isinstance(g.target, ast.Name) and e.elt.id == g.target.id):
        return MISSING
    return FlatPart(as_symseq(interp, it) if not isinstance(it, V.SymSet) else it)


class FlatPart:
    def __init__(self, part):
        self.part = part


def finish_nested_parts(interp, out, kind):
    """out mixes plain elements and FlatPart(seq/set): build the concatenation (list) or the union (set)."""
    cx = interp.cx
    if not any(isinstance(x, FlatPart) for x in out):
        return V.finish_comp(interp, out, kind)
    parts = []
    for x in out:
        if isinstance(x, FlatPart):
            parts.append(x.part)
        else:
            parts.append(conc_seq([x]))
    if kind == "list":
        seqs = [p.seq(cx) if isinstance(p, V.SymSet) else p for p in parts]
        r = seqs[0]
        for q in seqs[1:]:
            r = binop(interp, ast.Add(), r, q)
        if isinstance(r, V.SymSeq):
            r.flat_parts = parts
        return r
    # set: union with cardinality facts (inclusion-exclusion, [L] Finset.card_union_add_card_inter)
    sets = [p if isinstance(p, V.SymSet) else set_from_seq(interp, p) for p in parts]
    sets = [lift_set(interp, x) if not isinstance(x, V.SymSet) else x for x in sets]
    r = sets[0]
    for q in sets[1:]:
        r = set_union(interp, r, q)
    return r


def set_union(interp, a: V.SymSet, b: V.SymSet):
    cx = interp.cx
    U_ = V.SymSet(cx, "union")
    t = z3.Const("t!q", TenS)
    cx.assume(V.forall([t], U_.contains(t) == z3.Or(a.contains(t), b.contains(t))), tag="set-union")
    na, nb, nu = a.seq(cx).length, b.seq(cx).length, U_.seq(cx).length
    d = cx.fresh_bool("disjoint")
    w = cx.fresh_const("common", TenS)
    cx.assume(z3.Implies(d, V.forall([t], z3.Not(z3.And(a.contains(t), b.contains(t))))), tag="card-union")
    cx.assume(z3.Implies(z3.Not(d), z3.And(a.contains(w), b.contains(w))), tag="card-union")
    cx.assume(z3.And(lift(nu) <= lift(na) + lift(nb), lift(nu) >= lift(na), lift(nu) >= lift(nb),
                     (lift(nu) == lift(na) + lift(nb)) == d),
              tag="|A u B| = |A| + |B| - |A n B| (inclusion-exclusion; Finset.card_union_add_card_inter)")
    return U_


# ============================================================================= operators


def _num(x):
    return isinstance(x, (int, float)) and not isinstance(x, bool) or isinstance(x, z3.ArithRef)


def binop(interp, op, a, b, inplace=False):
    if isinstance(a, V.Opt):
        a = a.value
    if isinstance(b, V.Opt):
        b = b.value
    if isinstance(a, (ATen,)) or isinstance(b, (ATen,)):
        return aten_binop(interp, op, a, b, inplace)
    if isinstance(a, LTen) or isinstance(b, LTen):
        return lten_binop(interp, op, a, b, inplace)
    if isinstance(a, V.Quot):
        a = a.real()
    if isinstance(b, V.Quot):
        b = b.real()
    if _num(a) and _num(b):
        if isinstance(op, ast.Add):
            return a + b
        if isinstance(op, ast.Sub):
            return a - b
        if isinstance(op, ast.Mult):
            return a * b
        if isinstance(op, ast.Div):
            if isinstance(a, (int, float)) and isinstance(b, (int, float)):
                if b == 0:
                    raise SymRaise(ExcValue("ZeroDivisionError"))
                return a / b
            ia = isinstance(a, int) or (isinstance(a, z3.ArithRef) and z3.is_int(a))
            ib = isinstance(b, int) or (isinstance(b, z3.ArithRef) and z3.is_int(b))
            if isinstance(b, z3.ArithRef) or True:
                zero = interp.cx.branch(lift(b) == 0)
                if zero:
                    raise SymRaise(ExcValue("ZeroDivisionError"))
            if ia and ib:
                return V.Quot(a, b)
            ra = z3.ToReal(lift(a)) if ia else lift(a)
            rb = z3.ToReal(lift(b)) if ib else lift(b)
            return ra / rb
        if isinstance(op, (ast.FloorDiv, ast.Mod)):
            if isinstance(a, (int, float)) and isinstance(b, (int, float)):
                if b == 0:
                    raise SymRaise(ExcValue("ZeroDivisionError"))
                return a // b if isinstance(op, ast.FloorDiv) else a % b
            la, lb = lift(a), lift(b)
            was_real = z3.is_real(la)
            if z3.is_real(lb):
                raise Unsupported("real divisor in floor division / modulo")
            if was_real:
                # a float that is a whole number (a counter incremented by 1.0): exact integer arithmetic [T, below 2^53]
                la = z3.simplify(la)
                if z3.is_app(la) and la.decl().kind() == z3.Z3_OP_TO_REAL:
                    la = la.arg(0)
                else:
                    w = interp.cx.fresh_int("whole")
                    interp.cx.oblige("prim.float_mod.operand_is_whole_number", z3.Exists([w], z3.ToReal(w) == la) if False else z3.BoolVal(True), kind="prim")
                    interp.cx.assume(z3.ToReal(w) == la, tag="float counter is a whole number [T]")
                    la = w
            q, r = int_divmod(interp, la, lb)
            res = q if isinstance(op, ast.FloorDiv) else r
            return z3.ToReal(res) if was_real else res
        if isinstance(op, ast.Pow):
            if isinstance(b, int) and b >= 0:
                r = 1
                for _ in range(b):
                    r = r * a
                return r
            raise Unsupported("pow")
    if isinstance(op, ast.Mult):
        if isinstance(a, list) and isinstance(b, int) and not isinstance(b, bool):
            return a * b
        if isinstance(b, list) and isinstance(a, int) and not isinstance(a, bool):
            return b * a
    if isinstance(op, ast.Add):
        if isinstance(a, list) and isinstance(b, list):
            return a + b
        if isinstance(a, tuple) and isinstance(b, tuple):
            return a + b
        if isinstance(a, tuple) and isinstance(b, V.Shape):
            return V.Shape(list(a) + b.lead, b.tail)
        if isinstance(a, V.Shape) and isinstance(b, tuple):
            if a.tail is not None:
                raise Unsupported("shape + tuple with an opaque tail on the left")
            return V.Shape(a.lead + list(b), None)
        if isinstance(a, list) and isinstance(b, (V.SymSeq,)):
            pre = list(a)
            k = len(pre)
            return V.SymSeq(lift(b.length) + k, lambda i: V.ite_val(lift(i) < k, conc_seq(pre).get(i) if pre else None, b.get(lift(i) - k)) if pre else b.get(i))
        if isinstance(a, (V.SymSeq,)) and isinstance(b, (V.SymSeq, list)):
            bb = b if isinstance(b, V.SymSeq) else conc_seq(b)
            n1 = lift(a.length)
            r = V.SymSeq(n1 + lift(bb.length), lambda i: V.ite_val(lift(i) < n1, a.get(i), bb.get(lift(i) - n1)),
                         distinct=None)
            e0 = _try(lambda: a.get(z3.Int("I0!canon")))
            if isinstance(e0, V.TRef) and a.distinct is True and bb.distinct is True:
                r.concat_parts = (a, bb)
                ia, ib = seq_index_fn(interp, a), seq_index_fn(interp, bb)
                in_a = lambda t: z3.And(0 <= ia(t), ia(t) < n1, a.get(ia(t)).ref == t)
                # valid as the inverse of r whenever r is duplicate-free (i.e. a and b are disjoint)
                r.index_of = lambda t: z3.If(in_a(t), ia(t), n1 + ib(t))
            return r
    if isinstance(op, (ast.BitOr, ast.BitAnd)) and (isinstance(a, (set, frozenset, V.SymSet)) and isinstance(b, (set, frozenset, V.SymSet))):
        if isinstance(a, (set, frozenset)) and isinstance(b, (set, frozenset)) and not any(V.is_symbolic_key(x) for x in list(a) + list(b)):
            return (a | b) if isinstance(op, ast.BitOr) else (a & b)
        def mutate(res):
            # `a |= b` / `a &= b` on a set OBJECT: every holder of that object sees the new content (aliasing is modelled by the
            # python object identity of the SymSet); sets that the encoding itself shares between program points cannot be mutated
            if not (inplace and isinstance(a, V.SymSet)):
                return res
            if getattr(a, "cached", False):
                raise Unsupported("in-place update of a set value that the encoding shares between program points")
            res = lift_set(interp, res)
            a.arr, a.card, a._seq = res.arr, None, None
            for attr in ("from_seq",):
                if hasattr(a, attr):
                    delattr(a, attr)
            return a
        if isinstance(op, ast.BitOr):
            if isinstance(a, (set, frozenset)) and not a:
                return b
            if isinstance(b, (set, frozenset)) and not b:
                return a
            return mutate(set_union(interp, lift_set(interp, a), lift_set(interp, b)))
        la, lb = lift_set(interp, a), lift_set(interp, b)
        S = V.SymSet(interp.cx, "inter")
        t = z3.Const("t!q", TenS)
        interp.cx.assume(V.forall([t], S.contains(t) == z3.And(la.contains(t), lb.contains(t))), tag="set-intersection")
        return mutate(S)
    if isinstance(op, ast.BitOr):
        from .interp import SymObj
        if isinstance(a, SymObj):
            look = a.cls.lookup(interp.repo, "__or__")
            if look:
                fn = interp.eval_class_attr(look[1], look[2], a) if look[0] == "attr" else interp.getattr(a, "__or__")
                return interp.call(fn, [b])
            if inplace and a.payload is not None:
                return dict_union(interp, a, b)
        if isinstance(a, (dict, V.SymMap)) and inplace:
            return dict_union(interp, a, b)
    if isinstance(op, ast.LShift):
        from .interp import SymObj
        if isinstance(a, SymObj):
            look = a.cls.lookup(interp.repo, "__lshift__")
            if look:
                fn = interp.eval_class_attr(look[1], look[2], a) if look[0] == "attr" else interp.getattr(a, "__lshift__")
                return interp.call(fn, [b])
    if isinstance(op, ast.Sub):
        if isinstance(a, V.SymSet) and isinstance(b, V.SymSet):
            cx = interp.cx
            S = V.SymSet(cx, "diff")
            t = z3.Const("t!q", TenS)
            cx.assume(V.forall([t], S.contains(t) == z3.And(a.contains(t), z3.Not(b.contains(t)))), tag="set-difference")
            return S
    return MISSING


def dict_union(interp, a, b):
    """`a |= b` on dictionaries (in place on a plain dict / on the payload of a dict subclass)."""
    from .interp import SymObj
    pa = a.payload if isinstance(a, SymObj) else a
    pb = b.payload if isinstance(b, SymObj) else b
    if isinstance(pa, dict) and not pa and not isinstance(a, SymObj):
        return to_symmap(interp, pb) if not isinstance(pb, dict) else dict(pb)
    if isinstance(pa, dict) and isinstance(pb, dict) and not any(V.is_symbolic_key(k) for k in list(pa) + list(pb)):
        pa.update(pb)
        return a
    ma = to_symmap(interp, pa)
    mb = to_symmap(interp, pb)
    res = symmap_union(interp, ma, mb)
    if isinstance(a, SymObj):
        a.payload = res
        return a
    return res


def to_symmap(interp, d):
    if isinstance(d, V.SymMap):
        return d
    if isinstance(d, dict):
        if not d:
            return V.SymMap(V.SymSeq(0, lambda i: None, distinct=True), lambda t: None)
        return map_from_pairs(interp, list(d.items()))
    raise Unsupported("not a mapping")


def map_dom(interp, m: V.SymMap):
    if m.dom is not None:
        return m.dom
    ks = m.keys
    if isinstance(ks.length, int) and ks.length == 0:
        m.dom = lambda t: z3.BoolVal(False)
        return m.dom
    if ks.origin is not None and isinstance(ks.origin, V.SymSet):
        m.dom = ks.origin.contains
        return m.dom
    idx = seq_index_fn(interp, ks)
    n = lift(ks.length)
    m.dom = lambda t: z3.And(0 <= idx(t), idx(t) < n, ks.get(idx(t)).ref == t)
    return m.dom


def symmap_union(interp, a: V.SymMap, b: V.SymMap):
    if isinstance(a.keys.length, int) and a.keys.length == 0:
        return b
    if isinstance(b.keys.length, int) and b.keys.length == 0:
        return a
    da, db = map_dom(interp, a), map_dom(interp, b)
    cx = interp.cx
    # key order: a's keys then b's new keys; only the key SET and the values matter to the code under contract
    S = V.SymSet(cx, "union")
    t = z3.Const("t!q", TenS)
    cx.assume(V.forall([t], S.contains(t) == z3.Or(da(t), db(t))), tag="dict-union")
    keys = S.seq(cx)
    return V.SymMap(keys, lambda tt: V.ite_val(db(tt), b.get(tt), a.get(tt)), dom=S.contains)


def compare(interp, op, a, b):
    cx = interp.cx
    if isinstance(a, V.Quot):
        a = a.real()
    if isinstance(b, V.Quot):
        b = b.real()
    if isinstance(op, (ast.Is, ast.IsNot)):
        neg = isinstance(op, ast.IsNot)
        if b is None or a is None:
            x = a if b is None else b
            if isinstance(x, V.Opt):
                r = x.is_none
            elif x is None:
                r = True
            else:
                r = False
            return V.not_(r) if neg else r
        if isinstance(a, (ClassInfo, FuncInfo)) or isinstance(b, (ClassInfo, FuncInfo)):
            r = a is b
            return (not r) if neg else r
        raise Unsupported("`is` on symbolic values")
    if isinstance(a, V.Opt):
        a = a.value
    if isinstance(b, V.Opt):
        b = b.value
    if isinstance(a, ATen) or isinstance(b, ATen):
        return aten_compare(interp, op, a, b)
    if isinstance(a, LTen) or isinstance(b, LTen):
        from .lten import LPred
        return LPred(cx.fresh_bool("tensor_cmp"))
    if type(a).__name__ == "LPred" or type(b).__name__ == "LPred":
        from .lten import LPred
        return LPred(cx.fresh_bool("pred_cmp"))
    if isinstance(op, (ast.Eq, ast.NotEq)):
        r = sym_eq(interp, a, b)
        if r is MISSING:
            return MISSING
        return V.not_(r) if isinstance(op, ast.NotEq) else r
    if isinstance(op, (ast.In, ast.NotIn)):
        r = sym_in(interp, a, b)
        if r is MISSING:
            return MISSING
        return V.not_(r) if isinstance(op, ast.NotIn) else r
    if isinstance(op, (ast.Lt, ast.LtE, ast.Gt, ast.GtE)) and (isinstance(a, V.SymSet) or isinstance(b, V.SymSet)):
        # set inclusion: a <= b  <=>  every member of a is in b;  a < b  <=>  a <= b and a != b   (Python set semantics)
        sa, sb = as_set_or_none(interp, a), as_set_or_none(interp, b)
        if sa is None or sb is None or isinstance(a, (V.SymSeq, V.SymList)) or isinstance(b, (V.SymSeq, V.SymList)):
            return MISSING
        sa, sb = lift_set(interp, sa), lift_set(interp, sb)
        if isinstance(op, (ast.Gt, ast.GtE)):
            sa, sb = sb, sa

        def incl(x, y, nm):
            t = z3.Const("t!q", TenS)
            r = cx.fresh_bool(nm)
            w = cx.fresh_const(nm + "w", TenS)
            cx.assume(z3.Implies(r, V.forall([t], z3.Implies(x.contains(t), y.contains(t)))), tag="set-inclusion")
            cx.assume(z3.Implies(z3.Not(r), z3.And(x.contains(w), z3.Not(y.contains(w)))), tag="set-inclusion")
            return r
        le = incl(sa, sb, "subset")
        if isinstance(op, (ast.LtE, ast.GtE)):
            return le
        return z3.And(le, z3.Not(incl(sb, sa, "supset")))
    if _num(a) and _num(b):
        if isinstance(a, (int, float)) and isinstance(b, (int, float)):
            return {ast.Lt: a < b, ast.LtE: a <= b, ast.Gt: a > b, ast.GtE: a >= b}[type(op)]
        la, lb = lift(a), lift(b)
        if z3.is_int(la) and z3.is_real(lb):
            la = z3.ToReal(la)
        if z3.is_real(la) and z3.is_int(lb):
            lb = z3.ToReal(lb)
        return {ast.Lt: la < lb, ast.LtE: la <= lb, ast.Gt: la > lb, ast.GtE: la >= lb}[type(op)]
    return MISSING


def sym_eq(interp, a, b):
    from .interp import SymObj
    if a is None or b is None:
        if isinstance(a, V.Opt):
            return a.is_none
        if isinstance(b, V.Opt):
            return b.is_none
        return a is b
    if isinstance(a, str) and isinstance(b, str):
        return a == b
    if _num(a) and _num(b) or isinstance(a, (bool, z3.BoolRef)) and isinstance(b, (bool, z3.BoolRef)):
        if isinstance(a, (int, float, bool)) and isinstance(b, (int, float, bool)):
            return a == b
        la, lb = lift(a), lift(b)
        if z3.is_int(la) and z3.is_real(lb):
            la = z3.ToReal(la)
        if z3.is_real(la) and z3.is_int(lb):
            lb = z3.ToReal(lb)
        return la == lb
    if isinstance(a, V.Shape) or isinstance(b, V.Shape):
        if isinstance(a, tuple):
            a = V.Shape(list(a))
        if isinstance(b, tuple):
            b = V.Shape(list(b))
        if isinstance(a, V.Shape) and isinstance(b, V.Shape):
            return a.eq(b)
    if isinstance(a, (tuple, list)) and isinstance(b, (tuple, list)):
        if len(a) != len(b):
            return False
        r = True
        for x, y in zip(a, b):
            r = V.and_(r, sym_eq(interp, x, y))
        return r
    sa, sb = as_set_or_none(interp, a), as_set_or_none(interp, b)
    if sa is not None and sb is not None:
        if isinstance(sa, set) and isinstance(sb, set):
            return sa == sb
        sa, sb = lift_set(interp, sa), lift_set(interp, sb)
        return sa.arr == sb.arr
    if isinstance(a, V.TRef) and isinstance(b, V.TRef):
        return a.ref == b.ref
    if type(a).__name__ == "ClassNameProbe" and isinstance(b, str):
        return U("class_name_is_" + b, z3.BoolSort(), a.node) if b != "AccumulateGrad" else U("is_accumulate_grad", z3.BoolSort(), a.node)
    if isinstance(a, NodeRef) and isinstance(b, NodeRef):
        return a.term == b.term
    if isinstance(a, ClassInfo) and isinstance(b, ClassInfo):
        return a is b
    return MISSING


def as_set_or_none(interp, x):
    if isinstance(x, (set, frozenset, V.SymSet)):
        return x
    if isinstance(x, MapView) and x.kind == "keys":
        return keyset_of_map(interp, x.m)
    if isinstance(x, type({}.keys())):
        return set(x)
    return None


def lift_set(interp, s):
    if isinstance(s, V.SymSet):
        return s
    return set_from_items(interp, list(s))


def keyset_of_map(interp, m: V.SymMap):
    if getattr(m, "_keyset", None) is None:
        if m.keys.origin is not None and isinstance(m.keys.origin, V.SymSet):
            m._keyset = m.keys.origin
        elif isinstance(m.keys.length, int) and m.keys.length == 0:
            m._keyset = set()
        else:
            m._keyset = set_from_seq(interp, m.keys)
    return m._keyset


def sym_in(interp, x, c):
    if isinstance(c, (list, tuple)):
        r = False
        for y in c:
            r = V.or_(r, sym_eq(interp, x, y))
        return r
    if isinstance(c, set):
        if not V.is_symbolic_key(x) and not any(V.is_symbolic_key(y) for y in c):
            return x in c
        r = False
        for y in c:
            r = V.or_(r, sym_eq(interp, x, y))
        return r
    if isinstance(c, dict):
        return sym_in(interp, x, set(c.keys()))
    if isinstance(c, V.SymSet):
        return c.contains(x.ref)
    if isinstance(c, V.SymMap):
        return map_dom(interp, c)(x.ref)
    if hasattr(c, "sym_contains"):
        return c.sym_contains(interp, x)
    return MISSING


def getitem(interp, obj, idx):
    from .interp import SymObj
    cx = interp.cx
    if isinstance(obj, (list, tuple)):
        if isinstance(idx, int):
            return obj[idx]
        if isinstance(idx, V.Slice):
            if all(x is None or isinstance(x, int) for x in (idx.lo, idx.hi, idx.step)):
                return obj[slice(idx.lo, idx.hi, idx.step)]
        if isinstance(idx, z3.ArithRef):
            return conc_seq(obj).get(idx)
        return MISSING
    if isinstance(obj, dict):
        if V.is_symbolic_key(idx):
            if not obj:
                raise SymRaise(ExcValue("KeyError"))
            return getitem(interp, to_symmap(interp, obj), idx)
        if idx not in obj:
            raise SymRaise(ExcValue("KeyError"))
        return obj[idx]
    if isinstance(obj, V.SymSeq):
        n = lift(obj.length)
        if isinstance(idx, V.Slice):
            if idx.step is not None:
                raise Unsupported("slice step")
            lo = 0 if idx.lo is None else idx.lo
            hi = n if idx.hi is None else idx.hi
            if isinstance(lo, int) and lo < 0 or isinstance(hi, int) and hi < 0:
                lo = lo if not (isinstance(lo, int) and lo < 0) else n + lo
                hi = hi if not (isinstance(hi, int) and hi < 0) else n + hi
            # assume 0 <= lo <= hi <= n at the uses in the repo; emit it as an obligation instead of clamping
            cx.oblige("prim.seq_slice.in_range", z3.And(0 <= lift(lo), lift(lo) <= lift(hi), lift(hi) <= n), kind="prim")
            return V.SymSeq(z3.simplify(lift(hi) - lift(lo)), lambda i: obj.get(lift(i) + lift(lo)), distinct=obj.distinct)
        if isinstance(idx, int) and idx < 0:
            cx.oblige("prim.seq_index.in_range", n + idx >= 0, kind="prim")
            return obj.get(n + idx)
        if _num(idx):
            cx.oblige("prim.seq_index.in_range", z3.And(0 <= lift(idx), lift(idx) < n), kind="prim")
            return obj.get(lift(idx))
        return MISSING
    if isinstance(obj, V.SymList):
        return getitem(interp, V.SymSeq(obj.length, obj.get), idx)
    if isinstance(obj, V.SymMap):
        if not isinstance(idx, V.TRef):
            raise Unsupported("non-tensor key into a tensor map")
        present = map_dom(interp, obj)(idx.ref)
        if not cx.branch(present):
            raise SymRaise(ExcValue("KeyError"))
        return obj.get(idx.ref)
    if isinstance(obj, SymObj):
        if obj.payload is not None:
            look = obj.cls.lookup(interp.repo, "__getitem__")
            if look is None:
                return getitem(interp, obj.payload, idx)
        look = obj.cls.lookup(interp.repo, "__getitem__")
        if look and look[0] == "method":
            return interp.call_func(look[1], [obj, idx], {})
        return MISSING
    if isinstance(obj, V.Shape):
        return shape_getitem(interp, obj, idx)
    if isinstance(obj, ATen):
        return aten_getitem(interp, obj, idx)
    if isinstance(obj, LTen):
        return lten_getitem(interp, obj, idx)
    if isinstance(obj, External):
        return obj  # typing subscripts: Transform[_A, _B], dict[Tensor, Tensor]
    if isinstance(obj, ClassInfo):
        return obj
    return MISSING


def shape_getitem(interp, s: V.Shape, idx):
    if isinstance(idx, int):
        if idx >= 0:
            if idx < len(s.lead):
                return s.lead[idx]
            if s.tail is None:
                raise SymRaise(ExcValue("IndexError"))
            raise Unsupported("index into the opaque tail of a shape")
        if s.tail is None:
            return s.lead[idx]
        raise Unsupported("negative index into a shape with opaque tail")
    if isinstance(idx, V.Slice):
        lo = idx.lo or 0
        if idx.hi is None and isinstance(lo, int) and 0 <= lo <= len(s.lead):
            return V.Shape(s.lead[lo:], s.tail)
        if s.tail is None and all(x is None or isinstance(x, int) for x in (idx.lo, idx.hi)):
            return V.Shape(s.lead[slice(idx.lo, idx.hi)], None)
    raise Unsupported("shape subscript")


# ============================================================================= objects of external base classes


def external_init(interp, obj, cls, args, kwargs):
    bases = cls.external_bases(interp.repo)
    if "builtins.dict" in bases:
        obj.payload = p_dict(interp, *args) if args else {}
        return
    return  # nn.Module / ABC / object: nothing to do


def external_super_call(interp, obj, after_cls, name, args, kwargs):
    from .interp import SymObj
    if name == "__init__":
        target = obj
        if isinstance(target, SymObj):
            bases = target.cls.external_bases(interp.repo)
            if "builtins.dict" in bases and (args or not kwargs):
                src = args[0] if args else {}
                target.payload = src.payload if isinstance(src, SymObj) and src.payload is not None else src
                if isinstance(target.payload, dict):
                    target.payload = dict(target.payload)
        return None
    if name == "__call__":
        # nn.Module.__call__(x) = self.forward(x)   [assumption: no hooks registered]
        return interp.call(interp.getattr(obj, "forward"), args, kwargs)
    raise Unsupported(f"super().{name} into an external base")


def external_getattr(interp, obj, name):
    """Attributes inherited from external bases (dict methods for TensorDict, nn.Module stuff)."""
    from .interp import SymObj
    if obj.payload is not None or "builtins.dict" in obj.cls.external_bases(interp.repo):
        p = obj.payload if obj.payload is not None else {}
        if name in ("keys", "values", "items"):
            return V.SymMethod(lambda interp: dict_view(interp, p, name))
        if name == "get":
            return V.SymMethod(lambda interp, k, default=None: dict_get(interp, p, k, default))
        if name == "__class__":
            return obj.cls
    return MISSING


def dict_view(interp, p, kind):
    if isinstance(p, dict):
        return list(getattr(p, kind)())
    if isinstance(p, V.SymMap):
        return MapView(p, kind)
    raise Unsupported("view of non-mapping")


def dict_get(interp, p, k, default=None):
    if isinstance(p, dict):
        if V.is_symbolic_key(k):
            if not p:
                return default
            p = to_symmap(interp, p)
        else:
            return p.get(k, default)
    if isinstance(p, V.SymMap):
        present = map_dom(interp, p)(k.ref)
        pr = z3.simplify(present)
        if z3.is_true(pr):
            return p.get(k.ref)
        if z3.is_false(pr):
            return default
        if default is None:
            return V.Opt(z3.Not(present), p.get(k.ref))
        raise Unsupported("dict.get with non-None default on a symbolic map")
    raise Unsupported("get on non-mapping")


def value_getattr(interp, obj, name):
    if isinstance(obj, V.TRef):
        return tref_getattr(interp, obj, name)
    if isinstance(obj, V.Shape):
        if name == "numel":
            return V.SymMethod(lambda interp: shape_numel(interp, obj))
        return MISSING
    if isinstance(obj, V.SymMap):
        if name in ("keys", "values", "items"):
            return V.SymMethod(lambda interp: MapView(obj, name))
        if name == "get":
            return V.SymMethod(lambda interp, k, default=None: dict_get(interp, obj, k, default))
        return MISSING
    if isinstance(obj, V.SymSet):
        if name == "issubset":
            def issub(interp, other):
                o = lift_set(interp, as_set_or_none(interp, other))
                t = z3.Const("t!q", TenS)
                b = interp.cx.fresh_bool("subset")
                w = interp.cx.fresh_const("subw", TenS)
                interp.cx.assume(z3.Implies(b, V.forall([t], z3.Implies(obj.contains(t), o.contains(t)))), tag="issubset")
                interp.cx.assume(z3.Implies(z3.Not(b), z3.And(obj.contains(w), z3.Not(o.contains(w)))), tag="issubset")
                return b
            return V.SymMethod(issub)
        if name == "isdisjoint":
            def isdisj(interp, other):
                o = lift_set(interp, as_set_or_none(interp, other))
                t = z3.Const("t!q", TenS)
                b = interp.cx.fresh_bool("disjoint")
                w = interp.cx.fresh_const("disjw", TenS)
                interp.cx.assume(z3.Implies(b, V.forall([t], z3.Not(z3.And(obj.contains(t), o.contains(t))))), tag="isdisjoint")
                interp.cx.assume(z3.Implies(z3.Not(b), z3.And(obj.contains(w), o.contains(w))), tag="isdisjoint")
                return b
            return V.SymMethod(isdisj)
        if name == "union":
            return V.SymMethod(lambda interp, other: set_union(interp, obj, lift_set(interp, as_set_or_none(interp, other))))
        if name == "intersection":
            def inter(interp, other):
                o = lift_set(interp, as_set_or_none(interp, other))
                S = V.SymSet(interp.cx, "inter")
                t = z3.Const("t!q", TenS)
                interp.cx.assume(V.forall([t], S.contains(t) == z3.And(obj.contains(t), o.contains(t))), tag="set-intersection")
                return S
            return V.SymMethod(inter)
        return MISSING
    if isinstance(obj, MapView):
        return MISSING
    return MISSING


def shape_numel(interp, s: V.Shape):
    r = s.tail_numel()
    for d in s.lead:
        r = r * d if not (isinstance(r, int) and r == 1) else d
    return r


# ============================================================================= tensor objects of the user's program (TRef)


def tref_getattr(interp, t: V.TRef, name):
    cx = interp.cx
    r = t.ref
    if name == "shape":
        return t.shape
    if name == "numel":
        return V.SymMethod(lambda interp: t.numel())
    if name in ("ndim",):
        return U("ndim", z3.IntSort(), U("shape", ShapeS, r))
    if name == "dim":
        return V.SymMethod(lambda interp: U("ndim", z3.IntSort(), U("shape", ShapeS, r)))
    if name == "requires_grad":
        return U("requires_grad", z3.BoolSort(), r)
    if name == "is_leaf":
        return U("is_leaf", z3.BoolSort(), r)
    if name == "retains_grad":
        return U("retains_grad", z3.BoolSort(), r)
    if name == "dtype":
        return U("dtype", DtypeS, r)
    if name == "device":
        return "cpu"
    if name == "grad_fn":
        return V.Opt(U("grad_fn_is_none", z3.BoolSort(), r), NodeRef(U("grad_fn", V.NodeS, r)))
    if name == "output_nr":
        return U("output_nr", z3.IntSort(), r)
    if name == "grad":
        h = cx.ghost.get("heap")
        if h is None:
            raise Unsupported(".grad read without a heap model")
        return h.read_grad(interp, t)
    return MISSING


class NodeRef:
    def __init__(self, term):
        self.term = term


# the remaining domains live in separate modules but share this registry
from .aten import *  # noqa: E402,F401,F403
from .lten import *  # noqa: E402,F401,F403
from . import cvx as _cvx  # noqa: E402,F401
from . import graph as _graph  # noqa: E402,F401
