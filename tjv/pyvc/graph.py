"""Autograd-graph domain for the traversal contracts (C12): nodes are elements of the uninterpreted sort Node;
`node.next_functions` is a symbolic-length list of (child | None, output index); node sets are mutable
membership predicates; the deque is abstracted to the SET of queued nodes (popleft removes an arbitrary queued
node: the traversal order is irrelevant to the result)."""
from __future__ import annotations

import z3

from . import values as V
from .core import ExcValue, SymRaise
from .loader import Unsupported
from .prims import NodeRef, prim
from .values import MISSING, NodeS, U, lift

IntS, BoolS = z3.IntSort(), z3.BoolSort()


def nf_len(n):
    return U("nf_len", IntS, n)


def nf_child(n, k):
    return U("nf_child", NodeS, n, lift(k))


def nf_none(n, k):
    return U("nf_is_none", BoolS, n, lift(k))


def nf_idx(n, k):
    return U("nf_index", IntS, n, lift(k))


def is_acc(n):
    return U("is_accumulate_grad", BoolS, n)


class NodeSet:
    def __init__(self, cx, name="N", pred=None):
        if pred is None:
            a = cx.fresh_const(name, z3.ArraySort(NodeS, BoolS))
            pred = lambda x, a=a: z3.Select(a, x)  # noqa: E731
        self.pred = pred

    def contains(self, x):
        return self.pred(x)

    def sym_getattr(self, interp, name):
        if name == "add":
            def add(interp, n):
                n = n.value if isinstance(n, V.Opt) else n
                old, t = self.pred, n.term
                self.pred = lambda x: z3.Or(x == t, old(x))
            return V.SymMethod(add)
        return MISSING

    def sym_contains(self, interp, x):
        x = x.value if isinstance(x, V.Opt) else x
        return self.contains(x.term)

    def sym_setcomp(self, interp, e, g, frame):
        """{f(node) for node in self}  with a tensor-valued f  ->  SymSet of tensors (the image of the node set)"""
        import ast
        from .interp import Frame
        cx = interp.cx
        if g.ifs or not isinstance(g.target, ast.Name):
            raise Unsupported("filtered / destructuring set comprehension over a node set")
        n0 = cx.fresh_const("cn", NodeS)
        f2 = Frame(frame.func, frame.module, parent=frame, cls=frame.cls)
        f2.qual = getattr(frame, "qual", "?")
        f2.self_obj = frame.self_obj
        interp.assign(g.target, NodeRef(n0), f2)
        r0 = interp.eval(e.elt, f2)
        if not isinstance(r0, V.TRef):
            raise Unsupported("set comprehension over a node set whose element is not a tensor")
        img = lambda n: z3.substitute(r0.ref, (n0, n))  # noqa: E731
        S = V.SymSet(cx, "image")
        w = cx.fresh_func("imgw", V.TenS, NodeS)
        x, t = z3.Const("x!q", NodeS), z3.Const("t!q", V.TenS)
        cx.assume(V.forall([x], z3.Implies(self.contains(x), S.contains(img(x)))), tag="image of a node set")
        cx.assume(V.forall([t], z3.Implies(S.contains(t), z3.And(self.contains(w(t)), img(w(t)) == t)), patterns=[S.contains(t)]),
                  tag="image of a node set")
        return S


class EdgeSet:
    """set of (node, output index) pairs"""

    def __init__(self, cx, name="E"):
        self.f = cx.fresh_func(name, NodeS, IntS, BoolS)

    def contains(self, n, i):
        return self.f(n, lift(i))

    def sym_contains(self, interp, x):
        n, i = x
        n = n.value if isinstance(n, V.Opt) else n
        return self.contains(n.term, i)

    def sym_setcomp(self, interp, e, g, frame):
        """{node for node, index in self if cond(node, index)}  ->  NodeSet  (the element must be the node)"""
        import ast
        from .interp import Frame
        cx = interp.cx
        if not (isinstance(g.target, ast.Tuple) and len(g.target.elts) == 2 and isinstance(e.elt, ast.Name)
                and isinstance(g.target.elts[0], ast.Name) and e.elt.id == g.target.elts[0].id):
            raise Unsupported("set comprehension over an edge set that does not select the node")
        n0, i0 = cx.fresh_const("cn", NodeS), cx.fresh_int("ci")

        def cond_at(n, i):
            f2 = Frame(frame.func, frame.module, parent=frame, cls=frame.cls)
            f2.qual = getattr(frame, "qual", "?")
            f2.self_obj = frame.self_obj
            interp.assign(g.target, (NodeRef(n), i), f2)
            c = True
            for cnd in g.ifs:
                c = V.and_(c, interp.truth(interp.eval(cnd, f2)))
            return lift(c)
        c0 = cond_at(n0, i0)
        S = NodeSet(cx, "comp")
        w = cx.fresh_func("compw", NodeS, IntS)
        x, i = z3.Const("x!q", NodeS), z3.Int("i!q")
        body = lambda n, k: z3.And(self.contains(n, k), z3.substitute(c0, (n0, n), (i0, k)))  # noqa: E731
        cx.assume(V.forall([x], z3.Implies(S.contains(x), body(x, w(x)))), tag="set-comprehension over edges")
        cx.assume(V.forall([x, i], z3.Implies(body(x, i), S.contains(x))), tag="set-comprehension over edges")
        return S


class NodeQueue:
    """collections.deque of nodes, abstracted to the set of queued nodes."""

    def __init__(self, cx, pred):
        self.pred = pred
        self.cx = cx

    def contains(self, x):
        return self.pred(x)

    def sym_truth(self, interp):
        cx = interp.cx
        b = cx.fresh_bool("queue_nonempty")
        w = cx.fresh_const("queued", NodeS)
        x = z3.Const("x!q", NodeS)
        cx.assume(z3.Implies(b, self.pred(w)), tag="deque truthiness")
        cx.assume(z3.Implies(z3.Not(b), V.forall([x], z3.Not(self.pred(x)))), tag="deque truthiness")
        return b

    def sym_getattr(self, interp, name):
        cx = interp.cx
        if name == "popleft":
            def pop(interp):
                p = cx.fresh_const("popped", NodeS)
                old = self.pred
                x = z3.Const("x!q", NodeS)
                nonempty = cx.fresh_bool("pop_nonempty")
                cx.assume(z3.Implies(z3.Not(nonempty), V.forall([x], z3.Not(old(x)))))
                if not cx.branch(nonempty):
                    raise SymRaise(ExcValue("IndexError"))
                cx.assume(old(p), tag="popleft returns a queued node")
                self.pred = lambda y: z3.And(y != p, old(y))
                return NodeRef(p)
            return V.SymMethod(pop)
        if name == "append":
            def app(interp, n):
                n = n.value if isinstance(n, V.Opt) else n
                old, t = self.pred, n.term
                self.pred = lambda y: z3.Or(y == t, old(y))
            return V.SymMethod(app)
        return MISSING


@prim("collections.deque")
def p_deque(interp, x=()):
    if isinstance(x, NodeSet):
        return NodeQueue(interp.cx, x.pred)
    raise Unsupported("deque of a non-node collection")


class ClassProbe:
    def __init__(self, node):
        self.node = node

    def sym_getattr(self, interp, name):
        if name == "__name__":
            return ClassNameProbe(self.node)
        return MISSING


class ClassNameProbe:
    def __init__(self, node):
        self.node = node


def node_getattr(interp, n: NodeRef, name):
    if name == "__class__":
        return ClassProbe(n.term)
    if name == "next_functions":
        t = n.term
        return V.SymSeq(nf_len(t), lambda k: (V.Opt(nf_none(t, k), NodeRef(nf_child(t, k))), nf_idx(t, k)))
    if name == "variable":
        return V.TRef(U("variable", V.TenS, n.term))
    return MISSING


NodeRef.sym_getattr = lambda self, interp, name: node_getattr(interp, self, name)
