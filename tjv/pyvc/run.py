"""Deductive arm entry point: run_property(prop, tier, repo_root) -> dict for the driver.

For every check of the property's sidecar contract module (tjv/contracts/<prop>.py) the real function is
executed symbolically from the AST of the current tree, the obligations it generates are discharged with z3
(thorough: cross-checked with cvc5), each obligation instance also gets a cover query (its hypotheses must be
satisfiable — vacuity guard), and a per-check canary (a false goal under the same hypotheses) must be refuted."""
from __future__ import annotations

import importlib
import os
import time
import traceback

import z3

from . import prims
from .core import Ctx, Obligation, PathResult, SymRaise, cvc5_check, discharge, explore
from .interp import Interp, LoopSpec
from .loader import DROPPED, Repo, Unsupported


class Check:
    """One contract check: `fn(H)` explores the function(s) under contract and emits obligations."""

    def __init__(self, name, functions, fn, kind="P", replay_keys=(), focus=None, doc=""):
        self.name = name
        self.functions = functions if isinstance(functions, (list, tuple)) else [functions]
        self.fn = fn
        self.kind = kind
        self.replay_keys = list(replay_keys)
        self.focus = focus
        self.doc = doc


class Harness:
    def __init__(self, repo: Repo, check: Check):
        self.repo = repo
        self.check = check
        self.obligations = []  # (Obligation)
        self.paths = 0
        self.called = set()

    def func(self, qualname):
        f = self.repo.get(qualname)
        if f is None:
            raise Unsupported(f"function under contract not found: {qualname}")
        return f

    def interp(self, cx, loop_specs=None, overrides=None):
        it = Interp(self.repo, cx, prims, loop_specs=loop_specs, overrides=overrides)
        it._harness = self
        it.called = self.called   # every real function body entered symbolically (overridden callees are not entered)
        cx.ghost["interp"] = it
        return it

    def explore(self, body, max_paths=400):
        """body(cx) -> any.  Exceptions SymRaise escaping body are ordinary outcomes."""
        results = explore(body, max_paths=max_paths)
        for r in results:
            self.paths += 1
            # vacuity guard (cover query), once per path: the final path condition must be satisfiable; only when it
            # is not are the obligations of the path checked one by one
            if r.ctx.obligations:
                s = z3.Solver()
                s.set("timeout", 1000)
                for h in r.ctx.pc:
                    s.add(h)
                path_ok = s.check() != z3.unsat
                for o in r.ctx.obligations:
                    o.meta["cover_known"] = path_ok
                    o.meta["path_infeasible"] = not path_ok
            else:
                for o in r.ctx.obligations:
                    o.meta["cover_known"] = True
            self.obligations.extend(r.ctx.obligations)
        return results


def _agg(results):
    if any(r == "refuted" for r in results):
        return "refuted"
    if any(r != "discharged" for r in results):
        return next(r for r in results if r != "discharged")
    return "discharged"


def _mentions_arrays(goal):
    """does the goal compare terms of the algebraic tensor sort (uninterpreted operators)?"""
    from .values import ArrS
    st, seen = [goal], set()
    while st:
        e = st.pop()
        if e.get_id() in seen:
            continue
        seen.add(e.get_id())
        if z3.is_quantifier(e):
            continue
        if z3.is_app(e):
            if e.sort() == ArrS:
                return True
            st.extend(e.children())
    return False


def run_check(repo, chk: Check, tier, prefix):
    from . import numeval as _nv
    _nv.MIN_ADMISSIBLE, _nv.MAX_SAMPLES = (40, 400) if tier == "quick" else (150, 1500)   # thorough: deeper sampling before "not realisable"
    _nv.TERM_SHAPES.clear()
    _nv.FUNC_SHAPES.clear()
    H = Harness(repo, chk)
    t0 = time.time()
    out = []
    funcs = []
    for q in chk.functions:
        f = repo.get(q)
        if f is None:
            return [{"name": f"{prefix}.{chk.name}", "function": q, "backend": "z3", "result": "undecided",
                     "reason": f"function under contract not found: {q}", "ms": 0, "kind": chk.kind}], funcs, H
        if hasattr(f, "ast_hash"):
            funcs.append({"function": q, "file": os.path.relpath(f.file, repo.root), "line": f.line, "ast_sha256_16": f.ast_hash()})
        else:
            funcs.append({"function": q, "file": "", "line": 0, "ast_sha256_16": ""})
    try:
        chk.fn(H)
    except Unsupported as e:
        return [{"name": f"{prefix}.{chk.name}", "function": (chk.functions[0] if chk.functions else "(theory lemma)"), "backend": "pyvc", "result": "undecided",
                 "reason": f"outside the supported subset: {e}", "ms": int((time.time() - t0) * 1000), "kind": chk.kind}], funcs, H
    except z3.Z3Exception as e:
        return [{"name": f"{prefix}.{chk.name}", "function": (chk.functions[0] if chk.functions else "(theory lemma)"), "backend": "pyvc", "result": "undecided",
                 "reason": f"encoding error: {e}", "ms": int((time.time() - t0) * 1000), "kind": chk.kind}], funcs, H
    except (KeyError, AttributeError, TypeError, IndexError, ValueError, AssertionError, RecursionError) as e:
        # the sidecar contract (loop invariant, spec builder) no longer matches the shape of the code (renamed local,
        # restructured loop, different value kinds): the obligations cannot be generated -> undecided, never a violation
        tb = traceback.format_exc().strip().splitlines()
        return [{"name": f"{prefix}.{chk.name}", "function": (chk.functions[0] if chk.functions else "(theory lemma)"), "backend": "pyvc", "result": "undecided",
                 "reason": f"sidecar contract does not match the current code: {type(e).__name__}: {e} ({tb[-3].strip() if len(tb) > 2 else ''})",
                 "ms": int((time.time() - t0) * 1000), "kind": chk.kind}], funcs, H
    if not H.obligations:
        return [{"name": f"{prefix}.{chk.name}", "function": (chk.functions[0] if chk.functions else "(theory lemma)"), "backend": "pyvc", "result": "undecided",
                 "reason": "vacuity guard: the check generated zero obligations", "ms": 0, "kind": chk.kind}], funcs, H
    # group obligation instances by name
    groups = {}
    for o in H.obligations:
        groups.setdefault(o.name, []).append(o)
    solver_budget_ms = (150 if tier == "quick" else 900) * 1000
    spent = 0
    dropped = []
    # the contract's own clauses first, preconditions of primitives (`prim.*`) after them: when the solver budget runs out on a changed
    # tree, it should not be a side condition that used it up
    for name, insts in sorted(groups.items(), key=lambda kv: "prim." in kv[0]):
        results, ms, info, vac = [], 0, {}, 0
        for o in insts:
            if "refuted" in results:
                break  # one refuted instance decides the obligation
            if spent > solver_budget_ms:
                results.append("unknown")
                info = {"solver_output": f"solver budget of this check ({solver_budget_ms // 1000} s) exhausted"}
                continue
            if o.meta.get("undecided"):
                # the sidecar contract could not state this clause on this path (e.g. its loop contract was not exercised)
                results.append("unknown")
                info = {"reason": "sidecar contract does not match the current code: " + str(o.meta["undecided"])}
                continue
            if o.meta.get("path_infeasible"):
                vac += 1  # the whole path is infeasible under the full path condition: vacuous instance
                continue
            if ms > solver_budget_ms // 3:
                # one obligation may not starve the others of this check (it is undecided already, or about to be refuted elsewhere)
                results.append("unknown")
                info = info or {"solver_output": f"a third of the solver budget of this check ({solver_budget_ms // 3000} s) spent on this obligation"}
                continue
            # after a timeout the obligation can only end undecided or refuted: the remaining instances get a short budget
            r, t, inf = discharge(o, timeout_ms=30000 if "unknown" not in results else 6000)
            ms += t
            spent += t
            if r == "refuted" and o.meta.get("numeric") is None and _mentions_arrays(o.goal):
                o.meta["numeric"] = {}   # goal-only standard-model check (no real-code replay available)
            if r == "refuted" and o.meta.get("numeric") is not None:
                # algebraic obligation: is the counter-model realisable under the STANDARD interpretation of the operators?
                from . import numeval
                nv = numeval.validate(o, inf.get("model"), o.meta["numeric"], seed=int(os.environ.get("VERIF_SEED", "0") or 0))
                if nv["status"] == "spurious":
                    r = "unknown"
                    if nv.get("unreached_path"):
                        inf = {"reason": "counter-model not realisable: no sampled input satisfies this path's condition under the standard "
                                         f"interpretation of the operators ({nv['samples_tried']} draws incl. boundary values): the path looks "
                                         "unreachable; undecided by the deductive arm"}
                    else:
                        inf = {"reason": "counter-model not realisable: under the standard interpretation of the operators the code term and the "
                                         f"spec term agree on {nv['admissible_samples']} admissible sampled inputs (families {', '.join(nv['families'])}); "
                                         "syntactically different terms, undecided by the deductive arm"}
                else:
                    inf = dict(inf)
                    inf["numeric"] = nv
            if r == "discharged":
                # cover: hypotheses must be satisfiable, else the instance is vacuous
                if not o.meta.get("cover_known", False):
                    s = z3.Solver()
                    s.set("timeout", 3000)
                    for h in o.hyps:
                        s.add(h)
                    if s.check() == z3.unsat:
                        vac += 1
                        continue
                if tier == "thorough":
                    c = cvc5_check(o)
                    if c == "sat":
                        r = "solver-disagreement"
                    info["cvc5"] = c
            else:
                info = inf
            results.append(r)
        if not results:
            # every instance sits on a path that is infeasible under the full path condition: the obligation does not
            # arise at all (it is not counted, neither as discharged nor as undecided)
            dropped.append(name)
            continue
        else:
            res = _agg(results)
        meta = insts[0].meta
        full = name if name.startswith(prefix + ".") or name.startswith("C") and name[3:4] == "." else f"{prefix}.{chk.name}:{name}"
        rec = {"name": full, "function": meta.get("function", chk.functions[0] if chk.functions else "(theory lemma)"), "backend": "z3" + ("+cvc5" if tier == "thorough" else ""),
               "result": res if res in ("discharged", "refuted") else "undecided", "ms": ms, "kind": chk.kind,
               "instances": len(insts), "vacuous_instances": vac, "replay_keys": chk.replay_keys, "focus": chk.focus}
        if res == "refuted":
            if info.get("numeric") is not None:
                rec["numeric"] = info["numeric"]
            rec["model"] = info.get("model")
            rec["solver_output"] = info.get("solver_output")
        elif rec["result"] == "undecided":
            rec["reason"] = info.get("reason") or info.get("solver_output") or res
        if "cvc5" in info:
            rec["cvc5"] = info["cvc5"]
        out.append(rec)
    if not out:
        out.append({"name": f"{prefix}.{chk.name}", "function": (chk.functions[0] if chk.functions else "(theory lemma)"), "backend": "pyvc", "result": "undecided",
                    "reason": "vacuity guard: every generated obligation sits on an infeasible path", "ms": 0, "kind": chk.kind})
    return out, funcs, H


def run_property(prop, tier, repo_root):
    t0 = time.time()
    try:
        mod = importlib.import_module(f"tjv.contracts.{prop}")
    except ModuleNotFoundError:
        return {"obligations": [], "skipped": True}
    prims.USED.clear()
    repo = Repo(repo_root)
    obligations, functions, axioms = [], [], set()
    executed = set()
    checks = list(mod.CHECKS) + (list(mod.extra_checks()) if hasattr(mod, "extra_checks") else []) \
        + (list(getattr(mod, 'THOROUGH_CHECKS', [])) if tier == 'thorough' else [])
    for chk in checks:
        recs, funcs, H = run_check(repo, chk, tier, prop)
        obligations.extend(recs)
        executed |= set(H.called)
        for f in funcs:
            if f not in functions:
                functions.append(f)
    trusted = sorted({f"primitive contract [T]: {p}" for p in prims.USED} | set(getattr(mod, "TRUSTED", [])))
    pv = None
    if getattr(mod, "VALIDATE_LAYOUT_PRIMS", False):
        from . import validate
        pv = validate.run(seed=int(os.environ.get("VERIF_SEED", "0") or 0), n_each=3 if tier == "quick" else 40)
    av = None
    if getattr(mod, "VALIDATE_ALGEBRAIC_PRIMS", False):
        from . import validate_ops
        try:
            av = validate_ops.run(seed=int(os.environ.get("VERIF_SEED", "0") or 0), n_each=1 if tier == "quick" else 12)
        except Exception as e:  # noqa: BLE001
            av = {"samples": 0, "ops": 0, "failures": [f"validation harness crashed: {type(e).__name__}: {e}"], "skipped": [], "table": 0}
    res = _result(obligations, functions, trusted, mod, checks, t0)
    res["functions_symbolically_executed"] = sorted(executed)
    if av is not None:
        res.setdefault("primitive_validation", {})["algebraic_contracts_sampled_against_real_torch"] = {
            "samples": av["samples"], "expressions_agreeing": av["ops"], "table": av.get("table"), "skipped": av["skipped"][:5],
            "disagreements": av["failures"][:5]}
        if av["failures"]:
            res["error"] = "broken assumption: an algebraic primitive contract (or its standard interpretation) disagrees with the real library: " + av["failures"][0][:300]
    if pv is not None:
        res.setdefault("primitive_validation", {}).update({"layout_contracts_sampled_against_real_torch": pv["samples"], "operations": pv["ops"],
                                                           "disagreements": pv["failures"][:5]})
        if pv["failures"]:
            res["error"] = "broken assumption: a layout primitive contract disagrees with the real library: " + pv["failures"][0][:300]
    return res


def _result(obligations, functions, trusted, mod, checks, t0):
    return {
        "obligations": obligations,
        "functions": functions,
        "trusted_base": trusted,
        "assumptions": list(getattr(mod, "ASSUMPTIONS", [])),
        "dropped": DROPPED,
        "z3_version": z3.get_version_string(),
        "vacuity": {"checks": len(checks), "obligation_names": len(obligations),
                    "rule": "every obligation instance has a satisfiable-hypotheses cover query; zero obligations => undecided"},
        "wall_s": round(time.time() - t0, 2),
    }
